#!/usr/bin/env bash
# Runs every registered quick check once against /repo and reports exit codes (refreshes evidence/*.json).
cd "$(dirname "${BASH_SOURCE[0]}")/.."
for p in C01 C02 C03 C04 C05 C06 C07 C08 C09 C10 C11 C12 C13 C14 C15 C16 C17 C18 C19 C20; do
  s=$(date +%s); VERIF_SEED=${VERIF_SEED:-0} ./check $p --tier quick > /tmp/q-$p.out 2>&1; rc=$?; e=$(date +%s)
  echo "$p exit=$rc $((e-s))s $(grep -E "^$p tier" /tmp/q-$p.out | cut -c1-120)"
done

#!/usr/bin/env python3
"""Generates /verif/MANIFEST.json from the table below (kept in one place so it always validates)."""
import json, os, sys
HERE = os.path.dirname(os.path.dirname(os.path.abspath(__file__)))

# id -> (engine, technique, level text, level note, design ref)
CHECKS = {
 "C03": ("inproc+fmtref",
         "differential testing of the literal parser against rustc_parse_format over exhaustive bounded enumerations + proptest-generated sequences",
         "Generated-input search: 1.66M exhaustively enumerated single-placeholder derivations of the std::fmt grammar, all strings up to a length bound over a 28-symbol alphabet (1-4 byte characters incl. multi-byte whitespace), one-edit neighbours and proptest sequences are parsed by derive_more's literal parser (working-tree source, in-process) and by rustc's own parser; placeholders are compared field by field, the effective argument/trait sequence through the where-clause of real expansions, and std-rejected literals must never be delegated. Exploration, not proof: exhaustive only inside the named bounds.",
         "trusts rustc_parse_format of the installed nightly as the std::fmt reference; harness mounts impl/src/*.rs via #[path] from a content-synchronised mirror of /repo",
         "DESIGN.md section 5 C03"),
}
CHECKS["C02"] = ("proggen",
  "differential testing of generated derive programs against plain format! with the same literal/arguments (proptest dice-driven generator, real proc-macro, rustc)",
  "Generated-input search: thousands of generated structs/enum variants deriving each of the nine fmt traits with generated literals and argument lists are compiled by the real proc-macro; each value is formatted through the derived impl and through a reference method that calls format! with the identical literal, arguments and documented bindings; texts must be byte-equal. Also attribute-less single-field delegation and unit names under all eight rename_all casings against an independent casing function.",
  "trusts rustc/format! of the installed stable toolchain as reference; casing oracle only for names made of [A-Z][a-z]+ words",
  "DESIGN.md section 5 C02")
CHECKS["C16"] = ("inproc+proggen",
  "differential testing of the argument splitter against syn's full expression parser on grammar-generated expression lists (proptest dice), cross-validated on a sample against rustc's own `$e:expr` matcher",
  "Generated-input search: 200k (quick) to 1.6M (thorough, 8 seeded rounds, plus a coverage-guided libFuzzer campaign over a token dictionary) comma-separated expression lists from a recursive grammar over every expression form (incl. closures with explicit return types, qualified paths over generated types), with aliases written `name = e` and glued `name=*e`, trailing commas and adversarial adjacency, are split by the derive's token scanner (working-tree source, in-process) and by syn's full parser; element count, token equality, single-identifier classification are compared; through real expansions at four re-emission sites (struct-, variant- and shared enum-level display, field-level debug) the sentinel bound, verbatim spacing-aware re-emission, the single-argument delegating expansion and the derive's own alias recognition (an alias named like the field must not yield the field's bound) are checked. A sample is compiled so that rustc's `$e:expr` matcher validates the proxy.",
  "trusts syn 2 (full) as proxy of Rust's expression grammar, validated against rustc on a sample each run; three recorded defects of the scanner are known findings with rewrite-based defect models",
  "DESIGN.md section 5 C16")
CHECKS["C18"] = ("inproc",
  "robustness fuzzing of all 50 expanders and the literal parser in-process under catch_unwind in crash-isolated worker processes: exhaustive short literals, adversarial literals, template+mutation+random attribute token streams, all item shapes; panic-site classification (deliberate diagnostic vs internal failure)",
  "Generated-input search over ~0.85M (quick) inputs: every short string over a 28-symbol alphabet (1-4 byte characters incl. multi-byte whitespace) through the literal parser, adversarial long/Unicode/huge-number literals through Display/Debug expansions at every attribute level, documented attribute templates mutated at token-tree level plus random token streams on container/variant/field positions for every attribute-taking derive, and unit/tuple/named/enum/union shapes with exotic field types x all 50 derives. Outcome must be Ok, Err or a panic raised at an explicit panic!/assert! line; worker crashes (stack exhaustion) and super-cubic time on four scaling families are violations. Each distinct failing call site is minimised by token-tree deletion.",
  "deliberate-vs-internal panic is decided by reading the source line of the panic location in the tree under test; nesting bounded at 64",
  "DESIGN.md section 5 C18")

def _c(pid, eng, tech, text, note):
    CHECKS[pid] = (eng, tech, text, note, "DESIGN.md section 5 " + pid)

_c("C01", "proggen",
   "generated-program compile testing: dice-driven proptest generator of derive inputs (all 50 derives x shapes x generics x attributes x decorations) compiled by the real proc-macro; rustc is the oracle; control rendering without derive_more separates generator faults",
   "Generated-input search: ~2.1k (quick) to ~48k (thorough) distinct type definitions per seed over the supported shape space (unit/tuple/named structs, enums mixing variant kinds, unions; 0..2 lifetimes, 0..2 type parameters with inline bounds/defaults, const parameters incl. unused/defaulted, where-clauses, consts before types; raw identifiers; documented attributes; #[deprecated] fields/variants, uninhabited fields) with field types that implement every trait a derive may require. Each must be accepted by `cargo check` and raise no warning that its derive-free control rendering does not raise as well. Exploration only.",
   "the per-derive support table (what the docs promise) is transcribed by hand (DESIGN Appendix A); three language-level coherence/orphan limits are excluded by construction and documented in DESIGN section 8")
_c("C04", "proggen",
   "generated generic fmt-derive programs with planned parameter roles; trait-implementation probing (inherent-const trick) on NoFmt / Only<Trait> instantiations decides sufficiency and non-excess of the inferred bounds",
   "Generated-input search: ~1.9k (quick) to ~39k (thorough) generic structs/enums deriving Display-like traits or Debug; each type parameter is planned as formatted under one trait, unformatted, or user-bounded; the program must compile without further bounds (sufficiency), the impl must exist with unformatted parameters instantiated by a type implementing no fmt trait and formatted ones by a type implementing only their trait (non-excess, wrong-trait detection), and must not exist when a `bound(..)` predicate is violated. Exploration only.",
   "bounds are observed behaviourally through trait resolution, not through the expansion's tokens; one recorded finding (reference-typed field bound shadows std's blanket impl) is matched by its defect model")
_c("C07", "proggen+inproc",
   "differential testing of generated enums against the documented wrapping/default rule computed with plain format! inside the program; negative compile shards plus an exhaustive in-process screen of the `_variant` spec grid",
   "Generated-input search: thousands of generated enums deriving each of the eight Display-like traits (all variant shapes, own attributes present or absent, rename_all, enum-level literals mentioning `_variant` 0-3 times as placeholder, positional argument or alias, mixed with text and common fields); every variant's output must be byte-equal to the rule's prediction; `_variant` with any specifier or non-Display type and any enum-level format on Debug must be rejected (fixed table x 3 mention forms, random multi-modifier specs, ~50k-200k spec-grid items in-process). Exploration; exhaustive only over the named spec grid on one enum shape.",
   "trusts format! of the installed toolchain; rename_all oracle only for [A-Z][a-z]+ words")
_c("C08", "proggen",
   "generated programs over logged conversion helper types: value/address/write-through comparisons, round trips, conversion-count logs; impl presence and absence decided at run time by an inherent-const-vs-blanket-trait probe against a model of from.md/into.md/constructor.md",
   "Generated-input search: 2.3k (quick) / 28k (thorough) structs and enums deriving From/Into/Constructor over all documented attribute placements; components must land in declaration order, ref/ref_mut forms must alias the very fields, round trips must be the identity, exactly one logged From::from per converted field, and the set of impls must equal the documented one (10-30 probed (T,U) pairs per case incl. near misses); wrong-arity type lists and derives on unsupported kinds must be rejected. Exploration only.",
   "type parameters on the derived types only in the const-generic form; negative cases must be rejected by the derive itself (confirmed in-process) and by rustc")
_c("C10", "proggen",
   "symbolic differential testing: field types form a free term algebra recording (operator, lhs, rhs), so one evaluation per generated case decides all operand values; expected terms are built by hand inside the program",
   "Generated-input search: ~2k (quick) / ~16k (thorough) structs and enums deriving each of the 24 operator derives (scalar and forward Mul family, assign forms, Not/Neg, Sum/Product with derived or hand-written companions); field i must equal op(L i, R i) / op(L i, K) / un(L i); a op= b equals a op b; sums equal the left fold from the field-wise Zero/One; every ordered pair of enum variants gives Ok / Mismatch / Unit with the documented messages; enum forms documented as unsupported must be rejected. Exploration only.",
   "trusts std #[derive(Debug)] renderings for term comparison; field types are always the helper algebra types")
_c("C11", "proggen+inproc",
   "generated enums with the full (value per variant) x (accessor) table evaluated inside the program: values for owned forms, addresses for ref/mut forms, caught panics, error.input identity; colliding user items probe accessors that must be absent",
   "Generated-input search: 800 (quick) / ~9.6k (thorough) enums per seed over unit/tuple/named variants, shared field-type tuples, ignore on variants and fields, owned/ref/ref_mut selections, generics, multi-word and raw-identifier names; every (value, accessor) pair is executed: is_x partition, unwrap/try_unwrap payload identity and panics/errors carrying the unchanged input, TryFrom success exactly for the matching variants. Exploration only.",
   "existence of accessors is asserted only where the docs are unambiguous (no attribute, enum-level lists, ignore, pure opt-in); elsewhere the accessor set is read from the in-process expansion and everything found is checked")
_c("C13", "proggen",
   "model-based testing of generated FromStr enums and newtypes against a reference implementation of the documented matching rule / the inner type's own FromStr over string sets enumerated inside the program (bounded exhaustive, case patterns, one-edit neighbours, seeded random)",
   "Generated-input search: ~1000 enums (about 14k strings each: all strings up to a length bound over each name's letters in both cases plus separators, every case pattern, one-edit neighbours, prefixes/suffixes/concatenations, random multi-byte strings) and ~450 newtypes over 14 inner types incl. generic forms and a custom error per quick run; results, error types and texts must agree with the reference, own names must round-trip. Exploration; exhaustive only inside the stated per-name length bounds.",
   "variant names are ASCII or use the letters É Ä Ø Ü (one-to-one case pairs); characters whose lowercase is an ASCII letter excluded from the strings so that 'ignoring case' is unambiguous")
_c("C14", "proggen+inproc",
   "generated structs with equal-typed neighbouring fields whose field types answer their own AsRef/Deref/Index/IntoIterator from a second allocation, so pointer/size identity separates the field's own storage from the field's impl result; write-through and three-form iteration comparisons",
   "Generated-input search: ~890 (quick) / ~10k (thorough) structs per seed over all seven delegating derives, selection by marker / ignore-the-others / forward / type lists (incl. the field's own type through an alias or another path), owned/ref/ref_mut iteration: addresses, sizes, element order and write visibility must match the selected field (or exactly what the field's own impl returns when forwarding). Exploration only.",
   "selection styles limited to the documented ones; absence of the owned IntoIterator form is probed only in the arrangement the repo's own test defines")
_c("C15", "proggen",
   "metamorphic testing: every generated item (C01 generator, all 50 derives) and 22 behaviour templates are compiled twice, in a friendly module and in a #[no_implicit_prelude] module with one of 7 shadow sets (types, fns/consts, traits, compile_error-macros, silently capturing macros, glob-imported variants); user tokens are rewritten to absolute paths, so only expansion tokens can depend on the scope",
   "Generated-input search: ~1.2k (quick) / ~40k (thorough) friendly/hostile pairs; the hostile copy must compile whenever the friendly one does, and the drivers' observation strings (formatting results, panic messages, error texts, sources, parses, conversions) must be identical in both scopes; every behaviour template runs under every shadow set in every quick run. Exploration only.",
   "the token-level absolutising rewrite of user tokens is trusted; a friendly copy that does not compile is counted as generator reject (C01's business)")
_c("C17", "inproc+proggen",
   "grammar-model-based generation with metamorphic rewrites and single-step corruptions of derive attribute sets; in-process expansions compared by token equality modulo top-level item order; a per-cell sample cross-checked through the real proc-macro and rustc",
   "Generated-input search: 377 (derive, position, kind) cells x 100 (quick) to 2000 (thorough) seeded cases for the 34 attribute-taking derives: skip/ignore, bound/bounds, n types vs n attributes, trailing comma and attribute permutation must expand token-equal; unknown identifiers, duplicated literal/rename_all/repr, arguments on the wrong item kind, legacy `fmt =`/`bound =`/`types(..)`, X + not(X) and ignore + selector must yield a diagnostic whenever the uncorrupted item is accepted; 2-4 cases per cell are compiled (positive pairs print identical probes, negatives are rejected by the derive; attribute registration in lib.rs covered). Exploration only.",
   "the attribute language per position is transcribed from impl/doc/*.md; undocumented positions and docs-silent duplications are not asserted")
_c("C19", "inproc",
   "repeated-expansion and fresh-process differential testing of in-process expansions on generated inputs biased to hashed-collection iteration; thorough tier adds separate rustc processes with the real proc-macro (-Zunpretty=expanded)",
   "Generated-input search: 3k (quick) / 40k (thorough) derive inputs (TryInto/FromStr/Mul-like/Error biased, plus shape x derive sampling) are expanded twice in one process, in a seeded permutation of the order, and in 8 (quick) / 48 (thorough) fresh processes (per-process hash seeds, alternating forward/reverse order); token texts must be identical. Exploration only.",
   "in-process expansion calls the same expand functions as the proc-macro entry points; std RandomState differs per process")

_c("C05", "proggen",
   "differential testing of generated derive programs against format! applied directly to the denoted argument under a covering grid of 88 outer format specs, plus a negative-compile shard",
   "Generated-input search over 9 derive traits x literal class (no attribute; one bare placeholder in each trait; exactly one modifier of each kind; text or escape; two placeholders; none) x argument form (field by name, positional, named matching, named by position, expression, out-of-range index, unused argument): ~900 (quick) / ~30k (thorough) cases; substitutable cases must equal the same outer spec applied to the argument under the placeholder's trait, all other runnable cases must equal their flag-free output (= format!(literal, args)), out-of-range indices must be rejected by rustc. Exploration only.",
   "trusts format! of the installed stable toolchain; names of outer non-field bindings are not generated (the statement does not classify them)")
_c("C06", "proggen",
   "differential testing of generated type families against twin definitions deriving std Debug (or using std's builders with finish_non_exhaustive / &format_args!) under a covering grid of 128 formatter configurations x 11 nestings",
   "Generated-input search: ~680 (quick) / ~22k (thorough) type families (all struct/enum shapes, generics, raw identifiers, nesting to depth 3, every skip/ignore subset, field formats) compiled three times with identical names (derive_more::Debug, reference twin, twin carrying the recorded defect model); every value is rendered under 128 outer specs x 11 nestings and compared text for text. Exploration only.",
   "trusts the std derive and builders; the hand-written reference impls are self-checked against the std derive on attribute-less types in every case; one recorded finding (pretty-printing DebugTuple drops the caller's flags) is attributed only when the text equals the defect model's prediction exactly")
_c("C09", "proggen+inproc",
   "model-based differential testing of generated derive(Error) programs (stable and nightly shards) with a pointer-identity run-time oracle, a metamorphic ignore twin, negative compile cases, and an exhaustive in-process accept/reject sweep",
   "Generated-input search: ~2k (quick) / ~30k (thorough) structs and enum variants over field layouts (0..3 named/positional fields x attribute x name x type, generic and concrete, container-level ignore); the data pointer of source()'s result is compared with the address of every field (boxed dyn: the boxed value) against a three-valued model of error.md; layouts with a backtrace run in a nightly shard; two explicit sources must fail to compile; the derive-level accept/reject clause is enumerated completely over 85,884 layouts in-process. Exploration; exhaustive only for that sweep.",
   "documentation-open layouts are counted as Unspecified and not checked; the nightly shard needs cargo +nightly (exit 2 if absent)")
_c("C12", "proggen",
   "model-based testing of generated #[try_from(repr)] enums against the enum-to-integer cast (generator-computed Reference-rule discriminants cross-checked with `as` casts of a field-stripped twin), exhaustive over the integer domain for 8/16-bit reprs",
   "Generated-input search: ~2.5k (quick) / ~30k (thorough) enums (discriminant patterns incl. constant expressions, variants with fields interleaved, every integer repr alone or with other hints, generics); for 8/16-bit reprs every integer is tried, for wider ones discriminants +-1, extremes, 0 and 6000 seeded values: Ok iff the discriminant of a field-less variant (tag re-read equals n), else Err carrying n. Exploration; exhaustive per generated enum only over the 8/16-bit input domain.",
   "u128 discriminants kept within 0..=i128::MAX; the tag of enums with fields is read only under a primitive repr")

_c("C20", "matrix",
   "configuration-matrix testing: seeded proptest-drawn feature sets of the facade crate are evaluated by running cargo on a content-synchronised mirror of the tree: cargo check of both crates, a generated import-probe crate whose unresolved-item set is compared with a documented feature-to-item table, and the repository's own test programs selected by required-features",
   "Exploration over configurations. Quick: every derive feature alone (std state rotating; two consecutive seeds cover all 48 single configurations), 10 rotating pairs, one larger subset, plus `full` without std. Thorough: exhaustive over all 48 single configurations, `full` with and without std, all 552 pair configurations in seeded order and ~100 random subsets of 3-12 features within a 30 min budget. For each configuration error-free builds of both crates, exact equality of the exposed items against the table (301 probes) and passing test programs are asserted; the evidence lists each configuration run.",
   "builds are judged on errors only (no -D warnings: the installed rustc is newer than the pinned toolchain); compile_fail (trybuild) excluded; only the host target is built")

NOT_YET = {}

def main():
    props = [json.loads(l) for l in open(os.path.join(HERE, "properties.jsonl"))]
    checks = []
    na = []
    for p in props:
        pid = p["id"]
        if pid in CHECKS:
            eng, tech, text, note, ref = CHECKS[pid]
            # the check's own rule text and the sizes of its latest quick run keep the claim current
            try:
                ev = json.load(open(os.path.join(HERE, "evidence", pid + ".json")))
                cov = ev.get("coverage", {})
                if ev.get("tier") == "quick" and cov.get("rule"):
                    text = (text + " As built (rule text of the check, latest quick run: %s evaluations, %s distinct non-trivial): %s"
                            % (cov.get("evaluations", "?"), cov.get("distinct_nontrivial", "?"), cov["rule"]))
            except Exception:
                pass
            checks.append({
                "property_id": pid,
                "quick_cmd": f"./check {pid} --tier quick",
                "thorough_cmd": f"./check {pid} --tier thorough",
                "evidence_file": f"evidence/{pid}.json",
                "replay_cmd_template": f"./check {pid} --replay {{path}}",
                "engine": eng,
                "level_claimed": {"category": "exploration", "text": text, "design_ref": ref},
                "level_note": note,
                "technique": tech,
            })
        else:
            na.append({"property_id": pid, "reason": NOT_YET.get(pid, "check not built yet in this session (work in progress; the technique applies, see DESIGN.md section 5)")})
    m = {
        "version": 1,
        "setup_cmd": "./setup.sh",
        "hooks": {
            "guard": "--cfg jeltef_derive_more_verif",
            "enable": "none needed: no hook exists; the checks observe the working tree through #[path] module inclusion, the real proc-macro and the public API",
            "baseline_off_cmd": "cd /repo && cargo test --workspace --no-fail-fast --offline",
            "source_commits": [],
            "add_only": True,
        },
        "engines": [
            {"name": "inproc", "path": "harness/src/v/dm.rs", "kind_free_text": "working-tree expanders and parsers compiled into the harness via #[path]; proptest-driven generation, catch_unwind, manual shrinking"},
            {"name": "fmtref", "path": "fmtref/src/main.rs", "kind_free_text": "rustc_parse_format (nightly, rustc_private) as reference parser service"},
            {"name": "proggen", "path": "harness/src/v/proggen.rs", "kind_free_text": "generated crates compiled by the real proc-macro from the working tree; rustc verdicts + run-time oracles inside the generated program"},
            {"name": "matrix", "path": "harness/src/v/p20.rs", "kind_free_text": "cargo runs over generated feature sets on the mirror of the tree"},
            {"name": "fuzz", "path": "fuzz/", "kind_free_text": "cargo-fuzz/libFuzzer targets (fmt_literal, expr_split, expand_any) linking the harness library; thorough tiers of C03, C16, C18"},
        ],
        "checks": checks,
        "not_applicable": na,
        "notes": "All checks: ./check <ID> --tier quick|thorough; exit 0 held / 1 VIOLATION / 2 infrastructure or inconclusive. VERIF_SEED selects the proptest seed. known_findings.json lists recorded and fixed defects.",
    }
    for e in m["engines"]:
        e["serves_properties"] = [c["property_id"] for c in checks if e["name"] in c["engine"]]
    json.dump(m, open(os.path.join(HERE, "MANIFEST.json"), "w"), indent=1)
    print("wrote MANIFEST.json with", len(checks), "checks,", len(na), "not_applicable")

if __name__ == "__main__":
    main()

#!/usr/bin/env python3
"""Generates /verif/MANIFEST.json from the table below (kept in one place so it always validates)."""
import json, os, sys
HERE = os.path.dirname(os.path.dirname(os.path.abspath(__file__)))

# id -> (engine, technique, level text, level note, design ref)
CHECKS = {
 "C03": ("inproc+fmtref",
         "differential testing of the literal parser against rustc_parse_format over exhaustive bounded enumerations + proptest-generated sequences",
         "Generated-input search: 1.33M exhaustively enumerated single-placeholder derivations of the std::fmt grammar, all strings up to a length bound over a 27-symbol alphabet, one-edit neighbours and proptest sequences are parsed by derive_more's literal parser (working-tree source, in-process) and by rustc's own parser; placeholders are compared field by field, the effective argument/trait sequence through the where-clause of real expansions, and std-rejected literals must never be delegated. Exploration, not proof: exhaustive only inside the named bounds.",
         "trusts rustc_parse_format of the installed nightly as the std::fmt reference; harness mounts impl/src/*.rs via #[path] from a content-synchronised mirror of /repo",
         "DESIGN.md section 5 C03"),
}
CHECKS["C02"] = ("proggen",
  "differential testing of generated derive programs against plain format! with the same literal/arguments (proptest dice-driven generator, real proc-macro, rustc)",
  "Generated-input search: thousands of generated structs/enum variants deriving each of the nine fmt traits with generated literals and argument lists are compiled by the real proc-macro; each value is formatted through the derived impl and through a reference method that calls format! with the identical literal, arguments and documented bindings; texts must be byte-equal. Also attribute-less single-field delegation and unit names under all eight rename_all casings against an independent casing function.",
  "trusts rustc/format! of the installed stable toolchain as reference; casing oracle only for names made of [A-Z][a-z]+ words",
  "DESIGN.md section 5 C02")
CHECKS["C16"] = ("inproc+proggen",
  "differential testing of the argument splitter against syn's full expression parser on grammar-generated expression lists (proptest dice), cross-validated on a sample against rustc's own `$e:expr` matcher",
  "Generated-input search: 60k (quick) to 1M (thorough) comma-separated expression lists from a recursive grammar over every expression form, with aliases, trailing commas and adversarial adjacency, are split by the derive's token scanner (working-tree source, in-process) and by syn's full parser; element count, token equality, single-identifier classification, the sentinel bound through a real Display expansion and verbatim spacing-sensitive re-emission are compared. A sample is compiled so that rustc's `$e:expr` matcher validates the proxy.",
  "trusts syn 2 (full) as proxy of Rust's expression grammar, validated against rustc on a sample each run; three recorded defects of the scanner are known findings with rewrite-based defect models",
  "DESIGN.md section 5 C16")
CHECKS["C18"] = ("inproc",
  "robustness fuzzing of all 50 expanders and the literal parser in-process under catch_unwind in crash-isolated worker processes: exhaustive short literals, adversarial literals, template+mutation+random attribute token streams, all item shapes; panic-site classification (deliberate diagnostic vs internal failure)",
  "Generated-input search over ~0.85M (quick) inputs: every short string over a 27-symbol alphabet through the literal parser, adversarial long/Unicode/huge-number literals through Display/Debug expansions at every attribute level, documented attribute templates mutated at token-tree level plus random token streams on container/variant/field positions for every attribute-taking derive, and unit/tuple/named/enum/union shapes with exotic field types x all 50 derives. Outcome must be Ok, Err or a panic raised at an explicit panic!/assert! line; worker crashes (stack exhaustion) and super-cubic time on four scaling families are violations. Each distinct failing call site is minimised by token-tree deletion.",
  "deliberate-vs-internal panic is decided by reading the source line of the panic location in the tree under test; nesting bounded at 64",
  "DESIGN.md section 5 C18")
NOT_YET = {}

def main():
    props = [json.loads(l) for l in open(os.path.join(HERE, "properties.jsonl"))]
    checks = []
    na = []
    for p in props:
        pid = p["id"]
        if pid in CHECKS:
            eng, tech, text, note, ref = CHECKS[pid]
            checks.append({
                "property_id": pid,
                "quick_cmd": f"./check {pid} --tier quick",
                "thorough_cmd": f"./check {pid} --tier thorough",
                "evidence_file": f"evidence/{pid}.json",
                "replay_cmd_template": f"./check {pid} --replay {{path}}",
                "engine": eng,
                "level_claimed": {"category": "exploration", "text": text, "design_ref": ref},
                "level_note": note,
                "technique": tech,
            })
        else:
            na.append({"property_id": pid, "reason": NOT_YET.get(pid, "check not built yet in this session (work in progress; the technique applies, see DESIGN.md section 5)")})
    m = {
        "version": 1,
        "setup_cmd": "./setup.sh",
        "hooks": {
            "guard": "--cfg jeltef_derive_more_verif",
            "enable": "none needed: no hook exists; the checks observe the working tree through #[path] module inclusion, the real proc-macro and the public API",
            "baseline_off_cmd": "cd /repo && cargo test --workspace --no-fail-fast --offline",
            "source_commits": [],
            "add_only": True,
        },
        "engines": [
            {"name": "inproc", "path": "harness/src/v/dm.rs", "kind_free_text": "working-tree expanders and parsers compiled into the harness via #[path]; proptest-driven generation, catch_unwind, manual shrinking"},
            {"name": "fmtref", "path": "fmtref/src/main.rs", "kind_free_text": "rustc_parse_format (nightly, rustc_private) as reference parser service"},
            {"name": "proggen", "path": "harness/src/v/proggen.rs", "kind_free_text": "generated crates compiled by the real proc-macro from the working tree; rustc verdicts + run-time oracles inside the generated program"},
        ],
        "checks": checks,
        "not_applicable": na,
        "notes": "All checks: ./check <ID> --tier quick|thorough; exit 0 held / 1 VIOLATION / 2 infrastructure or inconclusive. VERIF_SEED selects the proptest seed. known_findings.json lists recorded and fixed defects.",
    }
    for e in m["engines"]:
        e["serves_properties"] = [c["property_id"] for c in checks if e["name"] in c["engine"]]
    json.dump(m, open(os.path.join(HERE, "MANIFEST.json"), "w"), indent=1)
    print("wrote MANIFEST.json with", len(checks), "checks,", len(na), "not_applicable")

if __name__ == "__main__":
    main()

#!/usr/bin/env python3
"""usage: tools/auto_mutants.py [N=80] [SEED=1]   -> /verif/mutants/auto/results.jsonl, summary on stdout
Systematic sensitivity measurement: N syntactic mutants of /repo/impl/src (operator swaps in non-test code), each applied to a
scratch copy of /repo; the in-process checks (C03 C16 C17 C18 C19) and the program-level checks responsible for the mutated file
are run against it until one reports a violation ("killed"). Mutants that do not build are skipped. Work dir: /verif/.work-auto."""
import os, re, sys, json, random, subprocess, shutil, time
N = int(sys.argv[1]) if len(sys.argv) > 1 else 80
SEED = int(sys.argv[2]) if len(sys.argv) > 2 else 1
V = "/verif"; SRC = "/repo/impl/src"; OUT = V + "/mutants/auto"; os.makedirs(OUT, exist_ok=True)
E1 = ["C18", "C17", "C19", "C16", "C03"]
MAP = [
 (r"^(add_like|add_assign_like|mul_like|mul_assign_like|not_like|sum_like|add_helpers|mul_helpers)\.rs$", ["C10", "C01"]),
 (r"^as/", ["C14", "C01"]), (r"^(constructor|from|into)\.rs$", ["C08", "C01"]),
 (r"^(deref|deref_mut|index|index_mut|into_iterator)\.rs$", ["C14", "C01"]), (r"^error\.rs$", ["C09", "C01", "C15"]),
 (r"^fmt/debug\.rs$", ["C06", "C04", "C01"]), (r"^fmt/display\.rs$", ["C02", "C05", "C07", "C04", "C01"]),
 (r"^fmt/mod\.rs$", ["C02", "C04", "C05", "C07", "C06"]), (r"^fmt/parsing\.rs$", ["C02", "C05"]), (r"^from_str\.rs$", ["C13", "C01"]),
 (r"^(is_variant|unwrap|try_unwrap|try_into)\.rs$", ["C11", "C01"]), (r"^try_from\.rs$", ["C12", "C01"]), (r"^parsing\.rs$", ["C02", "C05"]),
 (r"^utils\.rs$", ["C01", "C08", "C11", "C14", "C09", "C10", "C12", "C13"]), (r"^lib\.rs$", ["C01", "C20"]),
]
OPS = [(r"==", "!="), (r"!=", "=="), (r"&&", "||"), (r"\|\|", "&&"), (r"\btrue\b", "false"), (r"\bfalse\b", "true"),
       (r"\.is_some\(\)", ".is_none()"), (r"\.is_none\(\)", ".is_some()"), (r"\.is_empty\(\)", ".is_empty() == false"),
       (r"\.any\(", ".all("), (r"\.all\(", ".any("), (r" \+ 1\b", " + 2"), (r" > 1\b", " > 0"), (r" < ", " <= "), (r"\.first\(\)", ".last()")]
sites = []
for root, _, files in os.walk(SRC):
    for f in files:
        if not f.endswith(".rs"): continue
        p = os.path.join(root, f); rel = os.path.relpath(p, SRC)
        lines = open(p).read().split("\n")
        in_test = False; in_quote_doc = False
        for i, l in enumerate(lines):
            if re.match(r"^#\[cfg\(test\)\]", l.strip()): in_test = True
            if in_test: continue
            s = l.strip()
            if s.startswith("//") or s.startswith("#[") or "quote!" in l and "==" not in l: pass
            if s.startswith("//"): continue
            for pat, rep in OPS:
                for m in re.finditer(pat, l):
                    # skip matches inside string literals / comments (cheap test: an odd number of quotes before it)
                    pre = l[:m.start()]
                    if pre.count('"') % 2 == 1 or "//" in pre: continue
                    sites.append((rel, i, m.start(), m.end(), rep))
random.Random(SEED).shuffle(sites)
# spread over files: at most ceil(N/6) per file
cap = max(3, N // 6); per = {}; chosen = []
for s in sites:
    if per.get(s[0], 0) >= cap: continue
    per[s[0]] = per.get(s[0], 0) + 1; chosen.append(s)
    if len(chosen) >= N: break
print("candidate sites:", len(sites), "chosen:", len(chosen), file=sys.stderr)
W = V + "/.work-auto"; os.makedirs(W, exist_ok=True)
res_path = OUT + "/results.jsonl"; done = set()
if os.path.exists(res_path):
    for l in open(res_path):
        try: done.add(json.loads(l)["id"])
        except Exception: pass
env = dict(os.environ, DMV_WORK=W, DMV_EVIDENCE_DIR="/tmp/dmv-scratch-evidence", CARGO_NET_OFFLINE="true")
for (rel, li, a, b, rep) in chosen:
    mid = "%s:%d:%d:%s" % (rel, li + 1, a, rep)
    if mid in done: continue
    M = "/tmp/mut-auto"; shutil.rmtree(M, ignore_errors=True)
    subprocess.run(["rsync", "-a", "--exclude", "target", "--exclude", ".git", "/repo/", M + "/"], check=True)
    p = os.path.join(M, "impl/src", rel); lines = open(p).read().split("\n")
    orig = lines[li]; lines[li] = orig[:a] + rep + orig[b:]; open(p, "w").write("\n".join(lines))
    checks = list(E1)
    for pat, cs in MAP:
        if re.search(pat, rel): checks += cs
    verdict = "survived"; by = None; t0 = time.time(); log = []
    for c in checks:
        r = subprocess.run([V + "/check", c], env=dict(env, DM_REPO=M), capture_output=True, text=True)
        log.append((c, r.returncode))
        if r.returncode == 1: verdict = "killed"; by = c; break
        if r.returncode == 2 and "harness build failed" in r.stdout: verdict = "no-build"; break
    subprocess.run(["rm", "-rf", V + "/replays"]) if False else None
    rec = {"id": mid, "file": rel, "line": li + 1, "before": orig.strip(), "after": lines[li].strip(), "verdict": verdict, "by": by, "checks": log, "secs": round(time.time() - t0)}
    open(res_path, "a").write(json.dumps(rec) + "\n"); print(json.dumps(rec)[:260], flush=True)
shutil.rmtree("/tmp/mut-auto", ignore_errors=True)

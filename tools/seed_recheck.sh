#!/usr/bin/env bash
# usage: tools/seed_recheck.sh [<ID>-<x> ...]   (default: every directory under seeded/)
# Re-runs only the check part for already confirmed seeded changes (patch applied to a scratch worktree of /repo HEAD)
# and refreshes `check_verdicts` in meta.json. Extra checks to run can be listed in seeded/<ID>-<x>/also_run.
set -u
cd /verif
LIST="$*"; [ -z "$LIST" ] && LIST=$(ls seeded | grep -E '^C[0-9]+-[a-z]$')
for S in $LIST; do
  OUT=/verif/seeded/$S; ID=${S%-*}
  [ -f "$OUT/patch.diff" ] || continue
  WT=/tmp/seedre-$S; rm -rf "$WT"; git -C /repo worktree prune; git -C /repo worktree add -q "$WT" HEAD || continue
  if ! ( cd "$WT" && git apply "$OUT/patch.diff" ); then echo "$S: patch does not apply to HEAD"; git -C /repo worktree remove --force "$WT"; continue; fi
  EXTRA=""; [ -f "$OUT/also_run" ] && EXTRA=$(cat "$OUT/also_run")
  verd=""
  for P in $ID $EXTRA; do
    DM_REPO="$WT" DMV_EVIDENCE_DIR=/tmp/dmv-scratch-evidence DMV_WORK=${SEED_WORK:-/verif/.work-seed} /verif/check "$P" > "$OUT/check-$P.out" 2>&1; rc=$?
    verd="$verd $P=exit$rc"; rm -rf /verif/replays/$P
  done
  git -C /repo worktree remove --force "$WT"
  python3 - "$OUT" "$verd" <<'PY'
import json,sys,os
out,verd=sys.argv[1:3]
p=os.path.join(out,'meta.json')
m=json.load(open(p)); m['check_verdicts']=verd.strip(); json.dump(m,open(p,'w'),indent=1)
print(os.path.basename(out), verd)
PY
done

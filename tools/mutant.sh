#!/usr/bin/env bash
# usage: tools/mutant.sh <ID> <python-replace-spec-file | patch.diff> [extra check args]
# Applies a mutation to a scratch copy of /repo and runs one check against it (DM_REPO), then deletes the copy.
# A spec file is python: a list `EDITS = [(path, old, new), ...]`.
set -u
ID="$1"; SPEC="$2"; shift 2
MUT=/tmp/dm-mut-$$
rsync -a --exclude /target --exclude /.git /repo/ "$MUT"/
if [[ "$SPEC" == *.diff || "$SPEC" == *.patch ]]; then
  (cd "$MUT" && patch -p1 -s < "$SPEC") || { echo "patch failed"; rm -rf "$MUT"; exit 3; }
else
  python3 - "$MUT" "$SPEC" <<'PY' || { rm -rf "$MUT"; exit 3; }
import sys, os
mut, spec = sys.argv[1], sys.argv[2]
ns = {}
exec(open(spec).read(), ns)
for path, old, new in ns["EDITS"]:
    p = os.path.join(mut, path)
    s = open(p).read()
    if old not in s:
        print("mutation target not found in", path, ":", old[:60]); sys.exit(1)
    s = s.replace(old, new, 1)
    open(p, "w").write(s)
PY
fi
DM_REPO="$MUT" DMV_EVIDENCE_DIR=/tmp/dmv-scratch-evidence /verif/check "$ID" "$@"
rc=$?
rm -rf "$MUT"
echo "mutant exit code: $rc"
exit $rc

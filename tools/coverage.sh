#!/usr/bin/env bash
# usage: tools/coverage.sh            (about 10 min; needs the nightly toolchain's llvm-tools)
# Measures which lines of /repo/impl/src the checks' generated inputs execute:
#   E1: the harness built with -C instrument-coverage, quick tiers of the in-process checks (C16 C17 C18 C19);
#   E2: the real proc-macro built with -C instrument-coverage inside the generated crates, quick tiers of the
#       program-level checks (C01 C02 C04..C14).
# Prints per-file line coverage of both and the lines executed by neither. Work dir: /verif/.work-cov (git-ignored).
set -u
V=/verif; W=$V/.work-cov; SYS=$(rustc +nightly --print sysroot); B=$SYS/lib/rustlib/x86_64-unknown-linux-gnu/bin; L=$SYS/lib
mkdir -p $W/prof1 $W/prof2; rm -f $W/prof1/* $W/prof2/*
( cd $V && DMV_WORK=$V/.work ./check C03 --replay /dev/null >/dev/null 2>&1 )   # makes sure mirror and fmtref exist
rsync -rc --delete $V/.work/mirror/ $W/mirror/; rsync -rc --delete --exclude target $V/harness/ $W/hsrc/
( cd $W/hsrc && RUSTFLAGS="-C instrument-coverage" CARGO_NET_OFFLINE=true CARGO_TARGET_DIR=$W/tgt cargo +nightly build --release --offline 2>&1 | tail -1 )
export DMV_VERIF=$V DM_REPO=/repo DMV_WORK=$W DMV_MIRROR=$W/mirror DMV_FMTREF=$V/.work/tgt-nightly/release/fmtref DMV_NIGHTLY_LIB=$L LD_LIBRARY_PATH=$L DMV_EVIDENCE_DIR=/tmp/cov-ev
for id in C18 C17 C19 C16; do LLVM_PROFILE_FILE=$W/prof1/%p-%m.profraw $W/tgt/release/dmv $id --tier quick 2>&1 | tail -1 | cut -c1-100; done
unset LD_LIBRARY_PATH
for id in C01 C02 C04 C05 C06 C07 C08 C09 C10 C11 C12 C13 C14; do
  LLVM_PROFILE_FILE=$W/prof2/%p-%m.profraw CARGO_BUILD_RUSTFLAGS="-C instrument-coverage" $V/.work/tgt-dmv/release/dmv $id --tier quick 2>&1 | tail -1 | cut -c1-100
done
$B/llvm-profdata merge -sparse $W/prof1/*.profraw -o $W/e1.profdata
$B/llvm-profdata merge -sparse $W/prof2/*.profraw -o $W/e2.profdata
SO=$(ls -t $W/tgt-gen/debug/deps/libderive_more_impl-*.so | head -1)
$B/llvm-cov show $W/tgt/release/dmv -instr-profile=$W/e1.profdata -format=text > $W/cov_e1.txt 2>/dev/null
$B/llvm-cov show $SO -instr-profile=$W/e2.profdata -format=text > $W/cov_e2.txt 2>/dev/null
python3 - "$W" <<'PY'
import re,sys
W=sys.argv[1]
def scan(path):
    cur=None; tot={}; unc={}
    for l in open(path,errors='replace'):
        l=l.rstrip('\n')
        m=re.match(r'^(/.*impl/src/.*):$',l)
        if m: cur=m.group(1).split('impl/src/')[1]; continue
        if l.startswith('/') and l.endswith(':'): cur=None; continue
        if cur:
            m=re.match(r'^\s*(\d+)\|\s*([0-9.kMG]+)\|(.*)$',l)
            if m:
                tot.setdefault(cur,set()).add(int(m.group(1)))
                if m.group(2)=='0': unc.setdefault(cur,{})[int(m.group(1))]=m.group(3)
    return tot,unc
t1,u1=scan(W+'/cov_e1.txt'); t2,u2=scan(W+'/cov_e2.txt')
print("%-26s %8s %10s %10s %8s"%("file","lines","E1 missed","E2 missed","neither"))
N=0; T=0
for f in sorted(t1):
    both=set(u1.get(f,{}))&set(u2.get(f,{})) if f in t2 else set(u1.get(f,{}))
    print("%-26s %8d %10d %10d %8d"%(f,len(t1[f]),len(u1.get(f,{})),len(u2.get(f,{})),len(both))); N+=len(both); T+=len(t1[f])
print("instrumented lines %d, executed by neither engine %d (%.1f%%)"%(T,N,100.0*N/T))
for f in sorted(u1):
    both=sorted(set(u1[f])&set(u2.get(f,{})))
    for n in both: print("%s:%d: %s"%(f,n,u1[f][n][:100]))
PY

#!/usr/bin/env python3
"""Rewrites the 'Sizes as built' table of DESIGN.md (between the SIZES markers) from evidence/*.json."""
import json, os, re
root = os.path.join(os.path.dirname(os.path.abspath(__file__)), "..")
rows = ["| check | quick-tier evaluations | distinct non-trivial | warm wall (s) | known-finding hits |", "|---|---|---|---|---|"]
for n in range(1, 21):
    pid = f"C{n:02d}"
    e = json.load(open(os.path.join(root, "evidence", pid + ".json")))
    c = e["coverage"]
    hits = sum(c.get("known_finding_hits", {}).values())
    rows.append(f"| {pid} | {c.get('evaluations', c.get('cases_generated', '?'))} | {c.get('distinct_nontrivial', c.get('nontrivial', '?'))} | {e['wall_s']:.1f} | {hits} |")
p = os.path.join(root, "DESIGN.md")
s = open(p).read()
s = re.sub(r"<!-- SIZES -->.*?<!-- /SIZES -->", "<!-- SIZES -->\n" + "\n".join(rows) + "\n<!-- /SIZES -->", s, flags=re.S)
open(p, "w").write(s)
print("\n".join(rows))

#!/usr/bin/env python3
"""Regenerates seeded/SUMMARY.md from seeded/<ID>-<x>/meta.json (`title`, `check_verdicts`, optional `note`)."""
import json, glob, os, re
root = os.path.join(os.path.dirname(os.path.abspath(__file__)), "..", "seeded")
rows = []
for d in sorted(glob.glob(os.path.join(root, "C[0-9][0-9]-[a-z]"))):
    if not os.path.exists(os.path.join(d, "meta.json")):
        continue
    m = json.load(open(os.path.join(d, "meta.json")))
    verd = " ".join(
        f"{p}=" + {"exit1": "VIOLATION", "exit0": "silent", "exit2": "inconclusive"}.get(r, r)
        for p, r in (x.split("=") for x in m.get("check_verdicts", "").split())
    )
    rows.append((os.path.basename(d), m.get("title", "").replace("|", "\\|"), verd, m.get("note", "").replace("|", "\\|")))
head = open(os.path.join(root, "SUMMARY.head.md")).read()
caught = sum(1 for r in rows if "VIOLATION" in r[2])
with open(os.path.join(root, "SUMMARY.md"), "w") as f:
    f.write(head.rstrip() + "\n\n")
    f.write(f"{len(rows)} changes; {caught} reported as VIOLATION by at least one quick check; {len(rows) - caught} not reported (see note).\n\n")
    f.write("| seed | what it breaks | quick check verdict | note |\n|---|---|---|---|\n")
    for r in rows:
        f.write(f"| {r[0]} | {r[1]} | {r[2]} | {r[3]} |\n")
print(len(rows), caught)

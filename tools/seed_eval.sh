#!/usr/bin/env bash
# usage: tools/seed_eval.sh <seed worktree dir> <a|b> <property id> [extra property ids to run as well]
# Confirms a seeded change independently (demo passes without / fails with the patch, repo tests still pass with it),
# stores it under /verif/seeded/<ID>-<x>/ and runs the property's quick check against the patched tree.
set -u
SRC="$1"; X="$2"; ID="$3"; shift 3
EXTRA="$*"
OUT=/verif/seeded/$ID-${AS:-$X}
S="$SRC/_seed/$X"
[ -f "$S/patch.diff" ] || { echo "no patch in $S"; exit 3; }
mkdir -p "$OUT"
cp "$S/patch.diff" "$OUT/patch.diff"
cp "$S/meta.json" "$OUT/meta.agent.json" 2>/dev/null
rm -f "$OUT/demo.rs"
# a script-style demonstration wins; otherwise the test file `demo.rs`
if [ ! -f "$S/demo.sh" ] && [ -f "$S/demo.rs" ]; then cp "$S/demo.rs" "$OUT/demo.rs"; fi
WT=/tmp/seedeval-$ID-${AS:-$X}
rm -rf "$WT"; git -C /repo worktree prune; git -C /repo worktree add -q "$WT" HEAD || exit 3
export CARGO_TARGET_DIR=${SEED_TGT:-/tmp/seedeval-target} CARGO_NET_OFFLINE=true
LOG="$OUT/confirm.log"; : > "$LOG"
demo_run() { ( cd "$WT" && cp "$OUT/demo.rs" tests/zz_seed_demo.rs && cargo test --offline --features full --test zz_seed_demo 2>&1 | grep -E "^test result|error(\[|:)|FAILED|panicked" | head -5 ); }
res_without="n/a"; res_with="n/a"
if [ ! -f "$OUT/demo.rs" ] && [ -f "$S/demo.sh" ]; then
  # script-style demonstration: exit 0 = passes; run from the worktree root with the seed's files next to it
  mkdir -p "$OUT/demo_files"; cp -r "$S"/* "$OUT/demo_files/" 2>/dev/null; rm -f "$OUT/demo_files/patch.diff" "$OUT/demo_files/meta.json"
  mkdir -p "$WT/_seed/$X"; cp -r "$S"/* "$WT/_seed/$X/"
  echo "== demo.sh without patch" >> "$LOG"; ( cd "$WT" && bash "_seed/$X/demo.sh" ) >> "$LOG" 2>&1 && res_without=pass || res_without=FAIL
  ( cd "$WT" && git checkout -q -- . 2>/dev/null )
fi
if [ -f "$OUT/demo.rs" ]; then
  # register the demo as a test target (Cargo.toml lists tests explicitly)
  printf '\n[[test]]\nname = "zz_seed_demo"\npath = "tests/zz_seed_demo.rs"\nrequired-features = ["full"]\n' >> "$WT/Cargo.toml"
  echo "== demo without patch" >> "$LOG"; demo_run >> "$LOG" 2>&1
  if grep -q "test result: ok" "$LOG"; then res_without=pass; else res_without=FAIL; fi
fi
( cd "$WT" && git apply "$OUT/patch.diff" ) || { echo "patch does not apply" | tee -a "$LOG"; git -C /repo worktree remove --force "$WT"; exit 3; }
if [ -f "$OUT/demo.rs" ]; then
  echo "== demo with patch" >> "$LOG"; demo_run > "$LOG.with" 2>&1; cat "$LOG.with" >> "$LOG"
  if grep -q "test result: ok" "$LOG.with" && ! grep -qE "FAILED|error" "$LOG.with"; then res_with=pass; else res_with=FAIL; fi
  rm -f "$LOG.with" "$WT/tests/zz_seed_demo.rs"
  ( cd "$WT" && git checkout -q Cargo.toml 2>/dev/null; git apply "$OUT/patch.diff" 2>/dev/null; true )
fi
if [ ! -f "$OUT/demo.rs" ] && [ -f "$S/demo.sh" ]; then
  echo "== demo.sh with patch" >> "$LOG"; ( cd "$WT" && bash "_seed/$X/demo.sh" ) >> "$LOG" 2>&1 && res_with=pass || res_with=FAIL
  ( cd "$WT" && git checkout -q -- . 2>/dev/null; git apply "$OUT/patch.diff" 2>/dev/null; rm -rf "_seed" )
fi
echo "== repo test suite with patch" >> "$LOG"
( cd "$WT" && rm -f tests/zz_seed_demo.rs && git checkout -q -- Cargo.toml 2>/dev/null; git apply --check "$OUT/patch.diff" 2>/dev/null && git apply "$OUT/patch.diff"; cargo test --workspace --no-fail-fast --offline 2>&1 | grep -E "^test result|^error: test failed|could not compile" ) > "$LOG.suite" 2>&1
cat "$LOG.suite" >> "$LOG"
fails=$(grep -c "^error: test failed" "$LOG.suite"); nocompile=$(grep -c "could not compile" "$LOG.suite")
only_cf=$(grep "^error: test failed" "$LOG.suite" | grep -vc "compile_fail")
suite="pass"; [ "$only_cf" != "0" ] && suite="FAIL"; [ "$nocompile" != "0" ] && suite="FAIL(build)"
rm -f "$LOG.suite"
echo "== checks against the patched tree" >> "$LOG"
verdicts=""
for P in $ID $EXTRA; do
  DM_REPO="$WT" DMV_EVIDENCE_DIR=/tmp/dmv-scratch-evidence-$(basename ${SEED_WORK:-work-seed}) DMV_WORK=${SEED_WORK:-/verif/.work-seed} /verif/check "$P" > "$OUT/check-$P.out" 2>&1; rc=$?
  grep -E "^VIOLATION|summary|^$P " "$OUT/check-$P.out" | head -6 >> "$LOG"
  verdicts="$verdicts $P=exit$rc"
  rm -rf /verif/replays/$P
done
git -C /repo worktree remove --force "$WT"
python3 - "$OUT" "$ID" "${AS:-$X}" "$res_without" "$res_with" "$suite" "$verdicts" <<'PY'
import json,sys,os
out,pid,x,rw,rwith,suite,verd=sys.argv[1:8]
agent={}
try: agent=json.load(open(os.path.join(out,'meta.agent.json')))
except Exception: pass
meta={"property":pid,"seed":x,"title":agent.get("title"),"what_it_breaks":agent.get("what_it_breaks"),"needs_to_manifest":agent.get("needs_to_manifest"),
 "confirmed":{"demo_without_patch":rw,"demo_with_patch":rwith,"repo_suite_with_patch":suite},
 "what_i_ran":["git worktree add (scratch) of /repo HEAD","cargo test --features full --test zz_seed_demo (demo copied to tests/) without and with patch.diff","cargo test --workspace --no-fail-fast --offline with patch.diff (compile_fail fails at baseline and is ignored)","DM_REPO=<scratch> ./check <ID> (quick tier)"],
 "check_verdicts":verd.strip()}
json.dump(meta,open(os.path.join(out,'meta.json'),'w'),indent=1)
print(pid,x,"demo without:",rw,"with:",rwith,"suite:",suite,"checks:",verd)
PY

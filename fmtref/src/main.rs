//! rustc's own format-string parser as a line-oriented service.
//! stdin: one literal per line, hex-encoded UTF-8 bytes (so any string incl. newlines fits a line).
//! stdout: one line per literal: `E` (std rejects: parse errors) or
//! `P` followed by `|`-separated placeholders, each
//!   `<pos>;<fill>;<align>;<sign>;<alt>;<zero>;<dhex>;<width>;<prec>;<ty>`
//!   pos   = i<N> (implicit, N = index assigned by rustc) | n<N> (explicit index) | a<hex name>
//!   fill  = - | <codepoint hex>;  align = - < ^ >;  sign = - + m;  alt,zero = 0/1; dhex = - x X
//!   width/prec = - | i<N> | p<N> ($ param index) | a<hex name> ($ name) | s<N> (`.*`, N = index)
//!   ty    = hex of the type string
#![feature(rustc_private)]
extern crate rustc_driver;
extern crate rustc_parse_format;

use rustc_parse_format::*;
use std::io::{BufRead, Write};

fn hex(s: &str) -> String {
    let mut o = String::new();
    for b in s.bytes() {
        o.push_str(&format!("{:02x}", b));
    }
    o
}

fn unhex(s: &str) -> Option<Vec<u8>> {
    if s.len() % 2 != 0 {
        return None;
    }
    (0..s.len() / 2).map(|i| u8::from_str_radix(&s[2 * i..2 * i + 2], 16).ok()).collect()
}

fn count(c: &Count<'_>) -> String {
    match c {
        Count::CountIs(n) => format!("i{n}"),
        Count::CountIsName(n, _) => format!("a{}", hex(n)),
        Count::CountIsParam(n) => format!("p{n}"),
        Count::CountIsStar(n) => format!("s{n}"),
        Count::CountImplied => "-".to_string(),
    }
}

fn main() {
    let stdin = std::io::stdin();
    let stdout = std::io::stdout();
    let mut out = std::io::BufWriter::new(stdout.lock());
    for line in stdin.lock().lines() {
        let line = line.unwrap();
        let line = line.trim();
        if line == "FLUSH" {
            writeln!(out, "FLUSHED").unwrap();
            out.flush().unwrap();
            continue;
        }
        let Some(bytes) = unhex(line) else {
            writeln!(out, "X").unwrap();
            continue;
        };
        let Ok(s) = String::from_utf8(bytes) else {
            writeln!(out, "X").unwrap();
            continue;
        };
        let mut parser = Parser::new(&s, None, None, false, ParseMode::Format);
        let mut parts: Vec<String> = Vec::new();
        while let Some(piece) = parser.next() {
            if let Piece::NextArgument(a) = piece {
                let pos = match a.position {
                    Position::ArgumentImplicitlyIs(n) => format!("i{n}"),
                    Position::ArgumentIs(n) => format!("n{n}"),
                    Position::ArgumentNamed(n) => format!("a{}", hex(n)),
                };
                let f = &a.format;
                let fill = match f.fill {
                    None => "-".to_string(),
                    Some(c) => format!("{:x}", c as u32),
                };
                let align = match f.align {
                    Alignment::AlignLeft => "<",
                    Alignment::AlignRight => ">",
                    Alignment::AlignCenter => "^",
                    Alignment::AlignUnknown => "-",
                };
                let sign = match f.sign {
                    None => "-",
                    Some(Sign::Plus) => "+",
                    Some(Sign::Minus) => "m",
                };
                let dhex = match f.debug_hex {
                    None => "-",
                    Some(DebugHex::Lower) => "x",
                    Some(DebugHex::Upper) => "X",
                };
                parts.push(format!(
                    "{pos};{fill};{align};{sign};{};{};{dhex};{};{};{}",
                    f.alternate as u8,
                    f.zero_pad as u8,
                    count(&f.width),
                    count(&f.precision),
                    hex(f.ty)
                ));
            }
        }
        if !parser.errors.is_empty() {
            writeln!(out, "E").unwrap();
        } else {
            writeln!(out, "P{}", parts.join("|")).unwrap();
        }
    }
    out.flush().unwrap();
}

//! `dmv` binary: see the library crate (`src/lib.rs`) for the module mounts.
fn main() {
    std::process::exit(dmv::v::cli::main());
}

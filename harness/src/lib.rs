//! `dmv` (library part) — verification harness for derive_more (property-based testing / fuzzing family).
//!
//! The implementation modules of the proc-macro crate (`derive_more-impl`) are mounted at the
//! crate root under the same names `impl/src/lib.rs` uses, straight from the mirror of the working
//! tree (`$DMV_WORK/mirror`, refreshed by `./check` with `rsync --checksum` before every build), so the
//! expanders can be called in-process. Everything of the harness itself lives under `crate::v`.
#![recursion_limit = "256"]

macro_rules! dm_mod {
    ($(#[$m:meta])* $vis:vis $name:ident, $path:literal) => {
        $(#[$m])*
        #[allow(warnings, clippy::all)]
        #[path = $path]
        $vis mod $name;
    };
}

dm_mod!(utils, "../../mirror/impl/src/utils.rs");
dm_mod!(add_assign_like, "../../mirror/impl/src/add_assign_like.rs");
dm_mod!(add_helpers, "../../mirror/impl/src/add_helpers.rs");
dm_mod!(add_like, "../../mirror/impl/src/add_like.rs");
dm_mod!(r#as, "../../mirror/impl/src/as/mod.rs");
dm_mod!(constructor, "../../mirror/impl/src/constructor.rs");
dm_mod!(deref, "../../mirror/impl/src/deref.rs");
dm_mod!(deref_mut, "../../mirror/impl/src/deref_mut.rs");
dm_mod!(error, "../../mirror/impl/src/error.rs");
dm_mod!(fmt, "../../mirror/impl/src/fmt/mod.rs");
dm_mod!(from, "../../mirror/impl/src/from.rs");
dm_mod!(from_str, "../../mirror/impl/src/from_str.rs");
dm_mod!(index, "../../mirror/impl/src/index.rs");
dm_mod!(index_mut, "../../mirror/impl/src/index_mut.rs");
dm_mod!(into, "../../mirror/impl/src/into.rs");
dm_mod!(into_iterator, "../../mirror/impl/src/into_iterator.rs");
dm_mod!(is_variant, "../../mirror/impl/src/is_variant.rs");
dm_mod!(mul_assign_like, "../../mirror/impl/src/mul_assign_like.rs");
dm_mod!(mul_helpers, "../../mirror/impl/src/mul_helpers.rs");
dm_mod!(mul_like, "../../mirror/impl/src/mul_like.rs");
dm_mod!(not_like, "../../mirror/impl/src/not_like.rs");
dm_mod!(pub(crate) parsing, "../../mirror/impl/src/parsing.rs");
dm_mod!(sum_like, "../../mirror/impl/src/sum_like.rs");
dm_mod!(try_from, "../../mirror/impl/src/try_from.rs");
dm_mod!(try_into, "../../mirror/impl/src/try_into.rs");
dm_mod!(try_unwrap, "../../mirror/impl/src/try_unwrap.rs");
dm_mod!(unwrap, "../../mirror/impl/src/unwrap.rs");
// Second inclusion of the literal parser so that its `pub(crate)` items are reachable by the harness
// (inside `fmt` the module is private).
dm_mod!(pub(crate) fmt_parsing, "../../mirror/impl/src/fmt/parsing.rs");

// the recorded behaviour of the argument splitter (defect model of the C16 known findings)
#[allow(warnings, clippy::all)]
#[path = "../support/frozen_parsing.rs"]
pub(crate) mod frozen_parsing;

pub mod v;

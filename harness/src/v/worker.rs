//! Child-process entry points (fresh-process determinism runs, crash isolation).
pub fn main(args: &[String]) -> i32 {
    let _ = args;
    2
}

//! Child-process entry points (fresh-process determinism runs, crash isolation).
pub fn main(args: &[String]) -> i32 {
    match args.first().map(|s| s.as_str()) {
        Some("c18") => super::p18::worker_main(&args[1..]),
        Some("c19") => super::p19::worker_main(&args[1..]),
        Some("c19-one") => super::p19::worker_one(&args[1..]),
        Some("c19-span") => super::p19::worker_span(&args[1..]),
        Some("c18-timing") => super::p18::timing_main(),
        _ => 2,
    }
}

//! C19 — expansion is a deterministic pure function of the derive input.
//!
//! (1) same process, repeated; (2) history independence (different orders of preceding expansions);
//! (3) fresh processes (std's RandomState is seeded per process); (4) thorough: the real proc-macro in
//! separate rustc processes (`-Zunpretty=expanded`).
use super::core::*;
use rayon::prelude::*;
use super::dm::{self, Derive, Outcome};
use super::progprop::Dice;
use proptest::strategy::ValueTree;
use serde_json::{json, Value};
use std::process::{Command, Stdio};

pub const RULE: &str = "derive inputs biased to expansions that iterate hashed collections (TryInto enums with 3..8 variants over 3..6 distinct field-type tuples and all reference kinds; FromStr enums with 3..10 variants incl. case-collision groups; Mul-like/MulAssign-like structs with 3..6 distinct field types; Error enums with several generic sources; AsRef/Into type lists; the same over generic / compound / referenced field types, named and unit variants, per-variant TryInto attributes, attributed / wrapped Error sources, raw and non-ASCII FromStr names) plus the general shape x derive generator, items carrying the attributes of their derive (documented forms, mutations, random bodies), fmt derives (all eight + Debug) whose attributes bound 2..4 distinct generic field types incl. explicit bound(..) attributes, From enums with explicit variants, and the documented attribute forms of every derive (blanket `forward` forms) repeated many times per batch; oracle: identical token text when expanded twice, at every place the same input occurs in one pass, in two different orders of preceding expansions, in K fresh processes (per-process hash seeds), and — for a sample of multi-field items, one child process per placement — at controlled source positions where the item's spans straddle 10^2..10^6 bytes of preceding source (position independence); thorough adds the real proc-macro in separate rustc processes. Non-trivial = the input has >= 3 keys in a collection the expander hashes; distinct by (derive, item)";

#[derive(Clone, Debug)]
pub struct Case {
    pub derive: String,
    pub item: String,
    pub hashed_keys: usize,
    /// input class (evidence label `class=..`, see `CLASS_FLOORS`)
    pub class: &'static str,
}

/// input classes a run must contain at least this often among the Ok expansions (fractions of the batch)
const CLASS_FLOORS: [(&str, f64); 10] = [
    ("attributed-item", 0.01),
    ("fmt-attribute-with-several-bounded-types", 0.04),
    ("from-enum-explicit-variants", 0.015),
    ("try_into-generic-or-per-variant-attrs", 0.04),
    ("error-attributed-or-wrapped-sources", 0.03),
    ("mul-like-named-or-compound-types", 0.03),
    ("from_str-raw-or-non-ascii-names", 0.02),
    ("try_into-plain", 0.02),
    ("mul-like-plain", 0.02),
    ("canonical-attribute-forms", 0.04),
];

const TYS: [&str; 8] = ["i32", "u8", "String", "bool", "f64", "char", "Vec<u8>", "T"];

/// richer field types for the hashed type sets (C19-2/3/4): references, generic containers, tuples, arrays
const RICH_TYS: [&str; 16] = ["i32", "T", "Vec<T>", "&'static str", "(i32, T)", "[u8; 2]", "Option<T>", "Box<T>", "&'static T", "String", "u8", "std::collections::BTreeMap<u8, T>",
    // distinct types that begin with the same identifier (anything keyed on a rendering of the type that embeds spans compares positions here)
    "Vec<u8>", "Vec<i64>", "Option<i64>", "Box<u8>"];

fn gen_case(d: &mut Dice) -> Case {
    match d.weighted(&[3, 2, 3, 2, 2, 2, 3, 3, 4, 2, 3, 2, 2, 1, 3]) {
        0 => {
            // TryInto: group by (ref kind, types)
            let nv = d.range(3, 8);
            let mut vs = vec![];
            let mut keys = std::collections::BTreeSet::new();
            for i in 0..nv {
                let nf = d.range(0, 3);
                let tys: Vec<&str> = (0..nf).map(|_| TYS[d.pick(7)]).collect();
                keys.insert(tys.join(","));
                vs.push(format!("V{i}({})", tys.join(", ")));
            }
            let attr = ["", "#[try_into(owned, ref, ref_mut)] ", "#[try_into(ref)] "][d.pick(3)];
            Case { derive: "TryInto".into(), item: format!("{attr}enum E {{ {} }}", vs.join(", ")), hashed_keys: keys.len(), class: "try_into-plain" }
        }
        1 => {
            let pool = ["Foo", "FOO", "foo", "Bar", "Baz", "bar", "Qux", "QuX", "Zed", "A", "a", "Bb"];
            let nv = d.range(3, 10);
            let mut names = vec![];
            for _ in 0..nv {
                let n = pool[d.pick(pool.len())];
                if !names.contains(&n) {
                    names.push(n);
                }
            }
            let keys: std::collections::BTreeSet<String> = names.iter().map(|n| n.to_lowercase()).collect();
            Case { derive: "FromStr".into(), item: format!("enum E {{ {} }}", names.join(", ")), hashed_keys: keys.len(), class: "from_str-plain" }
        }
        2 => {
            let der = ["Mul", "Div", "Rem", "Shr", "Shl", "MulAssign", "DivAssign", "RemAssign", "ShrAssign", "ShlAssign"][d.pick(10)];
            let nf = d.range(3, 6);
            let tys: Vec<&str> = (0..nf).map(|_| TYS[d.pick(8)]).collect();
            let keys: std::collections::BTreeSet<&str> = tys.iter().copied().collect();
            let generic = if tys.contains(&"T") { "<T>" } else { "" };
            Case { derive: der.into(), item: format!("struct S{generic}({});", tys.join(", ")), hashed_keys: keys.len(), class: "mul-like-plain" }
        }
        3 => {
            let nv = d.range(2, 5);
            let gens = ["A", "B", "C", "D", "E2"];
            let vs: Vec<String> = (0..nv).map(|i| format!("V{i} {{ source: {} }}", gens[i])).collect();
            Case {
                derive: "Error".into(),
                item: format!("enum E<{}> {{ {} }}", gens[..nv].join(", "), vs.join(", ")),
                hashed_keys: nv,
                class: "error-plain",
            }
        }
        4 => {
            let der = ["Add", "Sub", "BitAnd", "Not", "Neg", "Sum", "Product", "AddAssign"][d.pick(8)];
            let nf = d.range(2, 5);
            let tys: Vec<&str> = (0..nf).map(|_| TYS[d.pick(8)]).collect();
            let generic = if tys.contains(&"T") { "<T>" } else { "" };
            Case { derive: der.into(), item: format!("struct S{generic}({});", tys.join(", ")), hashed_keys: 0, class: "add-like" }
        }
        5 => {
            let n = d.range(2, 5);
            let tys: Vec<&str> = (0..n).map(|i| TYS[(i + d.pick(3)) % 7]).collect();
            let (der, attr) = [("From", "from"), ("Into", "into"), ("AsRef", "as_ref")][d.pick(3)];
            Case { derive: der.into(), item: format!("#[{attr}({})] struct S(i32);", tys.join(", ")), hashed_keys: 0, class: "type-list" }
        }
        6 => {
            // general shape x derive
            let der = Derive(d.pick(dm::DERIVES.len()));
            let item = super::p18::gen_plain_item(d);
            Case { derive: der.name().into(), item, hashed_keys: 0, class: "plain-item" }
        }
        7 => {
            // C19-1: items that carry attributes of the derive (documented forms, mutations, random bodies) on
            // container / variant / field positions: every attribute-driven expansion path
            let c = super::p18::gen_attributed_case(d);
            Case { derive: c.derive, item: c.item, hashed_keys: 0, class: "attributed-item" }
        }
        8 => gen_fmt_case(d),
        9 => {
            // C19-1: From on enums with explicit `#[from]` / `#[from(types)]` / `#[from(forward)]` / skipped variants
            let nv = d.range(2, 6);
            let tys = ["i32", "u8", "String", "bool", "f64", "char", "i64", "u16"];
            let off = d.pick(tys.len());
            let vs: Vec<String> = (0..nv)
                .map(|i| {
                    let t = tys[(off + i) % tys.len()];
                    let a = match d.pick(6) {
                        0 | 1 => "#[from] ".to_string(),
                        2 => format!("#[from({t}, ({t},))] "),
                        3 => "#[from(skip)] ".to_string(),
                        4 => String::new(),
                        _ => "#[from(forward)] ".to_string(),
                    };
                    if d.chance(30) {
                        format!("{a}V{i} {{ x: {t} }}")
                    } else {
                        format!("{a}V{i}({t})")
                    }
                })
                .collect();
            Case { derive: "From".into(), item: format!("enum E {{ {} }}", vs.join(", ")), hashed_keys: 0, class: "from-enum-explicit-variants" }
        }
        10 => {
            // C19-2: TryInto over generic / compound field types, named and unit variants, per-variant attributes
            let nv = d.range(3, 8);
            let mut vs = vec![];
            let mut keys = std::collections::BTreeSet::new();
            let mut uses_t = false;
            for i in 0..nv {
                let nf = d.range(0, 3);
                let tys: Vec<&str> = (0..nf).map(|_| RICH_TYS[d.pick(RICH_TYS.len())]).collect();
                uses_t |= tys.iter().any(|t| t.contains('T'));
                let a = match d.pick(8) {
                    0 => "#[try_into(ignore)] ",
                    1 => "#[try_into(ref)] ",
                    2 => "#[try_into(owned, ref_mut)] ",
                    3 => "#[try_into] ",
                    4 => "#[try_into(ref, ref_mut, owned)] ",
                    _ => "",
                };
                keys.insert(format!("{a}{}", tys.join(",")));
                vs.push(match d.pick(4) {
                    0 if nf > 0 => format!("{a}V{i} {{ {} }}", tys.iter().enumerate().map(|(k, t)| format!("f{k}: {t}")).collect::<Vec<_>>().join(", ")),
                    1 if nf == 0 => format!("{a}V{i}"),
                    _ => format!("{a}V{i}({})", tys.join(", ")),
                });
            }
            let attr = ["", "#[try_into(owned, ref, ref_mut)] ", "#[try_into(ref)] ", "#[try_into(ref_mut, owned)] "][d.pick(4)];
            // (the parameter is declared whether it is used or not: expansion does not depend on rustc's checks)
            let generics = if uses_t || d.chance(30) { "<T>" } else { "" };
            Case { derive: "TryInto".into(), item: format!("{attr}enum E{generics} {{ {} }}", vs.join(", ")), hashed_keys: keys.len(), class: "try_into-generic-or-per-variant-attrs" }
        }
        11 => {
            // C19-3: Error over tuple variants / structs with explicit selectors, wrapped and referenced generic sources,
            // backtrace fields
            let nv = d.range(2, 5);
            let gens = ["A", "B", "C", "D", "E2"];
            let wrap = |d: &mut Dice, g: &str| -> String {
                match d.pick(6) {
                    0 => format!("Box<{g}>"),
                    1 => format!("&'static {g}"),
                    2 => format!("Vec<{g}>"),
                    3 => format!("<{g} as Tr>::Out"),
                    _ => g.to_string(),
                }
            };
            let vs: Vec<String> = (0..nv)
                .map(|i| {
                    let g = wrap(d, gens[i]);
                    match d.pick(6) {
                        0 => format!("V{i}(#[error(source)] {g}, i32)"),
                        1 => format!("V{i}({g})"),
                        2 => format!("V{i}({g}, std::backtrace::Backtrace)"),
                        3 => format!("V{i} {{ #[error(source)] inner: {g}, #[error(not(source))] source: i32 }}"),
                        4 => format!("#[error(ignore)] V{i}({g})"),
                        _ => format!("V{i} {{ source: {g}, backtrace: Backtrace }}"),
                    }
                })
                .collect();
            let generics = gens[..nv].join(", ");
            let item = if d.chance(20) {
                // one struct: a single bound, but the same attribute paths
                format!("struct S<{generics}>(#[error(source)] {}, {});", wrap(d, gens[0]), gens[1..nv].iter().map(|g| format!("core::marker::PhantomData<{g}>")).collect::<Vec<_>>().join(", "))
            } else {
                format!("enum E<{generics}> {{ {} }}", vs.join(", "))
            };
            Case { derive: "Error".into(), item, hashed_keys: nv, class: "error-attributed-or-wrapped-sources" }
        }
        12 => {
            // C19-4: Mul-like over named structs and compound field types
            let der = ["Mul", "Div", "Rem", "Shr", "Shl", "MulAssign", "DivAssign", "RemAssign", "ShrAssign", "ShlAssign"][d.pick(10)];
            let nf = d.range(3, 6);
            let tys: Vec<&str> = (0..nf).map(|_| RICH_TYS[d.pick(RICH_TYS.len())]).collect();
            let keys: std::collections::BTreeSet<&str> = tys.iter().copied().collect();
            let generic = if tys.iter().any(|t| t.contains('T')) { "<T>" } else { "" };
            let item = if d.chance(60) {
                format!("struct S{generic} {{ {} }}", tys.iter().enumerate().map(|(k, t)| format!("f{k}: {t}")).collect::<Vec<_>>().join(", "))
            } else {
                format!("struct S{generic}({});", tys.join(", "))
            };
            Case { derive: der.into(), item, hashed_keys: keys.len(), class: "mul-like-named-or-compound-types" }
        }
        14 => {
            // history: documented attribute forms of every attribute-taking derive, each occurring many times in a batch
            // under few names (so the same item is expanded after many different prefixes), in particular the blanket
            // `forward` forms whose expansions introduce type parameters of their own (`__AsT`, `__FromT0`, `__RhsT`, ..)
            let (derive, item) = CANONICAL[d.pick(CANONICAL.len())];
            let name = ["S", "Wrapper", "Foo"][d.pick(3)];
            Case { derive: derive.into(), item: item.replace("@N", name), hashed_keys: 0, class: "canonical-attribute-forms" }
        }
        _ => {
            // C19-5: FromStr over raw identifiers and names whose lowercase form is not ASCII (or changes length)
            let pool = ["r#type", "r#Type", "TYPE", "r#match", "Match", "Ünï", "ünï", "ÜNÏ", "İx", "ix", "Straße", "STRASSE", "Ωmega", "ωmega", "Foo", "foo", "Σ", "σ", "ς"];
            let nv = d.range(3, 10);
            let mut names: Vec<&str> = vec![];
            for _ in 0..nv {
                let n = pool[d.pick(pool.len())];
                if !names.contains(&n) {
                    names.push(n);
                }
            }
            let keys: std::collections::BTreeSet<String> = names.iter().map(|n| n.trim_start_matches("r#").to_lowercase()).collect();
            Case { derive: "FromStr".into(), item: format!("enum E {{ {} }}", names.join(", ")), hashed_keys: keys.len(), class: "from_str-raw-or-non-ascii-names" }
        }
    }
}

/// documented attribute forms (impl/doc/*.md), `@N` = the type name
const CANONICAL: [(&str, &str); 44] = [
    ("AsRef", "#[as_ref(forward)] struct @N(Vec<i32>);"),
    ("AsRef", "struct @N { #[as_ref(forward)] a: String, b: u8 }"),
    ("AsRef", "#[as_ref(forward)] struct @N<T>(Vec<T>);"),
    ("AsRef", "#[as_ref(str, [u8], String)] struct @N(String);"),
    ("AsRef", "struct @N { #[as_ref] a: String, #[as_ref(skip)] b: u8, c: i32 }"),
    ("AsMut", "#[as_mut(forward)] struct @N(Vec<i32>);"),
    ("AsMut", "struct @N { #[as_mut(forward)] a: String, b: u8 }"),
    ("AsMut", "#[as_mut(forward)] struct @N<T>(Vec<T>);"),
    ("AsMut", "#[as_mut(str, String)] struct @N(String);"),
    ("From", "#[from(forward)] struct @N(i64);"),
    ("From", "#[from(forward)] struct @N { a: i64, b: String }"),
    ("From", "enum @N { #[from(forward)] A(i64), #[from(skip)] B(i64) }"),
    ("From", "#[from(i8, i16)] struct @N(i32);"),
    ("Into", "#[into(owned, ref(i32), ref_mut)] struct @N(i32);"),
    ("Into", "#[into(i64, i128)] struct @N(i32);"),
    ("Into", "struct @N { #[into] a: i32, #[into(skip)] b: u8 }"),
    ("Into", "#[into(ref((i32, u8)))] struct @N<T>(i32, u8, #[into(skip)] T);"),
    ("Deref", "#[deref(forward)] struct @N(Box<i32>);"),
    ("Deref", "struct @N { #[deref(forward)] a: Box<i32>, b: u8 }"),
    ("Deref", "struct @N<T> { #[deref] a: Vec<T>, b: u8 }"),
    ("DerefMut", "#[deref_mut(forward)] struct @N(Box<i32>);"),
    ("DerefMut", "struct @N { #[deref_mut] a: Vec<i32>, b: u8 }"),
    ("Index", "struct @N { #[index] a: Vec<i32>, b: u8 }"),
    ("IndexMut", "struct @N<T> { #[index_mut] a: Vec<T>, b: u8 }"),
    ("IntoIterator", "#[into_iterator(owned, ref, ref_mut)] struct @N(Vec<i32>);"),
    ("IntoIterator", "struct @N<T> { #[into_iterator(ref)] a: Vec<T>, b: u8 }"),
    ("Mul", "#[mul(forward)] struct @N(i32);"),
    ("Mul", "struct @N<T>(T, i32);"),
    ("Mul", "#[mul(forward)] enum @N { A(i32), B(i32) }"),
    ("MulAssign", "#[mul_assign(forward)] struct @N(i32);"),
    ("MulAssign", "struct @N<T>(T, T);"),
    ("Constructor", "struct @N<T> { a: T, b: i32 }"),
    ("IsVariant", "enum @N<T> { A(T), #[is_variant(ignore)] B, FooBar { x: i32 } }"),
    ("Unwrap", "#[unwrap(ref, ref_mut)] enum @N<T> { A(T), #[unwrap(ignore)] B, C(i32, u8) }"),
    ("TryUnwrap", "#[try_unwrap(ref)] enum @N<T> { A(T), B, C(i32, u8) }"),
    ("TryInto", "#[try_into(owned, ref, ref_mut)] enum @N { A(i32), B(u8), #[try_into(ignore)] C(i32) }"),
    ("TryFrom", "#[try_from(repr)] #[repr(u8)] enum @N { A, B = 5, C(i32), D {} }"),
    ("Error", "struct @N<E> { #[error(source)] inner: E, #[error(not(source))] source: i32 }"),
    ("Error", "enum @N<E> { A(E), #[error(ignore)] B(E), C { source: E, backtrace: Backtrace } }"),
    ("Display", "#[display(\"{a} {b:?}\")] struct @N<A, B> { a: A, b: B }"),
    ("Display", "#[display(\"<{_variant}>\")] #[display(rename_all = \"snake_case\")] enum @N<T> { FooBar, #[display(\"{_0}\")] Baz(T) }"),
    ("Debug", "#[debug(bound(T: Clone))] struct @N<T, U> { #[debug(\"{a:x}\")] a: T, #[debug(skip)] b: U, c: U }"),
    ("FromStr", "enum @N { Foo, FOO, Bar }"),
    ("Sum", "struct @N<T>(T, i32);"),
];

/// C19-1: fmt derives whose attributes make several generic field types bounded, on structs, variants, fields and
/// with explicit `bound(..)` / `rename_all` attributes (the where-clause and the match arms are assembled from them)
fn gen_fmt_case(d: &mut Dice) -> Case {
    let gens = ["A", "B", "C", "D"];
    let ng = d.range(2, 4);
    let wrap = |d: &mut Dice, g: &str| -> String {
        match d.pick(7) {
            0 => format!("Vec<{g}>"),
            1 => format!("&'static {g}"),
            2 => format!("Option<{g}>"),
            // projections: the bound search has an early exit of its own for `<T as Trait>::Assoc`
            5 => format!("<{g} as Tr>::Out"),
            6 => format!("{g}::Out"),
            _ => g.to_string(),
        }
    };
    let specs = ["", ":?", ":x", ":>8", ":#?", ":e", ":p", ":o"];
    let generics = gens[..ng].join(", ");
    let bound = |d: &mut Dice| -> String {
        let n = d.range(1, 3);
        let ps: Vec<String> = (0..n).map(|_| format!("{}: {}", gens[d.pick(ng)], ["Clone", "Copy", "core::fmt::Debug", "Send"][d.pick(4)])).collect();
        format!("({}({}))", ["bound", "bounds"][d.pick(2)], ps.join(", "))
    };
    let (derive, attr) = [
        ("Display", "display"),
        ("Debug", "debug"),
        ("LowerHex", "lower_hex"),
        ("Pointer", "pointer"),
        ("Binary", "binary"),
        ("Octal", "octal"),
        ("UpperHex", "upper_hex"),
        ("LowerExp", "lower_exp"),
        ("UpperExp", "upper_exp"),
    ][d.weighted(&[5, 5, 1, 1, 1, 1, 1, 1, 1])];
    let item = match d.pick(4) {
        0 => {
            // struct-level literal over named fields, in a dice-chosen order, some fields via arguments
            let tys: Vec<String> = (0..ng).map(|i| wrap(d, gens[i])).collect();
            let mut lit = String::new();
            let mut args = vec![];
            let off = d.pick(ng);
            for k in 0..ng {
                let i = (off + k) % ng;
                let sp = specs[d.pick(specs.len())];
                if d.chance(30) {
                    lit.push_str(&format!("{{{sp}}} "));
                    args.push(format!("f{i}"));
                } else {
                    lit.push_str(&format!("{{f{i}{sp}}} "));
                }
            }
            let b = if d.chance(40) { format!("#[{attr}{}] ", bound(d)) } else { String::new() };
            let b2 = if d.chance(20) { format!("#[{attr}{}] ", bound(d)) } else { String::new() };
            let a = format!("#[{attr}({}{})] ", proc_macro2::Literal::string(lit.trim_end()), args.iter().map(|a| format!(", {a}")).collect::<String>());
            let fields = tys.iter().enumerate().map(|(i, t)| format!("f{i}: {t}")).collect::<Vec<_>>().join(", ");
            format!("{b}{a}{b2}struct S<{generics}> {{ {fields} }}")
        }
        1 => {
            // tuple struct, positional names
            let tys: Vec<String> = (0..ng).map(|i| wrap(d, gens[i])).collect();
            let lit: String = (0..ng).rev().map(|i| format!("{{_{i}{}}}", specs[d.pick(specs.len())])).collect::<Vec<_>>().join("-");
            format!("#[{attr}({})] struct S<{generics}>({});", proc_macro2::Literal::string(&lit), tys.join(", "))
        }
        2 => {
            // enum: a format per variant (+ a shared one / rename_all for Display), unit variants
            let mut vs = vec![];
            for i in 0..ng {
                let t = wrap(d, gens[i]);
                let sp = specs[d.pick(specs.len())];
                vs.push(match d.pick(4) {
                    0 => format!("#[{attr}(\"v{i} {{_0{sp}}}\")] V{i}({t})"),
                    1 => format!("#[{attr}(\"{{x{sp}}} {{}}\", 1 + 1)] V{i} {{ x: {t} }}"),
                    2 if derive == "Display" || derive == "Debug" => format!("V{i}({t})"),
                    _ => format!("#[{attr}(\"{{}}\", _0)] V{i}({t})"),
                });
            }
            if derive == "Display" || derive == "Debug" {
                vs.push("UnitOne".into());
                vs.push("r#Two".into());
            }
            let top = if derive == "Display" {
                match d.pick(4) {
                    0 => "#[display(\"<{_variant}>\")] ".to_string(),
                    1 => format!("#[display(rename_all = \"{}\")] ", ["snake_case", "SCREAMING-KEBAB-CASE", "camelCase"][d.pick(3)]),
                    2 => format!("#[display{}] ", bound(d)),
                    _ => String::new(),
                }
            } else if d.chance(40) {
                format!("#[{attr}{}] ", bound(d))
            } else {
                String::new()
            };
            format!("{top}enum E<{generics}> {{ {} }}", vs.join(", "))
        }
        _ => {
            // Debug: field-level formats and skips (for the other derives: struct-level literal with arguments only)
            let tys: Vec<String> = (0..ng).map(|i| wrap(d, gens[i])).collect();
            if derive == "Debug" {
                let fields: Vec<String> = tys
                    .iter()
                    .enumerate()
                    .map(|(i, t)| {
                        let a = match d.pick(4) {
                            0 => format!("#[debug(\"{{f{i}{}}}\")] ", specs[d.pick(specs.len())]),
                            1 => format!("#[debug(\"{{}}\", f{})] ", (i + 1) % ng),
                            2 => "#[debug(skip)] ".to_string(),
                            _ => String::new(),
                        };
                        format!("{a}f{i}: {t}")
                    })
                    .collect();
                format!("struct S<{generics}> {{ {} }}", fields.join(", "))
            } else {
                let args: Vec<String> = (0..ng).map(|i| format!("f{i}")).collect();
                let lit: String = (0..ng).map(|_| format!("{{{}}}", specs[d.pick(specs.len())])).collect::<Vec<_>>().join(" ");
                let fields = tys.iter().enumerate().map(|(i, t)| format!("f{i}: {t}")).collect::<Vec<_>>().join(", ");
                format!("#[{attr}({}, {})] struct S<{generics}> {{ {fields} }}", proc_macro2::Literal::string(&lit), args.join(", "))
            }
        }
    };
    Case { derive: derive.into(), item, hashed_keys: 0, class: "fmt-attribute-with-several-bounded-types" }
}

pub fn gen_batch(seed: u64, tier: Tier) -> Vec<Case> {
    let n = tier.pick(10_000usize, 60_000);
    let mut runner = runner_for(seed, "C19", 0);
    let dice = proptest::collection::vec(proptest::num::u16::ANY, 96..=96);
    let mut v: Vec<Case> = draw(&mut runner, &dice, n).into_iter().map(|t| gen_case(&mut Dice::new(t.current()))).collect();
    // fixed regression seeds
    for (d, i) in [
        ("TryInto", "#[try_into(owned, ref, ref_mut)] enum E { A(i32), B(u8), C(String), D(i32, u8), F(u8, i32), G }"),
        ("FromStr", "enum E { Foo, FOO, foo, Bar, Baz, bar, Qux }"),
        ("Mul", "struct S(i32, u8, String, bool, f64, char);"),
        ("Error", "enum E<A, B, C, D> { V0 { source: A }, V1 { source: B }, V2 { source: C }, V3 { source: D } }"),
    ] {
        v.push(Case { derive: d.into(), item: i.into(), hashed_keys: 4, class: "regression-seed" });
    }
    v
}

fn expand_text(c: &Case) -> String {
    let Some(d) = Derive::by_name(&c.derive) else { return "<unknown derive>".into() };
    let Ok(item) = syn::parse_str::<syn::DeriveInput>(&c.item) else { return "<unparsable>".into() };
    match dm::expand(d, &item) {
        Outcome::Ok(ts) => ts.to_string(),
        Outcome::Err(e) => format!("<err: {e}>"),
        Outcome::Panic(p) => format!("<panic: {}>", p.msg),
    }
}

pub fn worker_main(args: &[String]) -> i32 {
    use std::io::Write;
    let seed: u64 = args.first().and_then(|s| s.parse().ok()).unwrap_or(0);
    let tier = if args.get(1).map(|s| s.as_str()) == Some("thorough") { Tier::Thorough } else { Tier::Quick };
    // optional: reversed order (history independence across processes as well)
    let reversed = args.get(2).map(|s| s == "rev").unwrap_or(false);
    let batch = gen_batch(seed, tier);
    let mut idx: Vec<usize> = (0..batch.len()).collect();
    if reversed {
        idx.reverse();
    }
    let mut hashes = vec![0u64; batch.len()];
    for i in idx {
        hashes[i] = fnv(&expand_text(&batch[i]));
    }
    let stdout = std::io::stdout();
    let mut w = stdout.lock();
    for h in hashes {
        let _ = writeln!(w, "{h:016x}");
    }
    0
}

pub fn run(ctx: &Ctx) -> Report {
    let mut rep = Report::new(RULE);
    rep.evidence.assumptions = vec!["in-process expansion equals what the proc-macro does (same expand functions); the thorough tier additionally drives the real proc-macro".into()];
    let batch = gen_batch(ctx.seed, ctx.tier);
    // (1) + (2) in this process
    let first: Vec<String> = batch.iter().map(expand_text).collect();
    let mut ok = 0u64;
    for (i, c) in batch.iter().enumerate() {
        rep.evidence.eval(1);
        let t = &first[i];
        if t.starts_with('<') {
            rep.evidence.label("not_ok_expansion");
        } else {
            ok += 1;
            rep.evidence.label(&format!("derive_class={}", class_of(&c.derive)));
            rep.evidence.label(&format!("class={}", c.class));
            if c.hashed_keys >= 3 {
                rep.evidence.nontrivial(&format!("{}|{}", c.derive, c.item));
            }
        }
        if i % (batch.len() / 8).max(1) == 0 {
            rep.evidence.sample(json!({"derive": c.derive, "item": c.item}));
        }
    }
    let _ = ok;
    for (cl, frac) in CLASS_FLOORS {
        let n = rep.evidence.labels.get(&format!("class={cl}")).copied().unwrap_or(0);
        let min = (frac * batch.len() as f64) as u64;
        if n < min {
            rep.infra_errors.push(format!("generator distribution: input class `{cl}` has {n} Ok expansions, floor {min}"));
        }
    }
    let mut report = |i: usize, what: &str, a: &str, b: &str, rep: &mut Report| {
        let c = &batch[i];
        rep.violations.push(Violation {
            sig: None,
            summary: format!("{what}: derive {} on `{}`", c.derive, c.item),
            case: json!({"derive": c.derive, "item": c.item}),
            expected: a.chars().take(1500).collect(),
            observed: b.chars().take(1500).collect(),
        });
    };
    // the same input at different places of one pass (= after different prefixes of other expansions)
    {
        let mut first_at: std::collections::HashMap<(&str, &str), usize> = std::collections::HashMap::new();
        let mut dup_inputs = 0u64;
        for (i, c) in batch.iter().enumerate() {
            match first_at.get(&(c.derive.as_str(), c.item.as_str())) {
                None => {
                    first_at.insert((c.derive.as_str(), c.item.as_str()), i);
                }
                Some(&j) => {
                    dup_inputs += 1;
                    if first[i] != first[j] {
                        report(i, "the same input expands differently at two places of one pass (expansion depends on what was expanded before)", &first[j], &first[i], &mut rep);
                    }
                }
            }
        }
        rep.evidence.set("repeated_inputs_in_one_pass", json!(dup_inputs));
    }
    // twice
    for (i, c) in batch.iter().enumerate() {
        let again = expand_text(c);
        if again != first[i] {
            report(i, "two expansions in the same process differ", &first[i], &again, &mut rep);
        }
    }
    // seeded permutation
    let mut runner = ctx.runner(1);
    let perm_keys: Vec<u16> = draw(&mut runner, &proptest::num::u16::ANY, batch.len()).into_iter().map(|t| t.current()).collect();
    let mut order: Vec<usize> = (0..batch.len()).collect();
    order.sort_by_key(|i| (perm_keys[*i], *i));
    let mut second = vec![String::new(); batch.len()];
    for &i in &order {
        second[i] = expand_text(&batch[i]);
    }
    for i in 0..batch.len() {
        if second[i] != first[i] {
            report(i, "expansion depends on what was expanded before", &first[i], &second[i], &mut rep);
        }
    }
    // (3) fresh processes
    let k = ctx.tier.pick(8usize, 48);
    let exe = std::env::current_exe().unwrap();
    let mine: Vec<String> = first.iter().map(|t| format!("{:016x}", fnv(t))).collect();
    let children: Vec<_> = (0..k)
        .map(|j| {
            Command::new(&exe)
                .args(["worker", "c19", &ctx.seed.to_string(), ctx.tier.name(), if j % 2 == 1 { "rev" } else { "fwd" }])
                .stdout(Stdio::piped())
                .stderr(Stdio::null())
                .spawn()
        })
        .collect();
    let mut fresh_ok = 0;
    for (j, ch) in children.into_iter().enumerate() {
        let out = match ch.and_then(|c| c.wait_with_output()) {
            Ok(o) => o,
            Err(e) => {
                rep.infra_errors.push(format!("fresh process {j}: {e}"));
                continue;
            }
        };
        let text = String::from_utf8_lossy(&out.stdout);
        let theirs: Vec<&str> = text.lines().collect();
        if theirs.len() != mine.len() {
            rep.infra_errors.push(format!("fresh process {j} returned {} hashes for {} inputs ({:?})", theirs.len(), mine.len(), out.status));
            continue;
        }
        fresh_ok += 1;
        let mut n = 0;
        for i in 0..mine.len() {
            if theirs[i] != mine[i] {
                n += 1;
                if n <= 3 {
                    report(i, &format!("fresh process #{j} produced a different expansion"), &first[i], &format!("<hash {} != {}>", theirs[i], mine[i]), &mut rep);
                }
            }
        }
    }
    rep.evidence.set("fresh_processes_compared", json!(fresh_ok));
    rep.evidence.add("evaluations_across_processes", (fresh_ok * batch.len()) as u64);
    // (3b) position independence: a sample of multi-field items, each in a child process of its own, expanded where its
    // spans straddle 10^2 .. 10^6 bytes of preceding source
    {
        let want = ctx.tier.pick(80usize, 600);
        let mut picked: Vec<usize> = (0..batch.len())
            .filter(|i| !first[*i].starts_with('<') && batch[*i].item.matches(',').count() >= 1)
            .filter(|i| matches!(class_of(&batch[*i].derive), "MulLike" | "Error" | "TryInto") || batch[*i].class.starts_with("fmt-attribute") || i % 7 == 0)
            .collect();
        let step = (picked.len() / want.max(1)).max(1);
        picked = picked.into_iter().step_by(step).take(want).collect();
        let exe = std::env::current_exe().unwrap();
        let jobs: Vec<(usize, usize)> = picked.iter().flat_map(|i| (1..=5usize).map(move |n| (*i, n))).collect();
        let results: Vec<(usize, Option<Vec<String>>)> = jobs
            .par_iter()
            .map(|(i, n)| {
                let o = Command::new(&exe).args(["worker", "c19-span", &batch[*i].derive, &batch[*i].item, &n.to_string(), "6"]).output().ok();
                (*i, o.filter(|o| o.status.success()).map(|o| String::from_utf8_lossy(&o.stdout).split_whitespace().map(|s| s.to_string()).collect()))
            })
            .collect();
        let mut compared = 0u64;
        let mut n = 0;
        for (i, hs) in results {
            let Some(hs) = hs else { continue };
            compared += hs.len() as u64;
            rep.evidence.label("span_position_case");
            if hs.iter().any(|h| *h != hs[0]) {
                n += 1;
                if n <= 3 {
                    report(i, "the expansion depends on the byte position of the item in the source (same item, same process, different amounts of preceding source)", &first[i], &format!("<hashes {hs:?}>"), &mut rep);
                }
            }
        }
        rep.evidence.set("expansions_at_controlled_source_positions", json!(compared));
    }
    // (4) thorough: real proc-macro, separate rustc processes
    if ctx.tier == Tier::Thorough {
        match real_compiler_runs(ctx, &batch, &first) {
            Ok((n, differing)) => {
                rep.evidence.set("unpretty_expanded_runs_compared", json!(n));
                for (i, a, b) in differing.into_iter().take(3) {
                    report(i, "the real proc-macro expands differently in two rustc processes (-Zunpretty=expanded)", &a, &b, &mut rep);
                }
            }
            Err(e) => rep.infra_errors.push(format!("-Zunpretty=expanded stage: {e}")),
        }
    }
    // de-duplicate by derive
    let mut seen = std::collections::HashSet::new();
    rep.violations.retain(|v| seen.insert(format!("{}|{}", v.summary.split(':').next().unwrap_or(""), v.case["derive"])));
    rep
}

fn class_of(d: &str) -> &'static str {
    match d {
        "TryInto" => "TryInto",
        "FromStr" => "FromStr",
        "Error" => "Error",
        "Mul" | "Div" | "Rem" | "Shr" | "Shl" | "MulAssign" | "DivAssign" | "RemAssign" | "ShrAssign" | "ShlAssign" => "MulLike",
        _ => "other",
    }
}

/// Puts the hashed-collection cases whose in-process expansion is Ok into a crate and expands it 4 times with the
/// real proc-macro dylib (`cargo +nightly rustc -- -Zunpretty=expanded`), touching the source in between.
fn real_compiler_runs(ctx: &Ctx, batch: &[Case], first: &[String]) -> Result<(usize, Vec<(usize, String, String)>), String> {
    let dir = ctx.work_dir.join("gen").join("gen_c19");
    std::fs::create_dir_all(dir.join("src")).map_err(|e| e.to_string())?;
    let toml = format!(
        "[package]\nname = \"gen_c19\"\nversion = \"0.0.0\"\nedition = \"2021\"\n\n[workspace]\n\n[dependencies]\nderive_more = {{ path = \"{}\", features = [\"full\"] }}\n",
        ctx.mirror.display()
    );
    std::fs::write(dir.join("Cargo.toml"), toml).map_err(|e| e.to_string())?;
    let _ = std::fs::copy(ctx.mirror.join("Cargo.lock"), dir.join("Cargo.lock"));
    let mut src = String::from("#![allow(warnings)]\n");
    let mut n = 0;
    let mut n_other = 0;
    for (i, c) in batch.iter().enumerate() {
        // only derives that need no user-provided trait impls to *expand* (expansion happens before type-check; errors later do not matter for -Zunpretty=expanded)
        // 300 cases with hashed collections at work, plus 250 of the attribute-carrying classes (several where-predicates,
        // canonical attribute forms, explicit From variants)
        let hashed = c.hashed_keys >= 3;
        let other = matches!(c.class, "fmt-attribute-with-several-bounded-types" | "canonical-attribute-forms" | "from-enum-explicit-variants" | "attributed-item");
        if first[i].starts_with('<') || !(hashed && n < 300 || !hashed && other && n_other < 250) {
            continue;
        }
        if hashed {
            n += 1;
        } else {
            n_other += 1;
        }
        src.push_str(&format!("mod c{i} {{ #[derive(derive_more::{})] {} }}\n", c.derive, c.item));
    }
    std::fs::write(dir.join("src/lib.rs"), &src).map_err(|e| e.to_string())?;
    let mut outs: Vec<String> = vec![];
    for round in 0..4 {
        // touch
        std::fs::write(dir.join("src/lib.rs"), format!("{src}// round {round}\n")).map_err(|e| e.to_string())?;
        let out = Command::new("cargo")
            .args(["+nightly", "rustc", "--offline", "--lib", "--", "-Zunpretty=expanded"])
            .current_dir(&dir)
            .env("CARGO_NET_OFFLINE", "true")
            .env("CARGO_TARGET_DIR", ctx.work_dir.join("tgt-gen-nightly"))
            .output()
            .map_err(|e| e.to_string())?;
        let text = String::from_utf8_lossy(&out.stdout).to_string();
        if text.len() < 1000 {
            return Err(format!("unexpected output of -Zunpretty=expanded: {}", String::from_utf8_lossy(&out.stderr).chars().take(800).collect::<String>()));
        }
        // drop the touch marker line
        // (the pretty-printer may attach the trailing comment to the last item, indented)
        outs.push(text.lines().filter(|l| !l.trim_start().starts_with("// round")).collect::<Vec<_>>().join("\n"));
    }
    // per case module `mod c<i> { .. }`: the text between its header and the next module's header
    let split = |o: &str| -> std::collections::BTreeMap<usize, String> {
        let mut m = std::collections::BTreeMap::new();
        let mut cur: Option<usize> = None;
        for l in o.lines() {
            if let Some(r) = l.strip_prefix("mod c") {
                if let Some(n) = r.split_whitespace().next().and_then(|x| x.parse::<usize>().ok()) {
                    cur = Some(n);
                }
            }
            if let Some(c) = cur {
                let e: &mut String = m.entry(c).or_default();
                e.push_str(l);
                e.push('\n');
            }
        }
        m
    };
    let base = split(&outs[0]);
    let mut differing = vec![];
    for o in &outs[1..] {
        if *o != outs[0] {
            let other = split(o);
            for (i, a) in &base {
                let b = other.get(i).cloned().unwrap_or_default();
                if *a != b && !differing.iter().any(|d: &(usize, String, String)| d.0 == *i) {
                    differing.push((*i, a.chars().take(3000).collect(), b.chars().take(3000).collect()));
                }
            }
            if differing.is_empty() {
                return Err("expansions differ between rustc processes outside the case modules (see gen_c19)".into());
            }
        }
    }
    Ok((outs.len(), differing))
}

pub fn replay(ctx: &Ctx, case: &Value) -> Report {
    let mut rep = Report::new(RULE);
    rep.evidence.eval(1);
    let c = Case { derive: case["derive"].as_str().unwrap_or("").into(), item: case["item"].as_str().unwrap_or("").into(), hashed_keys: 0, class: "replay" };
    let a = expand_text(&c);
    // compare with 8 fresh processes expanding only this case
    let exe = std::env::current_exe().unwrap();
    for j in 0..8 {
        let out = Command::new(&exe).args(["worker", "c19-one", &c.derive, &c.item]).output();
        if let Ok(o) = out {
            let t = String::from_utf8_lossy(&o.stdout).trim().to_string();
            if t != format!("{:016x}", fnv(&a)) {
                rep.violations.push(Violation {
                    sig: None,
                    summary: format!("fresh process #{j} produced a different expansion: derive {} on `{}`", c.derive, c.item),
                    case: case.clone(),
                    expected: a.chars().take(1500).collect(),
                    observed: t,
                });
                break;
            }
        }
    }
    // position independence (the placements of the span stage)
    for n in 1..=5usize {
        if let Ok(o) = Command::new(&exe).args(["worker", "c19-span", &c.derive, &c.item, &n.to_string(), "6"]).output() {
            let hs: Vec<String> = String::from_utf8_lossy(&o.stdout).split_whitespace().map(|s| s.to_string()).collect();
            if hs.iter().any(|h| *h != hs[0]) {
                rep.violations.push(Violation {
                    sig: None,
                    summary: format!("the expansion depends on the byte position of the item in the source: derive {} on `{}`", c.derive, c.item),
                    case: case.clone(),
                    expected: a.chars().take(1500).collect(),
                    observed: format!("<hashes {hs:?}>"),
                });
                break;
            }
        }
    }
    let _ = ctx;
    rep
}

/// Current end of proc_macro2's (fallback) source map: the byte offset the next parsed string starts at.
fn source_map_offset() -> usize {
    // (`Span::byte_range()` is relative to the parsed string; the global position only shows in the Debug rendering
    // `#0 bytes(lo..hi)`, which is also what a `{:?}`-based ordering inside an expander would see)
    let ts: proc_macro2::TokenStream = "x".parse().unwrap();
    let dbg = ts.into_iter().next().map(|t| format!("{:?}", t.span())).unwrap_or_default();
    dbg.split("bytes(").nth(1).and_then(|r| r.split("..").next()).and_then(|n| n.parse().ok()).unwrap_or(usize::MAX)
}

/// `dmv worker c19-span <derive> <item>`: expands the item at the current position and then at positions where the
/// item's own spans straddle 10^2 .. 10^6 bytes (the places where the decimal renderings of two byte offsets inside the
/// item differ in length). Prints one hash per expansion: all must be equal — the expansion may not depend on where in the
/// source the item stands.
pub fn worker_span(args: &[String]) -> i32 {
    let c = Case { derive: args.first().cloned().unwrap_or_default(), item: args.get(1).cloned().unwrap_or_default(), hashed_keys: 0, class: "replay" };
    let mut out = vec![fnv(&expand_text(&c))];
    // where inside the item the boundary falls: <num>/<den> of its length (one placement per boundary and process)
    let num: usize = args.get(2).and_then(|s| s.parse().ok()).unwrap_or(1);
    let den: usize = args.get(3).and_then(|s| s.parse().ok()).unwrap_or(2).max(1);
    for k in 2..=6u32 {
        let boundary = 10usize.pow(k);
        {
            let target = boundary.saturating_sub(c.item.len() * num / den);
            for _ in 0..4 {
                let o = source_map_offset();
                if o == usize::MAX || o + 8 >= target {
                    break;
                }
                let n = target - o - 6;
                let filler = format!("\"{}\"", "a".repeat(n.saturating_sub(2)));
                let _: Result<proc_macro2::TokenStream, _> = filler.parse();
            }
            if source_map_offset() < boundary {
                out.push(fnv(&expand_text(&c)));
            }
        }
    }
    println!("{}", out.iter().map(|h| format!("{h:016x}")).collect::<Vec<_>>().join(" "));
    0
}

pub fn worker_one(args: &[String]) -> i32 {
    let c = Case { derive: args.first().cloned().unwrap_or_default(), item: args.get(1).cloned().unwrap_or_default(), hashed_keys: 0, class: "replay" };
    println!("{:016x}", fnv(&expand_text(&c)));
    0
}

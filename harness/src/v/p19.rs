//! C19 — expansion is a deterministic pure function of the derive input.
//!
//! (1) same process, repeated; (2) history independence (different orders of preceding expansions);
//! (3) fresh processes (std's RandomState is seeded per process); (4) thorough: the real proc-macro in
//! separate rustc processes (`-Zunpretty=expanded`).
use super::core::*;
use super::dm::{self, Derive, Outcome};
use super::progprop::Dice;
use proptest::strategy::ValueTree;
use serde_json::{json, Value};
use std::process::{Command, Stdio};

pub const RULE: &str = "derive inputs biased to expansions that iterate hashed collections (TryInto enums with 3..8 variants over 3..6 distinct field-type tuples and all reference kinds; FromStr enums with 3..10 variants incl. case-collision groups; Mul-like/MulAssign-like structs with 3..6 distinct field types; Error enums with several generic sources; AsRef/Into type lists) plus the general shape x derive generator; oracle: identical token text when expanded twice, in two different orders of preceding expansions, and in K fresh processes (per-process hash seeds); thorough adds the real proc-macro in separate rustc processes. Non-trivial = the input has >= 3 keys in a collection the expander hashes; distinct by (derive, item)";

#[derive(Clone, Debug)]
pub struct Case {
    pub derive: String,
    pub item: String,
    pub hashed_keys: usize,
}

const TYS: [&str; 8] = ["i32", "u8", "String", "bool", "f64", "char", "Vec<u8>", "T"];

fn gen_case(d: &mut Dice) -> Case {
    match d.weighted(&[3, 2, 3, 2, 2, 2, 3]) {
        0 => {
            // TryInto: group by (ref kind, types)
            let nv = d.range(3, 8);
            let mut vs = vec![];
            let mut keys = std::collections::BTreeSet::new();
            for i in 0..nv {
                let nf = d.range(0, 3);
                let tys: Vec<&str> = (0..nf).map(|_| TYS[d.pick(7)]).collect();
                keys.insert(tys.join(","));
                vs.push(format!("V{i}({})", tys.join(", ")));
            }
            let attr = ["", "#[try_into(owned, ref, ref_mut)] ", "#[try_into(ref)] "][d.pick(3)];
            Case { derive: "TryInto".into(), item: format!("{attr}enum E {{ {} }}", vs.join(", ")), hashed_keys: keys.len() }
        }
        1 => {
            let pool = ["Foo", "FOO", "foo", "Bar", "Baz", "bar", "Qux", "QuX", "Zed", "A", "a", "Bb"];
            let nv = d.range(3, 10);
            let mut names = vec![];
            for _ in 0..nv {
                let n = pool[d.pick(pool.len())];
                if !names.contains(&n) {
                    names.push(n);
                }
            }
            let keys: std::collections::BTreeSet<String> = names.iter().map(|n| n.to_lowercase()).collect();
            Case { derive: "FromStr".into(), item: format!("enum E {{ {} }}", names.join(", ")), hashed_keys: keys.len() }
        }
        2 => {
            let der = ["Mul", "Div", "Rem", "Shr", "Shl", "MulAssign", "DivAssign", "RemAssign", "ShrAssign", "ShlAssign"][d.pick(10)];
            let nf = d.range(3, 6);
            let tys: Vec<&str> = (0..nf).map(|_| TYS[d.pick(8)]).collect();
            let keys: std::collections::BTreeSet<&str> = tys.iter().copied().collect();
            let generic = if tys.contains(&"T") { "<T>" } else { "" };
            Case { derive: der.into(), item: format!("struct S{generic}({});", tys.join(", ")), hashed_keys: keys.len() }
        }
        3 => {
            let nv = d.range(2, 5);
            let gens = ["A", "B", "C", "D", "E2"];
            let vs: Vec<String> = (0..nv).map(|i| format!("V{i} {{ source: {} }}", gens[i])).collect();
            Case {
                derive: "Error".into(),
                item: format!("enum E<{}> {{ {} }}", gens[..nv].join(", "), vs.join(", ")),
                hashed_keys: nv,
            }
        }
        4 => {
            let der = ["Add", "Sub", "BitAnd", "Not", "Neg", "Sum", "Product", "AddAssign"][d.pick(8)];
            let nf = d.range(2, 5);
            let tys: Vec<&str> = (0..nf).map(|_| TYS[d.pick(8)]).collect();
            let generic = if tys.contains(&"T") { "<T>" } else { "" };
            Case { derive: der.into(), item: format!("struct S{generic}({});", tys.join(", ")), hashed_keys: 0 }
        }
        5 => {
            let n = d.range(2, 5);
            let tys: Vec<&str> = (0..n).map(|i| TYS[(i + d.pick(3)) % 7]).collect();
            let (der, attr) = [("From", "from"), ("Into", "into"), ("AsRef", "as_ref")][d.pick(3)];
            Case { derive: der.into(), item: format!("#[{attr}({})] struct S(i32);", tys.join(", ")), hashed_keys: 0 }
        }
        _ => {
            // general shape x derive
            let der = Derive(d.pick(dm::DERIVES.len()));
            let item = super::p18::gen_plain_item(d);
            Case { derive: der.name().into(), item, hashed_keys: 0 }
        }
    }
}

pub fn gen_batch(seed: u64, tier: Tier) -> Vec<Case> {
    let n = tier.pick(10_000usize, 60_000);
    let mut runner = runner_for(seed, "C19", 0);
    let dice = proptest::collection::vec(proptest::num::u16::ANY, 96..=96);
    let mut v: Vec<Case> = draw(&mut runner, &dice, n).into_iter().map(|t| gen_case(&mut Dice::new(t.current()))).collect();
    // fixed regression seeds
    for (d, i) in [
        ("TryInto", "#[try_into(owned, ref, ref_mut)] enum E { A(i32), B(u8), C(String), D(i32, u8), F(u8, i32), G }"),
        ("FromStr", "enum E { Foo, FOO, foo, Bar, Baz, bar, Qux }"),
        ("Mul", "struct S(i32, u8, String, bool, f64, char);"),
        ("Error", "enum E<A, B, C, D> { V0 { source: A }, V1 { source: B }, V2 { source: C }, V3 { source: D } }"),
    ] {
        v.push(Case { derive: d.into(), item: i.into(), hashed_keys: 4 });
    }
    v
}

fn expand_text(c: &Case) -> String {
    let Some(d) = Derive::by_name(&c.derive) else { return "<unknown derive>".into() };
    let Ok(item) = syn::parse_str::<syn::DeriveInput>(&c.item) else { return "<unparsable>".into() };
    match dm::expand(d, &item) {
        Outcome::Ok(ts) => ts.to_string(),
        Outcome::Err(e) => format!("<err: {e}>"),
        Outcome::Panic(p) => format!("<panic: {}>", p.msg),
    }
}

pub fn worker_main(args: &[String]) -> i32 {
    use std::io::Write;
    let seed: u64 = args.first().and_then(|s| s.parse().ok()).unwrap_or(0);
    let tier = if args.get(1).map(|s| s.as_str()) == Some("thorough") { Tier::Thorough } else { Tier::Quick };
    // optional: reversed order (history independence across processes as well)
    let reversed = args.get(2).map(|s| s == "rev").unwrap_or(false);
    let batch = gen_batch(seed, tier);
    let mut idx: Vec<usize> = (0..batch.len()).collect();
    if reversed {
        idx.reverse();
    }
    let mut hashes = vec![0u64; batch.len()];
    for i in idx {
        hashes[i] = fnv(&expand_text(&batch[i]));
    }
    let stdout = std::io::stdout();
    let mut w = stdout.lock();
    for h in hashes {
        let _ = writeln!(w, "{h:016x}");
    }
    0
}

pub fn run(ctx: &Ctx) -> Report {
    let mut rep = Report::new(RULE);
    rep.evidence.assumptions = vec!["in-process expansion equals what the proc-macro does (same expand functions); the thorough tier additionally drives the real proc-macro".into()];
    let batch = gen_batch(ctx.seed, ctx.tier);
    // (1) + (2) in this process
    let first: Vec<String> = batch.iter().map(expand_text).collect();
    let mut ok = 0u64;
    for (i, c) in batch.iter().enumerate() {
        rep.evidence.eval(1);
        let t = &first[i];
        if t.starts_with('<') {
            rep.evidence.label("not_ok_expansion");
        } else {
            ok += 1;
            rep.evidence.label(&format!("derive_class={}", class_of(&c.derive)));
            if c.hashed_keys >= 3 {
                rep.evidence.nontrivial(&format!("{}|{}", c.derive, c.item));
            }
        }
        if i % (batch.len() / 8).max(1) == 0 {
            rep.evidence.sample(json!({"derive": c.derive, "item": c.item}));
        }
    }
    let _ = ok;
    let mut report = |i: usize, what: &str, a: &str, b: &str, rep: &mut Report| {
        let c = &batch[i];
        rep.violations.push(Violation {
            sig: None,
            summary: format!("{what}: derive {} on `{}`", c.derive, c.item),
            case: json!({"derive": c.derive, "item": c.item}),
            expected: a.chars().take(1500).collect(),
            observed: b.chars().take(1500).collect(),
        });
    };
    // twice
    for (i, c) in batch.iter().enumerate() {
        let again = expand_text(c);
        if again != first[i] {
            report(i, "two expansions in the same process differ", &first[i], &again, &mut rep);
        }
    }
    // seeded permutation
    let mut runner = ctx.runner(1);
    let perm_keys: Vec<u16> = draw(&mut runner, &proptest::num::u16::ANY, batch.len()).into_iter().map(|t| t.current()).collect();
    let mut order: Vec<usize> = (0..batch.len()).collect();
    order.sort_by_key(|i| (perm_keys[*i], *i));
    let mut second = vec![String::new(); batch.len()];
    for &i in &order {
        second[i] = expand_text(&batch[i]);
    }
    for i in 0..batch.len() {
        if second[i] != first[i] {
            report(i, "expansion depends on what was expanded before", &first[i], &second[i], &mut rep);
        }
    }
    // (3) fresh processes
    let k = ctx.tier.pick(8usize, 48);
    let exe = std::env::current_exe().unwrap();
    let mine: Vec<String> = first.iter().map(|t| format!("{:016x}", fnv(t))).collect();
    let children: Vec<_> = (0..k)
        .map(|j| {
            Command::new(&exe)
                .args(["worker", "c19", &ctx.seed.to_string(), ctx.tier.name(), if j % 2 == 1 { "rev" } else { "fwd" }])
                .stdout(Stdio::piped())
                .stderr(Stdio::null())
                .spawn()
        })
        .collect();
    let mut fresh_ok = 0;
    for (j, ch) in children.into_iter().enumerate() {
        let out = match ch.and_then(|c| c.wait_with_output()) {
            Ok(o) => o,
            Err(e) => {
                rep.infra_errors.push(format!("fresh process {j}: {e}"));
                continue;
            }
        };
        let text = String::from_utf8_lossy(&out.stdout);
        let theirs: Vec<&str> = text.lines().collect();
        if theirs.len() != mine.len() {
            rep.infra_errors.push(format!("fresh process {j} returned {} hashes for {} inputs ({:?})", theirs.len(), mine.len(), out.status));
            continue;
        }
        fresh_ok += 1;
        let mut n = 0;
        for i in 0..mine.len() {
            if theirs[i] != mine[i] {
                n += 1;
                if n <= 3 {
                    report(i, &format!("fresh process #{j} produced a different expansion"), &first[i], &format!("<hash {} != {}>", theirs[i], mine[i]), &mut rep);
                }
            }
        }
    }
    rep.evidence.set("fresh_processes_compared", json!(fresh_ok));
    rep.evidence.add("evaluations_across_processes", (fresh_ok * batch.len()) as u64);
    // (4) thorough: real proc-macro, separate rustc processes
    if ctx.tier == Tier::Thorough {
        match real_compiler_runs(ctx, &batch, &first) {
            Ok(n) => rep.evidence.set("unpretty_expanded_runs_compared", json!(n)),
            Err(e) => rep.infra_errors.push(format!("-Zunpretty=expanded stage: {e}")),
        }
    }
    // de-duplicate by derive
    let mut seen = std::collections::HashSet::new();
    rep.violations.retain(|v| seen.insert(format!("{}|{}", v.summary.split(':').next().unwrap_or(""), v.case["derive"])));
    rep
}

fn class_of(d: &str) -> &'static str {
    match d {
        "TryInto" => "TryInto",
        "FromStr" => "FromStr",
        "Error" => "Error",
        "Mul" | "Div" | "Rem" | "Shr" | "Shl" | "MulAssign" | "DivAssign" | "RemAssign" | "ShrAssign" | "ShlAssign" => "MulLike",
        _ => "other",
    }
}

/// Puts the hashed-collection cases whose in-process expansion is Ok into a crate and expands it 4 times with the
/// real proc-macro dylib (`cargo +nightly rustc -- -Zunpretty=expanded`), touching the source in between.
fn real_compiler_runs(ctx: &Ctx, batch: &[Case], first: &[String]) -> Result<usize, String> {
    let dir = ctx.work_dir.join("gen").join("gen_c19");
    std::fs::create_dir_all(dir.join("src")).map_err(|e| e.to_string())?;
    let toml = format!(
        "[package]\nname = \"gen_c19\"\nversion = \"0.0.0\"\nedition = \"2021\"\n\n[workspace]\n\n[dependencies]\nderive_more = {{ path = \"{}\", features = [\"full\"] }}\n",
        ctx.mirror.display()
    );
    std::fs::write(dir.join("Cargo.toml"), toml).map_err(|e| e.to_string())?;
    let _ = std::fs::copy(ctx.mirror.join("Cargo.lock"), dir.join("Cargo.lock"));
    let mut src = String::from("#![allow(warnings)]\n");
    let mut n = 0;
    for (i, c) in batch.iter().enumerate() {
        // only derives that need no user-provided trait impls to *expand* (expansion happens before type-check; errors later do not matter for -Zunpretty=expanded)
        if first[i].starts_with('<') || c.hashed_keys < 3 || n >= 300 {
            continue;
        }
        n += 1;
        src.push_str(&format!("mod c{i} {{ #[derive(derive_more::{})] {} }}\n", c.derive, c.item));
    }
    std::fs::write(dir.join("src/lib.rs"), &src).map_err(|e| e.to_string())?;
    let mut outs: Vec<String> = vec![];
    for round in 0..4 {
        // touch
        std::fs::write(dir.join("src/lib.rs"), format!("{src}// round {round}\n")).map_err(|e| e.to_string())?;
        let out = Command::new("cargo")
            .args(["+nightly", "rustc", "--offline", "--lib", "--", "-Zunpretty=expanded"])
            .current_dir(&dir)
            .env("CARGO_NET_OFFLINE", "true")
            .env("CARGO_TARGET_DIR", ctx.work_dir.join("tgt-gen-nightly"))
            .output()
            .map_err(|e| e.to_string())?;
        let text = String::from_utf8_lossy(&out.stdout).to_string();
        if text.len() < 1000 {
            return Err(format!("unexpected output of -Zunpretty=expanded: {}", String::from_utf8_lossy(&out.stderr).chars().take(800).collect::<String>()));
        }
        // drop the touch marker line
        outs.push(text.lines().filter(|l| !l.starts_with("// round")).collect::<Vec<_>>().join("\n"));
    }
    for o in &outs[1..] {
        if *o != outs[0] {
            return Err("VIOLATION-LIKE: expansions differ between rustc processes (see gen_c19)".into());
        }
    }
    Ok(outs.len())
}

pub fn replay(ctx: &Ctx, case: &Value) -> Report {
    let mut rep = Report::new(RULE);
    rep.evidence.eval(1);
    let c = Case { derive: case["derive"].as_str().unwrap_or("").into(), item: case["item"].as_str().unwrap_or("").into(), hashed_keys: 0 };
    let a = expand_text(&c);
    // compare with 8 fresh processes expanding only this case
    let exe = std::env::current_exe().unwrap();
    for j in 0..8 {
        let out = Command::new(&exe).args(["worker", "c19-one", &c.derive, &c.item]).output();
        if let Ok(o) = out {
            let t = String::from_utf8_lossy(&o.stdout).trim().to_string();
            if t != format!("{:016x}", fnv(&a)) {
                rep.violations.push(Violation {
                    sig: None,
                    summary: format!("fresh process #{j} produced a different expansion: derive {} on `{}`", c.derive, c.item),
                    case: case.clone(),
                    expected: a.chars().take(1500).collect(),
                    observed: t,
                });
                break;
            }
        }
    }
    let _ = ctx;
    rep
}

pub fn worker_one(args: &[String]) -> i32 {
    let c = Case { derive: args.first().cloned().unwrap_or_default(), item: args.get(1).cloned().unwrap_or_default(), hashed_keys: 0 };
    println!("{:016x}", fnv(&expand_text(&c)));
    0
}

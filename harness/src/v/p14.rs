//! C14 — delegating derives (Deref, DerefMut, AsRef, AsMut, Index, IndexMut, IntoIterator) expose exactly the
//! selected field.
//!
//! Every case is one struct with 1..4 fields (neighbouring fields mostly of the same type) deriving a subset of
//! the seven derives, each with its own selected field, plus a `run` comparing *addresses*: without `forward` the
//! derived impl must hand out the selected field's own storage, with `forward` / an index / a listed foreign type /
//! iteration exactly what the field's own impl of the trait hands out. The field types come from the prelude
//! (`Own<T>`): their own `AsRef<Own<T>>`/`Deref`/`Index`/`IntoIterator` impls answer from a *second* inner
//! allocation (the twin), so "the field itself" and "what the field's impl returns" never coincide.
use super::dm;
use super::progprop::*;
use super::proggen::CaseResult;
use super::tok;
use serde_json::json;

pub const PRELUDE: &str = r#"
#[derive(Debug, Clone, PartialEq)] pub struct A(pub u32);
#[derive(Debug, Clone, PartialEq)] pub struct B(pub u32);
#[derive(Debug, Clone, PartialEq)] pub struct C(pub u32);
#[derive(Debug, Clone, Copy, PartialEq)] pub struct Key(pub u8);
/// Every trait impl of `Own` answers from the twin (a second allocation), never from `self`.
#[derive(Debug, Clone, PartialEq)]
pub struct Own<T> { pub id: u32, pub v: Vec<T>, pub twin: Option<Box<Own<T>>> }
impl<T: Clone> Own<T> {
    pub fn new(id: u32, v: Vec<T>) -> Self { Own { id, v: v.clone(), twin: Some(Box::new(Own { id: id + 50, v, twin: None })) } }
}
impl<T> Own<T> {
    pub fn tw(&self) -> &Own<T> { match &self.twin { Some(t) => t, None => self } }
    pub fn tw_mut(&mut self) -> &mut Own<T> { if self.twin.is_some() { self.twin.as_mut().unwrap() } else { self } }
}
impl<T> AsRef<Own<T>> for Own<T> { fn as_ref(&self) -> &Own<T> { self.tw() } }
impl<T> AsMut<Own<T>> for Own<T> { fn as_mut(&mut self) -> &mut Own<T> { self.tw_mut() } }
impl<T> AsRef<[T]> for Own<T> { fn as_ref(&self) -> &[T] { &self.tw().v[..] } }
impl<T> AsMut<[T]> for Own<T> { fn as_mut(&mut self) -> &mut [T] { &mut self.tw_mut().v[..] } }
impl<T> AsRef<Vec<T>> for Own<T> { fn as_ref(&self) -> &Vec<T> { &self.tw().v } }
impl<T> AsMut<Vec<T>> for Own<T> { fn as_mut(&mut self) -> &mut Vec<T> { &mut self.tw_mut().v } }
impl<T> std::ops::Deref for Own<T> { type Target = Vec<T>; fn deref(&self) -> &Vec<T> { &self.tw().v } }
impl<T> std::ops::DerefMut for Own<T> { fn deref_mut(&mut self) -> &mut Vec<T> { &mut self.tw_mut().v } }
impl<T> std::ops::Index<usize> for Own<T> { type Output = T; fn index(&self, i: usize) -> &T { &self.tw().v[i] } }
impl<T> std::ops::IndexMut<usize> for Own<T> { fn index_mut(&mut self, i: usize) -> &mut T { &mut self.tw_mut().v[i] } }
impl<T> std::ops::Index<Key> for Own<T> { type Output = u32; fn index(&self, _: Key) -> &u32 { &self.tw().id } }
impl<T> std::ops::IndexMut<Key> for Own<T> { fn index_mut(&mut self, _: Key) -> &mut u32 { &mut self.tw_mut().id } }
/// all three forms visit the twin's elements in *reverse* storage order
impl<T> IntoIterator for Own<T> {
    type Item = T; type IntoIter = std::iter::Rev<std::vec::IntoIter<T>>;
    fn into_iter(self) -> Self::IntoIter { match self.twin { Some(t) => t.v.into_iter().rev(), None => self.v.into_iter().rev() } }
}
impl<'a, T> IntoIterator for &'a Own<T> {
    type Item = &'a T; type IntoIter = std::iter::Rev<std::slice::Iter<'a, T>>;
    fn into_iter(self) -> Self::IntoIter { self.tw().v.iter().rev() }
}
impl<'a, T> IntoIterator for &'a mut Own<T> {
    type Item = &'a mut T; type IntoIter = std::iter::Rev<std::slice::IterMut<'a, T>>;
    fn into_iter(self) -> Self::IntoIter { self.tw_mut().v.iter_mut().rev() }
}
pub fn lko(id: u32) -> &'static Own<A> { Box::leak(Box::new(Own::new(id, vec![A(id + 1), A(id + 2), A(id + 3)]))) }
pub fn lko_mut(id: u32) -> &'static mut Own<A> { Box::leak(Box::new(Own::new(id, vec![A(id + 1), A(id + 2), A(id + 3)]))) }
/// field types reached through an associated type of a type parameter (`Q::A` with `Q = Px`)
pub trait Tr { type A; }
#[derive(Debug, Clone, PartialEq)] pub struct Px;
impl Tr for Px { type A = Own<B>; }
pub static TAG: u8 = 7;
/// lifetime-parameterised sibling of `Own` (its own impls answer from the twin as well)
#[derive(Debug, Clone, PartialEq)]
pub struct OwnL<'a> { pub id: u32, pub a: A, pub tag: &'a u8, pub twin: Option<Box<OwnL<'a>>> }
impl OwnL<'static> {
    pub fn new(id: u32) -> Self { OwnL { id, a: A(id + 1), tag: &TAG, twin: Some(Box::new(OwnL { id: id + 50, a: A(id + 2), tag: &TAG, twin: None })) } }
}
impl<'a> OwnL<'a> {
    pub fn tw(&self) -> &OwnL<'a> { match &self.twin { Some(t) => t, None => self } }
    pub fn tw_mut(&mut self) -> &mut OwnL<'a> { if self.twin.is_some() { self.twin.as_mut().unwrap() } else { self } }
}
impl<'a> AsRef<OwnL<'a>> for OwnL<'a> { fn as_ref(&self) -> &OwnL<'a> { self.tw() } }
impl<'a> AsMut<OwnL<'a>> for OwnL<'a> { fn as_mut(&mut self) -> &mut OwnL<'a> { self.tw_mut() } }
impl<'a> AsRef<A> for OwnL<'a> { fn as_ref(&self) -> &A { &self.tw().a } }
impl<'a> AsMut<A> for OwnL<'a> { fn as_mut(&mut self) -> &mut A { &mut self.tw_mut().a } }
pub type AliasL<'a> = OwnL<'a>;
/// const-parameterised sibling of `Own`
#[derive(Debug, Clone, PartialEq)]
pub struct OwnN<const N: usize> { pub id: u32, pub v: [A; N], pub twin: Option<Box<OwnN<N>>> }
impl<const N: usize> OwnN<N> {
    pub fn new(id: u32) -> Self {
        let mk = |b: u32| -> [A; N] { core::array::from_fn(|i| A(b + 1 + i as u32)) };
        OwnN { id, v: mk(id), twin: Some(Box::new(OwnN { id: id + 50, v: mk(id), twin: None })) }
    }
    pub fn tw(&self) -> &OwnN<N> { match &self.twin { Some(t) => t, None => self } }
    pub fn tw_mut(&mut self) -> &mut OwnN<N> { if self.twin.is_some() { self.twin.as_mut().unwrap() } else { self } }
}
impl<const N: usize> AsRef<OwnN<N>> for OwnN<N> { fn as_ref(&self) -> &OwnN<N> { self.tw() } }
impl<const N: usize> AsMut<OwnN<N>> for OwnN<N> { fn as_mut(&mut self) -> &mut OwnN<N> { self.tw_mut() } }
impl<const N: usize> AsRef<[A]> for OwnN<N> { fn as_ref(&self) -> &[A] { &self.tw().v[..] } }
impl<const N: usize> AsMut<[A]> for OwnN<N> { fn as_mut(&mut self) -> &mut [A] { &mut self.tw_mut().v[..] } }
/// A type whose argument mentions a const parameter only as an array length (`OwnG<[u8; N]>`): the parameter occurs in
/// expression position. Its `AsRef<[A]>` holds for one length only, so it cannot be answered without the forwarding
/// impl's where-clause.
#[derive(Debug, Clone, PartialEq)]
pub struct OwnG<X> { pub id: u32, pub v: Vec<A>, pub x: core::marker::PhantomData<X>, pub twin: Option<Box<OwnG<X>>> }
impl<X> OwnG<X> {
    pub fn new(id: u32) -> Self {
        let mk = |b: u32| vec![A(b + 1), A(b + 2)];
        OwnG { id, v: mk(id), x: core::marker::PhantomData, twin: Some(Box::new(OwnG { id: id + 50, v: mk(id), x: core::marker::PhantomData, twin: None })) }
    }
    pub fn tw(&self) -> &OwnG<X> { match &self.twin { Some(t) => t, None => self } }
    pub fn tw_mut(&mut self) -> &mut OwnG<X> { if self.twin.is_some() { self.twin.as_mut().unwrap() } else { self } }
}
impl<X> AsRef<OwnG<X>> for OwnG<X> { fn as_ref(&self) -> &OwnG<X> { self.tw() } }
impl<X> AsMut<OwnG<X>> for OwnG<X> { fn as_mut(&mut self) -> &mut OwnG<X> { self.tw_mut() } }
impl AsRef<[A]> for OwnG<[u8; 2]> { fn as_ref(&self) -> &[A] { &self.tw().v[..] } }
impl AsMut<[A]> for OwnG<[u8; 2]> { fn as_mut(&mut self) -> &mut [A] { &mut self.tw_mut().v[..] } }
/// a generic type that is *not* `Deref` itself, behind a reference (`#[deref(forward)]` over `&'a Plain<T>` needs the bound on
/// the reference type, not on what it points to)
#[derive(Debug, Clone, PartialEq)]
pub struct Plain<T> { pub id: u32, pub v: Vec<T> }
pub fn lkp(id: u32) -> &'static Plain<C> { Box::leak(Box::new(Plain { id, v: vec![C(id + 1)] })) }
pub type OwnA = Own<A>;
pub type OwnB = Own<B>;
pub type VecA = Vec<A>;
pub type BoxOwnA = Box<Own<A>>;
/// (address, size in bytes) of the referent
pub fn id<T: ?Sized>(r: &T) -> (usize, usize) { (r as *const T as *const u8 as usize, std::mem::size_of_val(r)) }
fn desc(p: (usize, usize), fs: &[(usize, usize)]) -> String {
    match fs.iter().position(|f| *f == p) {
        Some(k) => format!("{p:?} = field #{k} itself"),
        None => match fs.iter().position(|f| p.0 >= f.0 && p.0 < f.0 + f.1) {
            Some(k) => format!("{p:?} = inside field #{k}"),
            None => format!("{p:?} = outside the struct"),
        },
    }
}
pub fn ckid(o: &mut Out, what: &str, exp: (usize, usize), got: (usize, usize), fs: &[(usize, usize)]) {
    o.eq(what, &desc(exp, fs), &desc(got, fs));
}
"#;

/// Recorded genuine defect (reported, not repaired yet): `GenericsSearch` (impl/src/utils.rs, `visit_type_path`)
/// does not see the type parameter in the shorthand projection `Q::A`, so `#[as_ref(<foreign type>)]` on a field
/// of type `Q::A` takes the autoref-specialised body, which cannot name the `Q::A: AsRef<..>` bound (E0599).
/// While `true`, a type list on a `Q::A` field only names the field's own type (the qualified spelling
/// `<Q as Tr>::A` of the field type carries the foreign lists).
const AVOID_ASSOC_SHORTHAND_FOREIGN_LIST: bool = false;
/// Recorded inconsistency (reported, not repaired yet): `#[into_iterator(ref, ref_mut)]` on the selected field
/// yields no owned impl (tests/into_iterator.rs, `Numbers3`) *unless* a field carrying `#[into_iterator(ignore)]`
/// precedes it (the `owned` default is taken from the first attributed field, impl/src/utils.rs `new_impl`).
/// While `true`, the owned-absence probe is not emitted for that arrangement.
const AVOID_ITER_OWNED_ABSENCE_AFTER_IGNORED_FIELD: bool = true;

/// capabilities: 1 = Deref (forward), 2 = Index, 4 = IntoIterator, 8 = AsRef/AsMut to other types
struct Ty {
    decl: &'static str,
    inst: &'static str,
    caps: u8,
    /// generic parameters of the struct the declared type needs: 1 = `T`, 2 = `V`, 4 = `Q: Tr`, 8 = `'a`, 16 = `const N`
    gen: u8,
    /// `AsRef<decl>` for the struct unifies with every other `AsRef<X>` impl (bare parameter, projection)
    catch_all: bool,
    elem: &'static str,
    /// spellings of the type itself usable in `#[as_ref(..)]`: (spelling, is the derive documented to treat it as the field type)
    selfs: &'static [(&'static str, bool)],
    /// other types the field type implements AsRef/AsMut for: (as declared, instantiated)
    foreign: &'static [(&'static str, &'static str)],
}

const TYS: [Ty; 16] = [
    Ty { decl: "Own<A>", inst: "Own<A>", caps: 15, gen: 0, catch_all: false, elem: "A", selfs: &[("Own<A>", true), ("OwnA", true), ("crate::Own<A>", true)], foreign: &[("[A]", "[A]"), ("Vec<A>", "Vec<A>")] },
    Ty { decl: "Own<B>", inst: "Own<B>", caps: 15, gen: 0, catch_all: false, elem: "B", selfs: &[("Own<B>", true), ("OwnB", true), ("crate::Own<B>", true)], foreign: &[("[B]", "[B]"), ("Vec<B>", "Vec<B>")] },
    Ty { decl: "Vec<A>", inst: "Vec<A>", caps: 15, gen: 0, catch_all: false, elem: "A", selfs: &[("Vec<A>", true), ("VecA", true), ("std::vec::Vec<A>", true)], foreign: &[("[A]", "[A]")] },
    // generic field type: only the string-equal spelling counts as "the field's type" (as_ref.md, WARNING box)
    Ty { decl: "Own<T>", inst: "Own<C>", caps: 15, gen: 1, catch_all: false, elem: "C", selfs: &[("Own<T>", true), ("Own<T>", true), ("crate::Own<T>", false)], foreign: &[("[T]", "[C]"), ("Vec<T>", "Vec<C>")] },
    Ty { decl: "Box<Own<A>>", inst: "Box<Own<A>>", caps: 9, gen: 0, catch_all: false, elem: "A", selfs: &[("Box<Own<A>>", true), ("BoxOwnA", true), ("std::boxed::Box<Own<A>>", true)], foreign: &[("Own<A>", "Own<A>")] },
    Ty { decl: "u64", inst: "u64", caps: 0, gen: 0, catch_all: false, elem: "", selfs: &[], foreign: &[] },
    Ty { decl: "String", inst: "String", caps: 0, gen: 0, catch_all: false, elem: "", selfs: &[], foreign: &[] },
    // deref.md: forwarding is meant "for when the field itself is a reference type like `&` and `Box`"
    Ty { decl: "&'static Own<A>", inst: "&'static Own<A>", caps: 1, gen: 0, catch_all: false, elem: "A", selfs: &[], foreign: &[] },
    // 8: a bare type parameter as the field (as_ref.md: `#[as_ref(i32)] struct Generic<T>(T)`, `#[as_ref(T)] struct Transparent<T>(T)`)
    Ty { decl: "V", inst: "Own<C>", caps: 15, gen: 2, catch_all: true, elem: "C", selfs: &[("V", true), ("V", true)], foreign: &[("[C]", "[C]"), ("Vec<C>", "Vec<C>")] },
    // 9, 10: an associated type of a type parameter, shorthand and qualified spelling ("contains generic parameters")
    Ty { decl: "Q::A", inst: "Own<B>", caps: 15, gen: 4, catch_all: true, elem: "B", selfs: &[("Q::A", true), ("Q::A", true), ("<Q as Tr>::A", false)], foreign: &[("[B]", "[B]"), ("Vec<B>", "Vec<B>")] },
    Ty { decl: "<Q as Tr>::A", inst: "Own<B>", caps: 15, gen: 4, catch_all: true, elem: "B", selfs: &[("<Q as Tr>::A", true), ("<Q as Tr>::A", true), ("Q::A", false)], foreign: &[("[B]", "[B]"), ("Vec<B>", "Vec<B>")] },
    // 11, 12: lifetime / const parameters inside the field type (tests/as_ref.rs: `LifetimeHelper<'a>`, `ConstParamHelper<N>`)
    Ty { decl: "OwnL<'a>", inst: "OwnL<'static>", caps: 8, gen: 8, catch_all: false, elem: "", selfs: &[("OwnL<'a>", true), ("OwnL<'a>", true), ("AliasL<'a>", false), ("crate::OwnL<'a>", false)], foreign: &[("A", "A")] },
    Ty { decl: "OwnN<N>", inst: "OwnN<2>", caps: 8, gen: 16, catch_all: false, elem: "", selfs: &[("OwnN<N>", true), ("OwnN<N>", true), ("crate::OwnN<N>", false), ("OwnN<{ N }>", false)], foreign: &[("[A]", "[A]")] },
    // 13: deref_mut.md: forwarding "for when the field itself is a reference type like `&mut` and `Box`"
    Ty { decl: "&'a mut Own<A>", inst: "&'static mut Own<A>", caps: 1, gen: 8, catch_all: false, elem: "A", selfs: &[], foreign: &[] },
    // 15: a reference to a generic type that has no `Deref` of its own (forwarding goes through `&'a Plain<T>: Deref`)
    // (listed after 14 below)
    // 14: the const parameter occurs only as an array length inside a type argument (expression position)
    Ty { decl: "OwnG<[u8; N]>", inst: "OwnG<[u8; 2]>", caps: 8, gen: 16, catch_all: false, elem: "", selfs: &[("OwnG<[u8; N]>", true), ("OwnG<[u8; N]>", true), ("crate::OwnG<[u8; N]>", false)], foreign: &[("[A]", "[A]")] },
    Ty { decl: "&'a Plain<T>", inst: "&'static Plain<C>", caps: 1, gen: 9, catch_all: false, elem: "C", selfs: &[], foreign: &[] },
];
const TY_MUT_REF: usize = 13;
const TY_ASSOC_SHORTHAND: usize = 9;

fn value_of(ty: usize, k: usize) -> String {
    let b = 100 * (k + 1);
    let e = TYS[ty].elem;
    let elems = format!("vec![{e}({}), {e}({}), {e}({})]", b + 1, b + 2, b + 3);
    match ty {
        0 | 1 | 3 | 8 | 9 | 10 => format!("Own::new({b}, {elems})"),
        11 => format!("OwnL::new({b})"),
        12 => format!("OwnN::new({b})"),
        14 => format!("OwnG::new({b})"),
        15 => format!("lkp({b})"),
        13 => format!("lko_mut({b})"),
        2 => elems,
        4 => format!("Box::new(Own::new({b}, {elems}))"),
        5 => format!("{b}u64"),
        7 => format!("lko({b})"),
        _ => format!("String::from(\"s{b}\")"),
    }
}
/// (statement writing through `r: &mut FieldTy`, condition on the field `s.F` that proves the write landed there)
fn write_probe(ty: usize, f: &str) -> (String, String) {
    match ty {
        0 | 1 | 3 | 4 | 8 | 9 | 10 | 11 | 12 | 14 => ("r.id = 4242;".into(), format!("s.{f}.id == 4242")),
        13 => ("*r = lko_mut(4242);".into(), format!("s.{f}.id == 4242")),
        2 => ("r.push(A(4242));".into(), format!("s.{f}.last() == Some(&A(4242))")),
        5 => ("*r = 4242;".into(), format!("s.{f} == 4242")),
        7 => ("*r = lko(4242);".into(), format!("s.{f}.id == 4242")),
        15 => ("*r = lkp(4242);".into(), format!("s.{f}.id == 4242")),
        _ => ("r.push_str(\"4242\");".into(), format!("s.{f}.ends_with(\"4242\")")),
    }
}

#[derive(Clone, Debug)]
struct Legacy {
    sel: usize,
    /// true: the selected field carries the attribute; false: all other fields carry `ignore`
    mark: bool,
    forward: bool,
    /// forward / kinds written on the struct instead of the field
    at_struct: bool,
    /// bare `#[attr]` on the selected field although nothing requires it (single-field struct)
    bare: bool,
    with_mut: bool,
    /// IntoIterator: listed kinds
    kinds: Vec<usize>,
    /// struct-level arguments *and* a (redundant) bare `#[attr]` marker on the selected field: the field inherits the
    /// struct's `forward` / reference kinds (seed C14-k)
    mark_too: bool,
}

#[derive(Clone, Debug)]
enum Conv {
    Plain,
    Bare,
    Forward,
    /// (spelling in the attribute, instantiated type, must be the field itself)
    Types(Vec<(String, String, bool)>),
}

#[derive(Clone, Debug)]
struct AsGroup {
    entries: Vec<(usize, Conv)>,
    skipped: Vec<(usize, &'static str)>,
    at_struct: bool,
}

struct Model {
    named: bool,
    tys: Vec<usize>,
    names: Vec<String>,
    deref: Option<Legacy>,
    index: Option<Legacy>,
    iter: Option<Legacy>,
    as_ref: Option<AsGroup>,
    as_mut: Option<AsGroup>,
    /// 0 = no bounds on the struct, 1 = inline bounds, 2 = where-clause
    bound_style: usize,
}

const NAMES: [&str; 4] = ["first", "r#type", "third", "last_one"];
const KINDS: [&str; 3] = ["owned", "ref", "ref_mut"];

fn gen_legacy(d: &mut Dice, tys: &[usize], cap: u8, can_forward: bool, is_iter: bool) -> Option<Legacy> {
    let nf = tys.len();
    let cands: Vec<usize> = (0..nf).filter(|k| cap == 0 || TYS[tys[*k]].caps & cap != 0).collect();
    if cands.is_empty() {
        return None;
    }
    let sel = cands[d.pick(cands.len())];
    let forward = can_forward && TYS[tys[sel]].caps & 1 != 0 && d.chance(45);
    let mark = nf == 1 || d.chance(55);
    let kinds: Vec<usize> = if is_iter {
        match d.weighted(&[3, 1, 2, 2, 3, 4, 1]) {
            0 => vec![],
            1 => vec![0],
            2 => vec![1],
            3 => vec![2],
            4 => vec![1, 2],
            5 => vec![0, 1, 2],
            _ => vec![0, 2],
        }
    } else {
        vec![]
    };
    // struct-level placement: single-field structs (tests/into_iterator.rs, deref.md) and, for forward, the
    // ignore-the-others style (tests/deref.rs)
    let at_struct = if is_iter { nf == 1 && !kinds.is_empty() && d.chance(50) } else { forward && (nf == 1 || !mark) && d.chance(50) };
    let bare = nf == 1 && !at_struct && d.chance(30);
    // `&T` has no DerefMut of its own, so a forwarded DerefMut cannot be asked for there
    let with_mut = d.chance(70) && !(forward && (tys[sel] == 7 || tys[sel] == 15));
    let mark_too = at_struct && d.chance(40);
    Some(Legacy { sel, mark, forward, at_struct, bare, with_mut, kinds, mark_too })
}

fn gen_types(d: &mut Dice, ty: usize) -> Vec<(String, String, bool)> {
    let t = &TYS[ty];
    let wsel = [4u32, 4, 2, 2];
    let mut out = vec![];
    if t.catch_all {
        // `impl<V> AsRef<V> for S<V>` unifies with every other impl: the list names the field's type *or* foreign types
        let foreign_ok = !(AVOID_ASSOC_SHORTHAND_FOREIGN_LIST && ty == TY_ASSOC_SHORTHAND);
        if !foreign_ok || d.chance(45) {
            let (sp, same) = t.selfs[d.weighted(&wsel[..t.selfs.len()])];
            return vec![(sp.to_string(), t.inst.to_string(), same)];
        }
        for (decl, inst) in t.foreign {
            if d.chance(55) {
                out.push((decl.to_string(), inst.to_string(), false));
            }
        }
        if out.is_empty() {
            out.push((t.foreign[0].0.to_string(), t.foreign[0].1.to_string(), false));
        }
        if d.chance(50) {
            out.reverse();
        }
        return out;
    }
    if d.chance(60) {
        let (sp, same) = t.selfs[d.weighted(&wsel[..t.selfs.len()])];
        out.push((sp.to_string(), t.inst.to_string(), same));
    }
    for (decl, inst) in t.foreign {
        if d.chance(55) {
            out.push((decl.to_string(), inst.to_string(), false));
        }
    }
    if out.is_empty() {
        let (sp, same) = t.selfs[1];
        out.push((sp.to_string(), t.inst.to_string(), same));
    }
    if d.chance(50) {
        out.reverse();
    }
    out
}

/// could `impl AsRef<a> for S<..>` and `impl AsRef<b> for S<..>` (declared field types `a`, `b`) overlap?
fn as_clash(a: usize, b: usize) -> bool {
    let own = |x: usize| TYS[x].inst.starts_with("Own<");
    TYS[a].catch_all || TYS[b].catch_all || TYS[a].inst == TYS[b].inst || (a == 3 && own(b)) || (b == 3 && own(a))
}

fn gen_as(d: &mut Dice, tys: &[usize]) -> AsGroup {
    let nf = tys.len();
    let conv_for = |d: &mut Dice, ty: usize| -> Conv {
        if TYS[ty].caps & 8 == 0 {
            return Conv::Bare;
        }
        match d.weighted(&[3, 2, 5]) {
            0 => Conv::Bare,
            1 => Conv::Forward,
            _ => Conv::Types(gen_types(d, ty)),
        }
    };
    if nf == 1 {
        let c = if d.chance(25) { Conv::Plain } else { conv_for(d, tys[0]) };
        let at_struct = matches!(c, Conv::Forward | Conv::Types(_)) && d.chance(50);
        return AsGroup { entries: vec![(0, c)], skipped: vec![], at_struct };
    }
    if d.chance(30) {
        // skip style: the un-skipped fields (pairwise distinct types) get a plain impl each
        let mut kept: Vec<usize> = vec![];
        let mut skipped = vec![];
        for k in 0..nf {
            // `impl<T> AsRef<Own<T>> for S<T>` and `impl<T> AsRef<Own<A>> for S<T>` would overlap
            if !kept.iter().any(|j| as_clash(tys[*j], tys[k])) && d.chance(60) {
                kept.push(k);
            } else {
                skipped.push((k, if d.chance(50) { "skip" } else { "ignore" }));
            }
        }
        if kept.is_empty() {
            let k = d.pick(nf);
            kept.push(k);
            skipped.retain(|(j, _)| *j != k);
        }
        if skipped.is_empty() {
            let k = kept.pop().unwrap();
            skipped.push((k, "skip"));
        }
        return AsGroup { entries: kept.into_iter().map(|k| (k, Conv::Plain)).collect(), skipped, at_struct: false };
    }
    let sel = d.pick(nf);
    let c = conv_for(d, tys[sel]);
    let mut entries = vec![(sel, c.clone())];
    if !matches!(c, Conv::Forward) && d.chance(35) {
        // a second marked field of another type (AsRef<X> may be implemented once per X)
        let taken: Vec<String> = match &c {
            Conv::Types(l) => l.iter().map(|x| x.1.clone()).collect(),
            _ => vec![TYS[tys[sel]].inst.to_string()],
        };
        let tgen = |x: usize| TYS[x].gen & 7 != 0;
        if let Some(k) = (0..nf).find(|k| *k != sel && !as_clash(tys[*k], tys[sel]) && !tgen(tys[*k]) && !tgen(tys[sel]) && !taken.iter().any(|t| t == TYS[tys[*k]].inst)) {
            entries.push((k, Conv::Bare));
        }
    }
    AsGroup { entries, skipped: vec![], at_struct: false }
}

fn gen_model(d: &mut Dice) -> Model {
    let nf = 1 + d.weighted(&[3, 4, 4, 3]);
    let named = d.chance(50);
    let mut tys: Vec<usize> = vec![];
    for k in 0..nf {
        if k > 0 && d.chance(65) {
            tys.push(tys[k - 1]);
        } else {
            tys.push(d.weighted(&[8, 3, 6, 4, 3, 1, 1, 2, 2, 2, 1, 2, 2, 1, 2, 2]));
        }
    }
    let names: Vec<String> = (0..nf).map(|k| if named { NAMES[k].to_string() } else { k.to_string() }).collect();
    let mut want: Vec<bool> = (0..5).map(|_| d.chance(55)).collect();
    if !want.iter().any(|w| *w) {
        want[d.pick(5)] = true;
    }
    let deref = if want[0] { gen_legacy(d, &tys, 0, true, false) } else { None };
    let index = if want[1] { gen_legacy(d, &tys, 2, false, false) } else { None };
    let iter = if want[2] { gen_legacy(d, &tys, 4, false, true) } else { None };
    let as_ref = if want[3] { Some(gen_as(d, &tys)) } else { None };
    let as_mut = if want[4] { Some(gen_as(d, &tys)) } else { None };
    let params = tys.iter().fold(0u8, |a, t| a | TYS[*t].gen);
    // struct-level bounds: none / inline on the parameters / a where-clause (tests/into_iterator.rs `Generic2`)
    let bound_style = if params != 0 { d.weighted(&[5, 3, 3]) } else { 0 };
    let mut m = Model { named, tys, names, deref, index, iter, as_ref, as_mut, bound_style };
    if m.deref.is_none() && m.index.is_none() && m.iter.is_none() && m.as_ref.is_none() && m.as_mut.is_none() {
        m.as_ref = Some(gen_as(d, &m.tys));
    }
    m
}

impl Model {
    fn params(&self) -> u8 {
        self.tys.iter().fold(0u8, |a, t| a | TYS[*t].gen)
    }
    fn generic(&self) -> bool {
        self.params() != 0
    }
    /// (declaration, type arguments, instantiation, where-clause) of the struct's generic parameters
    fn generics(&self) -> (String, String, String, String) {
        let p = self.params();
        if p == 0 {
            return (String::new(), String::new(), String::new(), String::new());
        }
        let inl = self.bound_style == 1;
        let (mut decl, mut args, mut inst, mut wh): (Vec<String>, Vec<String>, Vec<String>, Vec<String>) = (vec![], vec![], vec![], vec![]);
        if p & 8 != 0 {
            decl.push("'a".into());
            args.push("'a".into());
            inst.push("'static".into());
        }
        if p & 1 != 0 {
            decl.push(if inl { "T: Clone".into() } else { "T".into() });
            args.push("T".into());
            inst.push("C".into());
            wh.push("T: Clone".into());
        }
        if p & 2 != 0 {
            decl.push(if inl { "V: Clone".into() } else { "V".into() });
            args.push("V".into());
            inst.push("Own<C>".into());
            wh.push("V: Clone".into());
        }
        if p & 4 != 0 {
            decl.push(if inl { "Q: Tr + Clone".into() } else { "Q: Tr".into() });
            args.push("Q".into());
            inst.push("Px".into());
            wh.push("Q: Clone".into());
        }
        if p & 16 != 0 {
            decl.push("const N: usize".into());
            args.push("N".into());
            inst.push("2".into());
        }
        if wh.is_empty() {
            wh.push(if p & 8 != 0 { "'a: 'a".to_string() } else { "[u8; N]: Sized".to_string() });
        }
        let wh = if self.bound_style == 2 { format!(" where {}", wh.join(", ")) } else { String::new() };
        (format!("<{}>", decl.join(", ")), format!("<{}>", args.join(", ")), format!("<{}>", inst.join(", ")), wh)
    }
    fn legacy_attrs(&self, l: &Legacy, an: &str, struct_attrs: &mut Vec<String>, field_attrs: &mut [Vec<String>]) {
        let nf = self.tys.len();
        let args: String = if l.forward { "forward".into() } else { l.kinds.iter().map(|k| KINDS[*k]).collect::<Vec<_>>().join(", ") };
        if l.at_struct && !args.is_empty() {
            struct_attrs.push(format!("#[{an}({args})]"));
        }
        if !l.mark {
            for k in 0..nf {
                if k != l.sel {
                    field_attrs[k].push(format!("#[{an}(ignore)]"));
                }
            }
        }
        if !l.at_struct && !args.is_empty() {
            field_attrs[l.sel].push(format!("#[{an}({args})]"));
        } else if !l.at_struct && (l.bare || (l.mark && nf > 1)) {
            field_attrs[l.sel].push(format!("#[{an}]"));
        } else if l.at_struct && l.mark_too {
            field_attrs[l.sel].push(format!("#[{an}]"));
        } else if l.at_struct && l.mark && nf > 1 {
            unreachable!("struct-level arguments are only combined with the ignore style or a single field");
        }
    }
    fn as_attrs(&self, g: &AsGroup, an: &str, struct_attrs: &mut Vec<String>, field_attrs: &mut [Vec<String>]) {
        for (k, c) in &g.entries {
            let a = match c {
                Conv::Plain => continue,
                Conv::Bare => format!("#[{an}]"),
                Conv::Forward => format!("#[{an}(forward)]"),
                Conv::Types(l) => format!("#[{an}({})]", l.iter().map(|x| x.0.clone()).collect::<Vec<_>>().join(", ")),
            };
            if g.at_struct {
                struct_attrs.push(a);
            } else {
                field_attrs[*k].push(a);
            }
        }
        for (k, w) in &g.skipped {
            field_attrs[*k].push(format!("#[{an}({w})]"));
        }
    }
    fn derives(&self) -> Vec<&'static str> {
        let mut v = vec![];
        if let Some(l) = &self.deref {
            v.push("Deref");
            if l.with_mut {
                v.push("DerefMut");
            }
        }
        if let Some(l) = &self.index {
            v.push("Index");
            if l.with_mut {
                v.push("IndexMut");
            }
        }
        if self.iter.is_some() {
            v.push("IntoIterator");
        }
        if self.as_ref.is_some() {
            v.push("AsRef");
        }
        if self.as_mut.is_some() {
            v.push("AsMut");
        }
        v
    }
    fn item(&self, with_derives: bool) -> String {
        let nf = self.tys.len();
        let mut sa: Vec<String> = vec![];
        let mut fa: Vec<Vec<String>> = vec![vec![]; nf];
        if with_derives {
            if let Some(l) = &self.deref {
                self.legacy_attrs(l, "deref", &mut sa, &mut fa);
                if l.with_mut {
                    self.legacy_attrs(l, "deref_mut", &mut sa, &mut fa);
                }
            }
            if let Some(l) = &self.index {
                self.legacy_attrs(l, "index", &mut sa, &mut fa);
                if l.with_mut {
                    self.legacy_attrs(l, "index_mut", &mut sa, &mut fa);
                }
            }
            if let Some(l) = &self.iter {
                self.legacy_attrs(l, "into_iterator", &mut sa, &mut fa);
            }
            if let Some(g) = &self.as_ref {
                self.as_attrs(g, "as_ref", &mut sa, &mut fa);
            }
            if let Some(g) = &self.as_mut {
                self.as_attrs(g, "as_mut", &mut sa, &mut fa);
            }
        }
        let mut s = String::new();
        // `&mut` fields are not `Clone`; std's derives do not bound `<Q as Tr>::A` (nothing in `run` needs them)
        let std_derives = if self.params() & 4 != 0 {
            ""
        } else if self.tys.contains(&TY_MUT_REF) {
            "Debug, "
        } else {
            "Debug, Clone, "
        };
        if with_derives {
            let ds: Vec<String> = self.derives().iter().map(|x| format!("derive_more::{x}")).collect();
            s.push_str(&format!("#[derive({std_derives}{})]\n", ds.join(", ")));
        } else if !std_derives.is_empty() {
            s.push_str(&format!("#[derive({})]\n", std_derives.trim_end_matches(", ")));
        }
        for a in &sa {
            s.push_str(a);
            s.push('\n');
        }
        let (g, _, _, wh) = self.generics();
        let fld = |k: usize| {
            let attrs: String = fa[k].iter().map(|a| format!("{a} ")).collect();
            if self.named {
                format!("    {attrs}pub {}: {},\n", self.names[k], TYS[self.tys[k]].decl)
            } else {
                format!("    {attrs}pub {},\n", TYS[self.tys[k]].decl)
            }
        };
        let fields: String = (0..nf).map(fld).collect();
        if self.named {
            s.push_str(&format!("pub struct S{g}{wh} {{\n{fields}}}\n"));
        } else {
            s.push_str(&format!("pub struct S{g}(\n{fields}){wh};\n"));
        }
        s
    }
    fn support(&self) -> String {
        let nf = self.tys.len();
        let vals: Vec<String> = (0..nf).map(|k| value_of(self.tys[k], k)).collect();
        let ctor = if self.named {
            format!("S {{ {} }}", (0..nf).map(|k| format!("{}: {}", self.names[k], vals[k])).collect::<Vec<_>>().join(", "))
        } else {
            format!("S({})", vals.join(", "))
        };
        let (_, _, inst, _) = self.generics();
        let sc = format!("S{inst}");
        format!(
            "pub type SC = {sc};\npub fn mk() -> SC {{ {ctor} }}\npub fn flds(s: &SC) -> Vec<(usize, usize)> {{ vec![{}] }}\n",
            (0..nf).map(|k| format!("id(&s.{})", self.names[k])).collect::<Vec<_>>().join(", ")
        )
    }
}

/// reference kinds of the `IntoIterator` impls the expansion of the same tree declares
fn discover_iter_kinds(item: &str) -> Vec<usize> {
    let mut out = vec![];
    let Ok(di) = syn::parse_str::<syn::DeriveInput>(item) else { return out };
    let Some(d) = dm::Derive::by_name("IntoIterator") else { return out };
    let dm::Outcome::Ok(ts) = dm::expand(d, &di) else { return out };
    let Ok(impls) = tok::impls(&ts) else { return out };
    for imp in impls {
        let k = match &*imp.self_ty {
            syn::Type::Reference(r) if r.mutability.is_some() => 2,
            syn::Type::Reference(_) => 1,
            _ => 0,
        };
        if !out.contains(&k) {
            out.push(k);
        }
    }
    out
}

fn build(d: &mut Dice) -> GenCase {
    let m = gen_model(d);
    render(&m)
}

fn render(m: &Model) -> GenCase {
    let item = m.item(true);
    let mut run = String::new();
    let mut labels: Vec<String> = m.derives().iter().map(|x| format!("derive={x}")).collect();
    let nf = m.tys.len();
    let f = |k: usize| m.names[k].clone();
    let ft = |k: usize| TYS[m.tys[k]].inst;
    let mut any_forward = false;
    let mut any_list = false;
    let mut selected: Vec<usize> = vec![];
    // user impls that collide with an impl the derive must *not* generate
    let mut probes = String::new();

    if let Some(l) = &m.deref {
        let (k, fk, t) = (l.sel, f(l.sel), ft(l.sel));
        selected.push(k);
        if l.mark_too {
            labels.push("struct_level_args_with_bare_field_marker".into());
        }
        if l.forward {
            any_forward = true;
            labels.push("deref_forward".into());
            if m.tys[k] == TY_MUT_REF && l.with_mut {
                labels.push("deref_mut_forward_through_mut_ref".into());
            }
            run.push_str(&format!(
                "    {{\n        let s = mk();\n        ckid(o, \"Deref with forward returns what the selected field's own Deref returns\", id(<{t} as std::ops::Deref>::deref(&s.{fk})), id(&*s), &flds(&s));\n    }}\n"
            ));
            if l.with_mut {
                run.push_str(&format!(
                    "    {{\n        let mut s = mk();\n        let got = id(&mut *s);\n        let exp = id(<{t} as std::ops::DerefMut>::deref_mut(&mut s.{fk}));\n        ckid(o, \"DerefMut with forward returns what the selected field's own DerefMut returns\", exp, got, &flds(&s));\n    }}\n"
                ));
            }
        } else {
            run.push_str(&format!(
                "    {{\n        let s = mk();\n        let r: &{t} = &*s;\n        ckid(o, \"Deref without forward returns the selected field's own storage\", id(&s.{fk}), id(r), &flds(&s));\n    }}\n"
            ));
            if l.with_mut {
                let (w, c) = write_probe(m.tys[k], &fk);
                run.push_str(&format!(
                    "    {{\n        let mut s = mk();\n        let got = id(&mut *s);\n        ckid(o, \"DerefMut without forward returns the selected field's own storage\", id(&s.{fk}), got, &flds(&s));\n        {{ let r: &mut {t} = &mut *s; {w} }}\n        o.check(\"a write through DerefMut is visible in the selected field\", {c});\n    }}\n"
                ));
            }
        }
    }
    if let Some(l) = &m.index {
        let (k, fk, t) = (l.sel, f(l.sel), ft(l.sel));
        selected.push(k);
        let e = TYS[m.tys[k]].elem;
        let idxs: Vec<(&str, &str)> = if m.tys[k] == 2 { vec![("usize", "1usize"), ("std::ops::Range<usize>", "0..2")] } else { vec![("usize", "1usize"), ("Key", "Key(0)")] };
        for (it, iv) in idxs {
            run.push_str(&format!(
                "    {{\n        let s = mk();\n        ckid(o, \"Index returns what the selected field's own Index returns\", id(<{t} as std::ops::Index<{it}>>::index(&s.{fk}, {iv})), id(&s[{iv}]), &flds(&s));\n    }}\n"
            ));
            if l.with_mut {
                run.push_str(&format!(
                    "    {{\n        let mut s = mk();\n        let got = id(&mut s[{iv}]);\n        let exp = id(<{t} as std::ops::IndexMut<{it}>>::index_mut(&mut s.{fk}, {iv}));\n        ckid(o, \"IndexMut returns what the selected field's own IndexMut returns\", exp, got, &flds(&s));\n    }}\n"
                ));
            }
        }
        if l.with_mut {
            run.push_str(&format!(
                "    {{\n        let mut s = mk();\n        s[1usize] = {e}(4242);\n        o.check(\"a write through IndexMut is visible through the selected field's own Index\", <{t} as std::ops::Index<usize>>::index(&s.{fk}, 1usize) == &{e}(4242));\n    }}\n"
            ));
        }
    }
    let mut iter_extra = false;
    if let Some(l) = &m.iter {
        let (k, fk, t) = (l.sel, f(l.sel), ft(l.sel));
        selected.push(k);
        if l.mark_too {
            labels.push("struct_level_args_with_bare_field_marker".into());
        }
        let expected: Vec<usize> = if l.kinds.is_empty() { vec![0] } else { l.kinds.clone() };
        let found = discover_iter_kinds(&item);
        // tests/into_iterator.rs (`Numbers3`): "`owned` is not enabled when `ref`/`ref_mut` are enabled without `owned`".
        // A user impl for the struct itself collides (E0119) iff the derive generated the owned form anyway.
        let first_attributed_is_sel = l.mark || l.sel == 0;
        let owned_must_be_absent = l.kinds == vec![1, 2] && !l.at_struct && (first_attributed_is_sel || !AVOID_ITER_OWNED_ABSENCE_AFTER_IGNORED_FIELD);
        if owned_must_be_absent {
            let (gd, ga, _, wh) = m.generics();
            probes.push_str(&format!(
                "impl{gd} IntoIterator for S{ga}{wh} {{ type Item = (); type IntoIter = std::iter::Empty<()>; fn into_iter(self) -> Self::IntoIter {{ std::iter::empty() }} }}\n"
            ));
            labels.push("absence_probe_iter_owned".into());
        }
        run.push_str("    let mut forms: Vec<String> = vec![];\n");
        for kind in 0..3 {
            if !expected.contains(&kind) && !found.contains(&kind) {
                continue;
            }
            if kind == 0 && owned_must_be_absent {
                // (`<SC as IntoIterator>` is the probe's impl here; a generated one is a compile error)
                continue;
            }
            if !expected.contains(&kind) {
                iter_extra = true;
            }
            if !expected.contains(&kind) && kind != 0 {
                // into_iterator.md: the reference forms exist for the kinds the attribute lists ("You can pick any
                // combination of `owned`, `ref` and `ref_mut`"); one that is not listed is unrequested extra API. (The owned
                // form next to a lone reference kind is the recorded deviation and not judged.)
                run.push_str(&format!(
                    "    o.fail(\"IntoIterator for {}S exists although `{}` is not listed\", \"no such impl\", \"generated\");\n",
                    ["", "&", "&mut "][kind],
                    ["owned", "ref", "ref_mut"][kind]
                ));
            }
            match kind {
                0 => run.push_str(&format!(
                    "    {{\n        let got: Vec<_> = <SC as IntoIterator>::into_iter(mk()).collect();\n        let exp: Vec<_> = <{t} as IntoIterator>::into_iter(mk().{fk}).collect();\n        o.eq(\"owned iteration yields the elements of the selected field's own into_iter() in the same order\", &format!(\"{{exp:?}}\"), &format!(\"{{got:?}}\"));\n        o.check(\"owned iteration is not empty\", got.len() == 3);\n        forms.push(format!(\"{{got:?}}\"));\n    }}\n"
                )),
                1 => run.push_str(&format!(
                    "    {{\n        let s = mk();\n        let got: Vec<_> = <&SC as IntoIterator>::into_iter(&s).map(|x| id(x)).collect();\n        let exp: Vec<_> = <&{t} as IntoIterator>::into_iter(&s.{fk}).map(|x| id(x)).collect();\n        o.eq(\"shared iteration yields the very elements of the selected field's own (&field).into_iter() in the same order\", &format!(\"{{exp:?}}\"), &format!(\"{{got:?}}\"));\n        o.check(\"shared iteration is not empty\", got.len() == 3);\n        forms.push(format!(\"{{:?}}\", <&SC as IntoIterator>::into_iter(&s).collect::<Vec<_>>()));\n    }}\n"
                )),
                _ => run.push_str(&format!(
                    "    {{\n        let mut s = mk();\n        let got: Vec<_> = <&mut SC as IntoIterator>::into_iter(&mut s).map(|x| id(&*x)).collect();\n        let exp: Vec<_> = <&mut {t} as IntoIterator>::into_iter(&mut s.{fk}).map(|x| id(&*x)).collect();\n        o.eq(\"mutable iteration yields the very elements of the selected field's own (&mut field).into_iter() in the same order\", &format!(\"{{exp:?}}\"), &format!(\"{{got:?}}\"));\n        o.check(\"mutable iteration is not empty\", got.len() == 3);\n        forms.push(format!(\"{{:?}}\", <&mut SC as IntoIterator>::into_iter(&mut s).collect::<Vec<_>>()));\n    }}\n"
                )),
            }
        }
        run.push_str("    for w in forms.windows(2) {\n        o.eq(\"the owned, shared and mutable iteration forms visit the same elements in the same order\", &w[0], &w[1]);\n    }\n");
        if expected.len() + usize::from(iter_extra) >= 2 || found.len() >= 2 {
            labels.push("into_iterator_several_forms".into());
        }
    }
    for (g, mutable) in [(&m.as_ref, false), (&m.as_mut, true)] {
        let Some(g) = g else { continue };
        let tr = if mutable { "AsMut" } else { "AsRef" };
        let meth = if mutable { "as_mut" } else { "as_ref" };
        if !g.skipped.is_empty() {
            labels.push("as_skip_style".into());
        }
        {
            // "An implementation will be generated for each indicated field" / "for non-indicated fields" (skip style):
            // none for the others. A user impl `AsRef<OtherFieldTy>` collides (E0119) iff the derive generated one anyway.
            // Only where no generated impl can unify with it: no blanket (`forward`) impl, nothing mentioning a type parameter.
            let tgen = |k: usize| TYS[m.tys[k]].gen & 7 != 0;
            let blanket = g.entries.iter().any(|(_, c)| matches!(c, Conv::Forward));
            let generic_target = g.entries.iter().any(|(k, _)| tgen(*k));
            if !blanket && !generic_target {
                let mut taken: Vec<String> = vec![];
                for (k, c) in &g.entries {
                    match c {
                        Conv::Types(l) => taken.extend(l.iter().map(|x| x.1.clone())),
                        _ => taken.push(ft(*k).to_string()),
                    }
                }
                let (gd, ga, _, wh) = m.generics();
                for k in 0..nf {
                    if g.entries.iter().any(|(j, _)| *j == k) || tgen(k) || taken.iter().any(|t| t == ft(k)) {
                        continue;
                    }
                    taken.push(ft(k).to_string());
                    let x = TYS[m.tys[k]].decl;
                    let mt = if mutable { "mut " } else { "" };
                    probes.push_str(&format!("impl{gd} {tr}<{x}> for S{ga}{wh} {{ fn {meth}(&{mt}self) -> &{mt}{x} {{ loop {{}} }} }}\n"));
                    labels.push("absence_probe_as".into());
                }
            }
        }
        for (k, c) in &g.entries {
            let (k, fk, t) = (*k, f(*k), ft(*k));
            selected.push(k);
            // (target type, must be the field itself)
            let targets: Vec<(String, bool)> = match c {
                Conv::Plain | Conv::Bare => vec![(t.to_string(), true)],
                Conv::Forward => {
                    any_forward = true;
                    labels.push("as_forward".into());
                    let ty = &TYS[m.tys[k]];
                    let mut v: Vec<(String, bool)> = ty.foreign.iter().map(|x| (x.1.to_string(), false)).collect();
                    if m.tys[k] != 4 {
                        // Own<T>: AsRef<Own<T>> (the twin), Vec<A>: AsRef<Vec<A>>
                        v.push((t.to_string(), false));
                    }
                    v
                }
                Conv::Types(l) => {
                    any_list = true;
                    for x in l {
                        match m.tys[k] {
                            8 => labels.push("as_list_on_bare_type_param_field".into()),
                            9 | 10 => labels.push("as_list_on_assoc_type_field".into()),
                            11 | 12 => labels.push("as_list_on_lifetime_or_const_generic_field".into()),
                            14 => labels.push("as_list_on_field_with_const_as_array_length".into()),
                            _ => {}
                        }
                        if matches!(m.tys[k], 11 | 12 | 14) && x.1 == t && !x.2 {
                            labels.push("as_list_lifetime_or_const_generic_other_spelling".into());
                        }
                        if x.1 == t && x.2 && x.0 != TYS[m.tys[k]].decl {
                            labels.push("as_list_field_type_via_alias_or_path".into());
                        } else if x.1 == t && x.2 {
                            labels.push("as_list_field_type_verbatim".into());
                        } else if x.1 == t {
                            labels.push("as_list_generic_field_type_other_spelling".into());
                        } else {
                            labels.push("as_list_foreign_type".into());
                        }
                    }
                    l.iter().map(|x| (x.1.clone(), x.2)).collect()
                }
            };
            for (x, itself) in targets {
                let (exp_ref, exp_mut, what) = if itself {
                    (format!("id(&s.{fk})"), format!("id(&s.{fk})"), format!("{tr}<field type> returns the selected field's own storage"))
                } else {
                    (
                        format!("id(<{t} as AsRef<{x}>>::as_ref(&s.{fk}))"),
                        format!("id(<{t} as AsMut<{x}>>::as_mut(&mut s.{fk}))"),
                        format!("{tr}<X> (forward / listed X) returns what the selected field's own {tr}<X> returns"),
                    )
                };
                if !mutable {
                    run.push_str(&format!(
                        "    {{\n        let s = mk();\n        let r: &{x} = <SC as AsRef<{x}>>::{meth}(&s);\n        ckid(o, {what:?}, {exp_ref}, id(r), &flds(&s));\n    }}\n"
                    ));
                } else {
                    run.push_str(&format!(
                        "    {{\n        let mut s = mk();\n        let got = id(<SC as AsMut<{x}>>::{meth}(&mut s));\n        let exp = {exp_mut};\n        ckid(o, {what:?}, exp, got, &flds(&s));\n"
                    ));
                    if itself {
                        let (w, cnd) = write_probe(m.tys[k], &fk);
                        run.push_str(&format!(
                            "        {{ let r: &mut {x} = <SC as AsMut<{x}>>::{meth}(&mut s); {w} }}\n        o.check(\"a write through AsMut<field type> is visible in the selected field\", {cnd});\n"
                        ));
                    }
                    run.push_str("    }\n");
                }
            }
        }
    }

    let mut body = String::new();
    body.push_str(&item);
    body.push_str(&m.support());
    body.push_str(&probes);
    body.push_str(&format!("#[allow(unused_mut)]\npub fn run(o: &mut Out) {{\n{run}}}\n"));

    let same_type_neighbours = (1..nf).any(|k| m.tys[k] == m.tys[k - 1]);
    let equal_types = (0..nf).any(|i| (0..i).any(|j| m.tys[i] == m.tys[j]));
    let sel_has_equal_neighbour = selected.iter().any(|k| (0..nf).any(|j| j != *k && m.tys[j] == m.tys[*k]));
    if same_type_neighbours {
        labels.push("neighbouring_fields_same_type".into());
    }
    if sel_has_equal_neighbour {
        labels.push("selected_field_has_equal_typed_sibling".into());
    }
    if selected.iter().any(|k| *k > 0) {
        labels.push("selected_not_first".into());
    }
    {
        let mut s = selected.clone();
        s.sort();
        s.dedup();
        if s.len() >= 2 {
            labels.push("derives_select_different_fields".into());
        }
    }
    if nf == 1 {
        labels.push("single_field".into());
    }
    for k in &selected {
        match m.tys[*k] {
            8 => labels.push("selected_bare_type_param_field".into()),
            9 | 10 => labels.push("selected_assoc_type_field".into()),
            11 => labels.push("selected_lifetime_generic_field".into()),
            12 => labels.push("selected_const_generic_field".into()),
            14 => labels.push("selected_field_with_const_as_array_length".into()),
            13 => labels.push("selected_mut_ref_field".into()),
            15 => labels.push("selected_ref_to_generic_non_deref_field".into()),
            _ => {}
        }
    }
    let p = m.params();
    if p & 8 != 0 {
        labels.push("struct_lifetime_param".into());
    }
    if p & 16 != 0 {
        labels.push("struct_const_param".into());
    }
    if p.count_ones() >= 2 {
        labels.push("struct_several_generic_params".into());
    }
    match m.bound_style {
        1 => labels.push("struct_inline_bounds".into()),
        2 => labels.push("struct_where_clause".into()),
        _ => {}
    }
    if m.generic() {
        labels.push("generic".into());
    }
    if m.named {
        labels.push("named_struct".into());
    }
    if any_forward {
        labels.push("forward".into());
    }
    if any_list {
        labels.push("type_list".into());
    }
    for l in [&m.deref, &m.index, &m.iter].into_iter().flatten() {
        if !l.mark {
            labels.push("ignore_the_others_style".into());
        }
        if l.at_struct {
            labels.push("struct_level_attribute".into());
        }
    }
    if iter_extra {
        labels.push("into_iterator_form_read_from_expansion".into());
    }
    labels.sort();
    labels.dedup();
    let mut c = GenCase::new(body);
    c.labels = labels;
    c.nontrivial = equal_types || any_forward || any_list;
    c.control = Some(format!("{}{}", m.item(false), m.support()));
    c.meta = json!({"fields": nf});
    c
}

fn classify(_c: &GenCase, _r: &CaseResult, _f: &Finding) -> Option<String> {
    None
}

pub fn prop() -> DiceProp {
    DiceProp {
        crate_name: "gen_c14",
        prelude: PRELUDE.to_string(),
        crate_attrs: String::new(),
        nightly: false,
        check_only: false,
        ndice: 200,
        quick: (2500, 1),
        thorough: (1800, 6),
        build,
        fixed: no_fixed,
        classify,
        rule: "tuple / named struct with 1..4 fields (65 % of the neighbours repeat the previous field's type; types `Own<A>`, `Own<B>`, `Own<T>`, `Vec<A>`, `Box<Own<A>>`, `&'static Own<A>`, a bare parameter `V`, projections `Q::A` / `<Q as Tr>::A`, `OwnL<'a>`, `OwnN<N>`, `OwnG<[u8; N]>` (const parameter only as an array length), `&'a mut Own<A>`, fillers; the struct's lifetime / type / const parameters as the fields need them, optionally with inline bounds or a where-clause) deriving a subset of Deref(+DerefMut), Index(+IndexMut), IntoIterator, AsRef, AsMut, each with its own selected field expressed by `#[attr]` on it or `#[attr(ignore)]` on the others (AsRef/AsMut: marked fields, skip style), `forward` on field or struct (struct-level arguments also together with a bare `#[attr]` marker on the selected field), type lists containing the field's own type verbatim / through an alias / through another path and foreign types, owned/ref/ref_mut; oracle: (address, size) of what the derived impl returns == the selected field's own storage (no forward; listed type == field type) resp. == what `<FieldTy as Trait>::method(&s.field)` returns (forward, index, listed foreign type), element addresses/values and order for the three iteration forms, writes through the mutable forms visible in the field; user impls that collide (E0119) with an impl the derive must not generate (AsRef/AsMut of un-indicated / skipped fields, owned IntoIterator under a field-level `ref, ref_mut`); `Own`'s own impls answer from a second allocation so the two expectations never coincide; non-trivial = two fields of equal type, or forward, or a type list; distinct by program text".into(),
        assumptions: vec![
            "a reference form of IntoIterator (`&S`, `&mut S`) that the attribute does not list is a violation; the *owned* form next to reference kinds (e.g. `owned` next to a lone `ref`) is checked when present but its existence is not judged, its absence is asserted only for a field-level `ref, ref_mut` (tests/into_iterator.rs `Numbers3`)".into(),
            "absence probes for AsRef/AsMut are emitted only where no generated impl can unify with the probe (no `forward`, no type parameter in a selected field's type)".into(),
            "AVOID_ASSOC_SHORTHAND_FOREIGN_LIST / AVOID_ITER_OWNED_ABSENCE_AFTER_IGNORED_FIELD: two reported deviations are kept out of the generated domain until repaired (see the constants)".into(),
        ],
        floors: vec![
            ("neighbouring_fields_same_type".into(), 0.4),
            ("selected_field_has_equal_typed_sibling".into(), 0.4),
            ("selected_not_first".into(), 0.3),
            ("forward".into(), 0.2),
            ("type_list".into(), 0.2),
            ("as_list_field_type_via_alias_or_path".into(), 0.08),
            ("as_list_field_type_verbatim".into(), 0.05),
            ("as_list_foreign_type".into(), 0.15),
            ("generic".into(), 0.15),
            ("ignore_the_others_style".into(), 0.15),
            ("into_iterator_several_forms".into(), 0.1),
            ("selected_assoc_type_field".into(), 0.05),
            ("selected_bare_type_param_field".into(), 0.03),
            ("selected_lifetime_generic_field".into(), 0.03),
            ("selected_const_generic_field".into(), 0.03),
            ("selected_mut_ref_field".into(), 0.01),
            ("as_list_on_lifetime_or_const_generic_field".into(), 0.02),
            ("struct_where_clause".into(), 0.05),
            ("struct_inline_bounds".into(), 0.05),
            ("absence_probe_as".into(), 0.05),
            ("absence_probe_iter_owned".into(), 0.02),
            ("derive=Deref".into(), 0.3),
            ("derive=DerefMut".into(), 0.2),
            ("derive=Index".into(), 0.3),
            ("derive=IndexMut".into(), 0.2),
            ("derive=IntoIterator".into(), 0.3),
            ("derive=AsRef".into(), 0.3),
            ("derive=AsMut".into(), 0.3),
        ],
        shards: 0,
    }
}

pub fn run(ctx: &super::core::Ctx) -> super::core::Report {
    super::progprop::run(&prop(), ctx)
}

pub fn replay(ctx: &super::core::Ctx, case: &serde_json::Value) -> super::core::Report {
    super::progprop::replay(&prop(), ctx, case)
}

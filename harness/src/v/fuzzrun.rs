//! Engine E3: coverage-guided libFuzzer campaigns (thorough tier) over the three hand-written parsers/scanners and
//! the expanders. The targets live in `/verif/fuzz` and link this crate, so the oracle inside a target is the very
//! function the in-process check uses; a crashing input is re-evaluated in-process to become a normal Violation.
use super::core::*;
use std::path::PathBuf;
use std::process::Command;
use std::sync::OnceLock;

static KNOWN: OnceLock<Vec<String>> = OnceLock::new();

fn known_sigs() -> &'static Vec<String> {
    KNOWN.get_or_init(|| {
        let dir = PathBuf::from(std::env::var("DMV_VERIF").unwrap_or_else(|_| "/verif".into()));
        load_known(&dir).unwrap_or_default().into_iter().filter(|k| k.status == "known").map(|k| k.signature).collect()
    })
}

/// (fuzz targets) is this signature a recorded, not repaired finding?
pub fn is_known_sig(sig: &str) -> bool {
    known_sigs().iter().any(|k| k == sig)
}

/// like `is_known_sig`, accepting `a+b` combinations whose members are all known
pub fn is_known_sig_or_combo(sig: &str) -> bool {
    sig.split('+').all(is_known_sig)
}

pub struct Campaign {
    pub target: String,
    pub runs: u64,
    pub crashes: Vec<Vec<u8>>,
    /// per element of `crashes`: the artifact kind (`crash`, `timeout`, `oom`)
    pub kinds: Vec<String>,
    pub corpus_files: usize,
    pub log_tail: String,
}

/// Runs `cargo +nightly fuzz run <target>` in `$DMV_WORK/fuzz` for `secs` seconds with `jobs` processes, starting from
/// the committed corpus (if any) copied to a fresh directory.
pub fn run_campaign(ctx: &Ctx, target: &str, secs: u64, jobs: usize, from_empty: bool) -> Result<Campaign, String> {
    let fdir = ctx.work_dir.join("fuzz");
    if !fdir.join("Cargo.toml").exists() {
        return Err(format!("{} missing (the check script copies /verif/fuzz there)", fdir.display()));
    }
    let corpus = ctx.work_dir.join(format!("fuzz-corpus-{target}{}", if from_empty { "-empty" } else { "" }));
    let _ = std::fs::remove_dir_all(&corpus);
    std::fs::create_dir_all(&corpus).map_err(|e| e.to_string())?;
    let mut corpus_files = 0;
    if !from_empty {
        let seed_dir = ctx.verif_dir.join("corpus").join(match target {
            "fmt_literal" => "fmt_literal",
            "expr_split" => "expr_split",
            _ => "expand_dice",
        });
        if let Ok(rd) = std::fs::read_dir(seed_dir) {
            for e in rd.flatten() {
                if std::fs::copy(e.path(), corpus.join(e.file_name())).is_ok() {
                    corpus_files += 1;
                }
            }
        }
    }
    let artifacts = fdir.join("artifacts").join(target);
    let _ = std::fs::remove_dir_all(&artifacts);
    let seed = if ctx.seed == 0 { 1 } else { ctx.seed % 0x7fff_ffff };
    let lib = std::env::var("DMV_NIGHTLY_LIB").unwrap_or_default();
    let out = Command::new("cargo")
        .current_dir(&ctx.work_dir)
        .args(["+nightly", "fuzz", "run", "--fuzz-dir"])
        .arg(&fdir)
        .arg("--target-dir")
        .arg(ctx.work_dir.join("tgt-fuzz"))
        .arg(target)
        .arg(&corpus)
        .arg("--")
        .arg(format!("-seed={seed}"))
        .arg(format!("-max_total_time={secs}"))
        .arg("-len_control=0")
        .arg("-max_len=512")
        .arg("-timeout=20")
        .arg(format!("-jobs={jobs}"))
        .arg(format!("-workers={jobs}"))
        .arg("-print_final_stats=1")
        .env("CARGO_NET_OFFLINE", "true")
        .env("LD_LIBRARY_PATH", lib)
        .env("DMV_MIRROR", &ctx.mirror)
        .env("DMV_VERIF", &ctx.verif_dir)
        .output()
        .map_err(|e| format!("cargo fuzz: {e}"))?;
    let text = format!("{}{}", String::from_utf8_lossy(&out.stdout), String::from_utf8_lossy(&out.stderr));
    // with -jobs the statistics go to fuzz-N.log files in the fuzz dir
    let mut runs = 0u64;
    let mut all = text.clone();
    if let Ok(rd) = std::fs::read_dir(&fdir) {
        for e in rd.flatten() {
            let n = e.file_name().to_string_lossy().to_string();
            if n.starts_with("fuzz-") && n.ends_with(".log") {
                if let Ok(t) = std::fs::read_to_string(e.path()) {
                    all.push_str(&t);
                }
                let _ = std::fs::remove_file(e.path());
            }
        }
    }
    for l in all.lines() {
        if let Some(r) = l.strip_prefix("stat::number_of_executed_units:") {
            runs += r.trim().parse::<u64>().unwrap_or(0);
        }
    }
    let mut crashes = vec![];
    let mut kinds = vec![];
    if let Ok(rd) = std::fs::read_dir(&artifacts) {
        for e in rd.flatten() {
            let n = e.file_name().to_string_lossy().to_string();
            if n.starts_with("crash-") || n.starts_with("timeout-") || n.starts_with("oom-") {
                if let Ok(b) = std::fs::read(e.path()) {
                    crashes.push(b);
                    kinds.push(n.split('-').next().unwrap_or("crash").to_string());
                }
            }
        }
    }
    if runs == 0 && crashes.is_empty() && !out.status.success() {
        return Err(format!("cargo fuzz failed: {}", text.chars().rev().take(1500).collect::<String>().chars().rev().collect::<String>()));
    }
    let tail: String = all.lines().rev().take(6).collect::<Vec<_>>().join(" | ");
    Ok(Campaign { target: target.to_string(), runs, crashes, kinds, corpus_files, log_tail: tail })
}

//! Property dispatch.
use super::core::{Ctx, Report};
use serde_json::Value;

pub fn run(ctx: &Ctx) -> Option<Report> {
    Some(match ctx.property.as_str() {
        "C02" => super::progprop::run(&super::p02::prop(), ctx),
        "C03" => super::p03::run(ctx),
        _ => return None,
    })
}

pub fn replay(ctx: &Ctx, case: &Value) -> Option<Report> {
    Some(match ctx.property.as_str() {
        "C02" => super::progprop::replay(&super::p02::prop(), ctx, case),
        "C03" => super::p03::replay(ctx, case),
        _ => return None,
    })
}

//! Property dispatch.
use super::core::{Ctx, Report};
use serde_json::Value;

pub fn run(ctx: &Ctx) -> Option<Report> {
    Some(match ctx.property.as_str() {
        "C01" => super::p01::run(ctx),
        "C02" => super::progprop::run(&super::p02::prop(), ctx),
        "C03" => super::p03::run(ctx),
        "C04" => super::p04::run(ctx),
        "C05" => super::p05::run(ctx),
        "C06" => super::p06::run(ctx),
        "C07" => super::p07::run(ctx),
        "C08" => super::p08::run(ctx),
        "C09" => super::p09::run(ctx),
        "C10" => super::p10::run(ctx),
        "C11" => super::p11::run(ctx),
        "C12" => super::p12::run(ctx),
        "C13" => super::p13::run(ctx),
        "C14" => super::p14::run(ctx),
        "C15" => super::p15::run(ctx),
        "C16" => super::p16::run(ctx),
        "C17" => super::p17::run(ctx),
        "C18" => super::p18::run(ctx),
        "C19" => super::p19::run(ctx),
        "C20" => super::p20::run(ctx),
        _ => return None,
    })
}

pub fn replay(ctx: &Ctx, case: &Value) -> Option<Report> {
    Some(match ctx.property.as_str() {
        "C01" => super::p01::replay(ctx, case),
        "C02" => super::progprop::replay(&super::p02::prop(), ctx, case),
        "C03" => super::p03::replay(ctx, case),
        "C04" => super::p04::replay(ctx, case),
        "C05" => super::p05::replay(ctx, case),
        "C06" => super::p06::replay(ctx, case),
        "C07" => super::p07::replay(ctx, case),
        "C08" => super::p08::replay(ctx, case),
        "C09" => super::p09::replay(ctx, case),
        "C10" => super::p10::replay(ctx, case),
        "C11" => super::p11::replay(ctx, case),
        "C12" => super::p12::replay(ctx, case),
        "C13" => super::p13::replay(ctx, case),
        "C14" => super::p14::replay(ctx, case),
        "C15" => super::p15::replay(ctx, case),
        "C16" => super::p16::replay(ctx, case),
        "C17" => super::p17::replay(ctx, case),
        "C18" => super::p18::replay(ctx, case),
        "C19" => super::p19::replay(ctx, case),
        "C20" => super::p20::replay(ctx, case),
        _ => return None,
    })
}

//! Property dispatch.
use super::core::{Ctx, Report};
use serde_json::Value;

pub fn run(ctx: &Ctx) -> Option<Report> {
    Some(match ctx.property.as_str() {
        "C02" => super::progprop::run(&super::p02::prop(), ctx),
        "C03" => super::p03::run(ctx),
        "C05" => super::progprop::run(&super::p05::prop(), ctx),
        "C06" => super::progprop::run(&super::p06::prop(), ctx),
        "C07" => super::progprop::run(&super::p07::prop(), ctx),
        "C08" => super::progprop::run(&super::p08::prop(), ctx),
        "C09" => super::progprop::run(&super::p09::prop(), ctx),
        "C10" => super::progprop::run(&super::p10::prop(), ctx),
        "C11" => super::progprop::run(&super::p11::prop(), ctx),
        "C12" => super::progprop::run(&super::p12::prop(), ctx),
        "C13" => super::progprop::run(&super::p13::prop(), ctx),
        "C14" => super::progprop::run(&super::p14::prop(), ctx),
        _ => return None,
    })
}

pub fn replay(ctx: &Ctx, case: &Value) -> Option<Report> {
    Some(match ctx.property.as_str() {
        "C02" => super::progprop::replay(&super::p02::prop(), ctx, case),
        "C03" => super::p03::replay(ctx, case),
        "C05" => super::progprop::replay(&super::p05::prop(), ctx, case),
        "C06" => super::progprop::replay(&super::p06::prop(), ctx, case),
        "C07" => super::progprop::replay(&super::p07::prop(), ctx, case),
        "C08" => super::progprop::replay(&super::p08::prop(), ctx, case),
        "C09" => super::progprop::replay(&super::p09::prop(), ctx, case),
        "C10" => super::progprop::replay(&super::p10::prop(), ctx, case),
        "C11" => super::progprop::replay(&super::p11::prop(), ctx, case),
        "C12" => super::progprop::replay(&super::p12::prop(), ctx, case),
        "C13" => super::progprop::replay(&super::p13::prop(), ctx, case),
        "C14" => super::progprop::replay(&super::p14::prop(), ctx, case),
        _ => return None,
    })
}

//! C11 — variant accessors (IsVariant / Unwrap / TryUnwrap / TryInto) agree with the value's variant and
//! never lose data; names are snake_case of the variant.
//!
//! Every case is one enum deriving a subset of the four derives plus a `run` that evaluates the FULL
//! table (one value per variant) x (every generated accessor) against hand-written `match`es:
//! owned forms compare values, `_ref`/`_mut` forms compare addresses, panics are caught, errors must
//! carry the unchanged input. Accessors are called by their expected snake_case name.
//!
//! *Which* accessors exist is asserted (by calling them, resp. by defining a colliding item for the ones that
//! must be absent) only where impl/doc/*.md is unambiguous; everything else that the in-process expansion
//! of the same tree shows (`pub fn` names, `TryFrom` impl headers) is checked as well.
use super::dm;
use super::progprop::*;
use super::proggen::CaseResult;
use super::tok;
use serde_json::json;
use std::collections::BTreeSet;

pub const PRELUDE: &str = r#"
#[derive(Debug, Clone, PartialEq)] pub struct A(pub u32);
#[derive(Debug, Clone, PartialEq)] pub struct B(pub u32);
#[derive(Debug, Clone, PartialEq)] pub struct C(pub u32);
#[derive(Debug, Clone, PartialEq)] pub struct D(pub u64);
#[derive(Debug, Clone, PartialEq)] pub struct W<T>(pub T, pub u8);
// a second type called `A`, in a module of its own: `A` and `sub::A` are different TryInto targets (seed C11-k)
pub mod sub { #[derive(Debug, Clone, PartialEq)] pub struct A(pub u32); }
pub fn lk(n: u32) -> &'static A { Box::leak(Box::new(A(n))) }
pub fn addr<T>(r: &T) -> usize { r as *const T as usize }
pub fn ck(o: &mut Out, what: &str, i: usize, exp: String, got: String) {
    o.eq(what, &format!("value #{i}: {exp}"), &format!("value #{i}: {got}"));
}
"#;

const DERIVES: [&str; 4] = ["IsVariant", "Unwrap", "TryUnwrap", "TryInto"];
const ATTRS: [&str; 4] = ["is_variant", "unwrap", "try_unwrap", "try_into"];
const KINDS: [&str; 3] = ["owned", "ref", "ref_mut"];

/// Recorded genuine defect (reported, not repaired yet): unwrap.md / try_unwrap.md promise "you can put the
/// `#[unwrap(ref)]` attribute on the enum declaration **or that variant**, then `unwrap_foo_ref(..)` will be
/// generated", but a variant-level `ref`/`ref_mut` generates no reference accessor (impl/src/unwrap.rs,
/// `info.ref_ && state.default_info.ref_`) and switches the accessors of all un-annotated variants off
/// (impl/src/utils.rs `default_enabled`). While `true`, Unwrap/TryUnwrap get no variant-level owned/ref/ref_mut.
const AVOID_VARIANT_LEVEL_REF_UNWRAP: bool = true;

/// (declared type, type in the instantiation `EC`, generic parameters used: 1 = T, 2 = 'a, 4 = N, 8 = 'b)
const TYS: [(&str, &str, u8); 10] = [
    ("A", "A", 0),
    ("B", "B", 0),
    ("C", "C", 0),
    ("D", "D", 0),
    ("W<T>", "W<C>", 1),
    ("T", "C", 1),
    ("&'a A", "&'static A", 2),
    ("[A; N]", "[A; 2]", 4),
    ("&'b A", "&'static A", 8),
    ("sub::A", "sub::A", 0),
];

fn value_of(ty: usize, n: usize) -> String {
    match ty {
        0 => format!("A({n})"),
        1 => format!("B({n})"),
        2 => format!("C({n})"),
        3 => format!("D({n})"),
        4 => format!("W(C({n}), 7)"),
        5 => format!("C({n})"),
        6 | 8 => format!("lk({n})"),
        9 => format!("sub::A({n})"),
        _ => format!("[A({n}), A({})]", n + 100),
    }
}

#[derive(Clone, Debug)]
struct Fld {
    ty: usize,
    name: Option<String>,
    ti_ignore: bool,
}

#[derive(Clone, Copy, PartialEq, Debug)]
enum VK {
    Unit,
    Tuple,
    Named,
}

#[derive(Clone, Debug)]
struct Var {
    ident: String,
    plain: String,
    snake: String,
    kind: VK,
    fields: Vec<Fld>,
    ignore: [bool; 4],
    /// variant-level attribute arguments other than `ignore` (`""` = bare attribute)
    level: [Option<String>; 4],
}

impl Var {
    fn path(&self) -> String {
        format!("E::{}", self.ident)
    }
    /// pattern binding field `k` to `binds[k]` (`_` for None)
    fn pat(&self, binds: &[Option<String>]) -> String {
        let b = |k: usize| binds[k].clone().unwrap_or_else(|| "_".into());
        match self.kind {
            VK::Unit => self.path(),
            VK::Tuple => format!("{}({})", self.path(), (0..self.fields.len()).map(b).collect::<Vec<_>>().join(", ")),
            VK::Named => format!(
                "{} {{ {} }}",
                self.path(),
                self.fields.iter().enumerate().map(|(k, f)| format!("{}: {}", f.name.as_ref().unwrap(), b(k))).collect::<Vec<_>>().join(", ")
            ),
        }
    }
    fn all_binds(&self) -> Vec<Option<String>> {
        (0..self.fields.len()).map(|k| Some(format!("f{k}"))).collect()
    }
    fn ti_binds(&self) -> Vec<Option<String>> {
        self.fields.iter().enumerate().map(|(k, f)| if f.ti_ignore { None } else { Some(format!("f{k}")) }).collect()
    }
    /// declared types of the fields TryInto converts to
    fn ti_types(&self) -> Vec<usize> {
        self.fields.iter().filter(|f| !f.ti_ignore).map(|f| f.ty).collect()
    }
}

fn tuple_expr(names: &[String]) -> String {
    match names.len() {
        0 => "()".into(),
        1 => names[0].clone(),
        _ => format!("({})", names.join(", ")),
    }
}
fn addrs(names: &[String]) -> String {
    format!("Vec::<usize>::from([{}])", names.iter().map(|n| format!("addr({n})")).collect::<Vec<_>>().join(", "))
}
fn tpl(t: &str, subs: &[(&str, &str)]) -> String {
    let mut s = t.to_string();
    for (k, v) in subs {
        s = s.replace(k, v);
    }
    s
}

const WORDS: [&str; 10] = ["Foo", "Bar", "Http", "Request", "Id", "Version", "Two", "Ab", "Left", "Nothing"];
const EXTRA: [&str; 5] = ["Alpha", "Beta", "Gamma", "Delta", "Omega"];
const KEYWORDS: [&str; 4] = ["type", "match", "fn", "loop"];
/// names outside the `[A-Z][a-z]+` word scheme on whose snake_case every common convention agrees:
/// one-letter words, acronyms followed by a word, all-caps with underscores
const SPECIAL: [(&str, &str); 8] = [("A", "a"), ("Z", "z"), ("XRay", "x_ray"), ("IOError", "io_error"), ("HTTPRequest", "http_request"), ("FOO_BAR", "foo_bar"), ("ID", "id"), ("PlanB", "plan_b")];
const FIELD_NAMES: [&str; 4] = ["x", "r#type", "y", "value"];

/// What the expansion of the same tree (in-process) declares: method names and `TryFrom` impl headers.
#[derive(Default, Debug)]
struct Found {
    fns: BTreeSet<String>,
    /// (kind index, normalised element types)
    tryfrom: Vec<(usize, Vec<String>)>,
    notes: Vec<String>,
}

fn norm_ty(s: &str) -> String {
    match syn::parse_str::<syn::Type>(s) {
        Ok(t) => tok::ts_string(&t),
        Err(_) => tok::norm(s),
    }
}

fn discover(item: &str, derives: &[usize]) -> Found {
    let mut f = Found::default();
    let Ok(di) = syn::parse_str::<syn::DeriveInput>(item) else {
        f.notes.push("item does not parse".into());
        return f;
    };
    for &k in derives {
        let Some(d) = dm::Derive::by_name(DERIVES[k]) else { continue };
        let ts = match dm::expand(d, &di) {
            dm::Outcome::Ok(ts) => ts,
            o => {
                f.notes.push(format!("{}: {}", DERIVES[k], o.kind()));
                continue;
            }
        };
        let Ok(impls) = tok::impls(&ts) else { continue };
        for imp in impls {
            if k < 3 {
                for it in &imp.items {
                    if let syn::ImplItem::Fn(m) = it {
                        f.fns.insert(m.sig.ident.to_string());
                    }
                }
                continue;
            }
            let Some((_, path, _)) = &imp.trait_ else { continue };
            let Some(seg) = path.segments.last() else { continue };
            if seg.ident != "TryFrom" {
                continue;
            }
            let syn::PathArguments::AngleBracketed(ab) = &seg.arguments else { continue };
            let Some(syn::GenericArgument::Type(src)) = ab.args.first() else { continue };
            let kind = match src {
                syn::Type::Reference(r) if r.mutability.is_some() => 2,
                syn::Type::Reference(_) => 1,
                _ => 0,
            };
            let mut elems: Vec<syn::Type> = match &*imp.self_ty {
                syn::Type::Tuple(t) => t.elems.iter().cloned().collect(),
                syn::Type::Paren(p) => vec![(*p.elem).clone()],
                other => vec![other.clone()],
            };
            if kind > 0 {
                for e in elems.iter_mut() {
                    if let syn::Type::Reference(r) = e {
                        *e = (*r.elem).clone();
                    }
                }
            }
            f.tryfrom.push((kind, elems.iter().map(|e| tok::ts_string(e)).collect()));
        }
    }
    f
}

struct Model {
    vars: Vec<Var>,
    derives: Vec<usize>,
    enum_level: [Option<String>; 4],
    /// generic parameters declared: 1 = T, 2 = 'a, 4 = N, 8 = 'b
    params: u8,
    bound_style: usize,
    /// defaults on the trailing parameters (`T = C`, `const N: usize = 2`)
    defaults: bool,
    /// a variant name outside the `[A-Z][a-z]+` word scheme
    special_name: bool,
}

impl Model {
    fn has(&self, k: usize) -> bool {
        self.derives.contains(&k)
    }
    fn generics(&self) -> (String, String, String, String) {
        let (decl, _, args, inst, wh) = self.generics5();
        (decl, args, inst, wh)
    }
    /// generic parameters as an impl header declares them (bounds, no defaults)
    fn impl_decl(&self) -> String {
        self.generics5().1
    }
    fn generics5(&self) -> (String, String, String, String, String) {
        // (declaration on the enum, declaration on an impl, type arguments, instantiation, where clause)
        let mut decl = vec![];
        let mut idecl = vec![];
        let mut args = vec![];
        let mut inst = vec![];
        if self.params & 2 != 0 {
            decl.push("'a".to_string());
            idecl.push("'a".to_string());
            args.push("'a".to_string());
            inst.push("'static".to_string());
        }
        if self.params & 8 != 0 {
            // a second lifetime, bounded by the first one when there is one
            let b = if self.params & 2 != 0 { "'b: 'a" } else { "'b" };
            decl.push(b.to_string());
            idecl.push(b.to_string());
            args.push("'b".to_string());
            inst.push("'static".to_string());
        }
        // defaults must be trailing: `T = C` only when `N` (declared after it) has one as well or is absent
        let n_default = self.defaults && self.params & 4 != 0;
        let t_default = self.defaults && self.params & 1 != 0;
        if self.params & 1 != 0 {
            let lt = if self.params & 2 != 0 { " + 'a" } else { "" };
            let t = if self.bound_style == 1 { format!("T: Clone{lt}") } else { "T".to_string() };
            idecl.push(t.clone());
            decl.push(if t_default { format!("{t} = C") } else { t });
            args.push("T".into());
            inst.push("C".into());
        }
        if self.params & 4 != 0 {
            idecl.push("const N: usize".into());
            decl.push(if n_default { "const N: usize = 2".to_string() } else { "const N: usize".to_string() });
            args.push("N".into());
            inst.push("2".into());
        }
        let wh = if self.params & 1 != 0 && self.bound_style == 2 { "where T: Clone".to_string() } else { String::new() };
        if decl.is_empty() {
            (String::new(), String::new(), String::new(), String::new(), wh)
        } else {
            (format!("<{}>", decl.join(", ")), format!("<{}>", idecl.join(", ")), format!("<{}>", args.join(", ")), format!("<{}>", inst.join(", ")), wh)
        }
    }
    fn item(&self, with_derives: bool) -> String {
        let (decl, _, _, wh) = self.generics();
        let mut s = String::new();
        if with_derives {
            let ds: Vec<String> = self.derives.iter().map(|k| format!("derive_more::{}", DERIVES[*k])).collect();
            s.push_str(&format!("#[derive(Debug, Clone, PartialEq, {})]\n", ds.join(", ")));
            for &k in &self.derives {
                if let Some(a) = &self.enum_level[k] {
                    s.push_str(&format!("#[{}({a})]\n", ATTRS[k]));
                }
            }
        } else {
            s.push_str("#[derive(Debug, Clone, PartialEq)]\n");
        }
        s.push_str(&format!("pub enum E{decl} {wh} {{\n"));
        for v in &self.vars {
            if with_derives {
                for &k in &self.derives {
                    if v.ignore[k] {
                        s.push_str(&format!("    #[{}(ignore)]\n", ATTRS[k]));
                    } else if let Some(l) = &v.level[k] {
                        if l.is_empty() {
                            s.push_str(&format!("    #[{}]\n", ATTRS[k]));
                        } else {
                            s.push_str(&format!("    #[{}({l})]\n", ATTRS[k]));
                        }
                    }
                }
            }
            let fld = |f: &Fld| {
                let ig = if with_derives && f.ti_ignore && self.has(3) { "#[try_into(ignore)] " } else { "" };
                match &f.name {
                    Some(n) => format!("{ig}{n}: {}", TYS[f.ty].0),
                    None => format!("{ig}{}", TYS[f.ty].0),
                }
            };
            let body = match v.kind {
                VK::Unit => String::new(),
                VK::Tuple => format!("({})", v.fields.iter().map(fld).collect::<Vec<_>>().join(", ")),
                VK::Named => format!(" {{ {} }}", v.fields.iter().map(fld).collect::<Vec<_>>().join(", ")),
            };
            s.push_str(&format!("    {}{body},\n", v.ident));
        }
        s.push_str("}\n");
        s
    }
    fn mk(&self) -> String {
        let (_, _, inst, _) = self.generics();
        let mut s = format!("pub type EC = E{inst};\npub const NV: usize = {};\n#[allow(unreachable_patterns)]\npub fn mk(i: usize) -> EC {{\n    match i {{\n", self.vars.len());
        for (vi, v) in self.vars.iter().enumerate() {
            let vals: Vec<String> = v.fields.iter().enumerate().map(|(fi, f)| value_of(f.ty, 10 * (vi + 1) + fi)).collect();
            let ctor = match v.kind {
                VK::Unit => v.path(),
                VK::Tuple => format!("{}({})", v.path(), vals.join(", ")),
                VK::Named => format!(
                    "{} {{ {} }}",
                    v.path(),
                    v.fields.iter().zip(&vals).map(|(f, x)| format!("{}: {x}", f.name.as_ref().unwrap())).collect::<Vec<_>>().join(", ")
                ),
            };
            s.push_str(&format!("        {vi} => {ctor},\n"));
        }
        s.push_str("        _ => unreachable!(),\n    }\n}\n");
        s.push_str(&format!(
            "pub fn vname(i: usize) -> &'static str {{ [{}][i] }}\n",
            self.vars.iter().map(|v| format!("{:?}", v.plain)).collect::<Vec<_>>().join(", ")
        ));
        s
    }
}

fn gen_model(d: &mut Dice) -> Model {
    let gen_mode = d.weighted(&[46, 18, 7, 6, 6, 6, 7, 4]);
    let mut allowed: u8 = [0, 1, 2, 3, 4, 7, 10, 15][gen_mode];
    let allow_named = d.chance(30);
    // named variants next to Unwrap/TryUnwrap: legal as long as each of them carries `#[unwrap(ignore)]` /
    // `#[try_unwrap(ignore)]` ("If you don't want the `unwrap_foo` method generated for a variant ...")
    let named_ignored = !allow_named && d.chance(18);
    let cands: Vec<usize> = if allow_named { vec![0, 3] } else { vec![0, 1, 2, 3] };
    let mut derives: Vec<usize> = cands.iter().copied().filter(|_| d.chance(65)).collect();
    if derives.is_empty() {
        derives.push(cands[d.pick(cands.len())]);
    }
    let has_ti = derives.contains(&3);
    if has_ti {
        // `&'a A` and `&'b A` as TryInto targets would be overlapping impls (lifetimes unify): one lifetime only
        allowed &= !8;
    }
    let nv = 1 + d.weighted(&[2, 4, 5, 4, 2]);
    let raw_at = if d.chance(8) { Some(d.pick(nv)) } else { None };
    let mut vars: Vec<Var> = vec![];
    let mut special_name = false;
    let pick_ty = |d: &mut Dice, ignored: bool| -> usize {
        let w: Vec<u32> = TYS
            .iter()
            .enumerate()
            .map(|(i, t)| {
                if t.2 & !allowed != 0 {
                    return 0;
                }
                // a bare type parameter as TryInto target would be an orphan-rule violation of the *input*
                if i == 5 && has_ti && !ignored {
                    return 0;
                }
                [5, 4, 2, 1, 4, 4, 4, 4, 4, 5][i]
            })
            .collect();
        d.weighted(&w)
    };
    for vi in 0..nv {
        // name
        let nw = 1 + d.weighted(&[4, 5, 2]);
        let mut words: Vec<String> = (0..nw).map(|_| WORDS[d.pick(WORDS.len())].to_string()).collect();
        let style = d.weighted(&[68, 22, 10]);
        let mut raw = false;
        if raw_at == Some(vi) {
            raw = true;
            if d.chance(50) {
                words = vec![KEYWORDS[d.pick(KEYWORDS.len())].to_string()];
            }
        }
        let snake_of = |w: &[String]| w.iter().map(|x| x.to_lowercase()).collect::<Vec<_>>().join("_");
        if vars.iter().any(|v: &Var| v.snake == snake_of(&words)) {
            words.push(EXTRA[vi].to_string());
        }
        let mut snake = snake_of(&words);
        let keyword = raw && words.len() == 1 && KEYWORDS.contains(&words[0].as_str());
        let mut plain = if keyword || style == 1 { snake.clone() } else { words.concat() };
        if style == 2 && !raw {
            let (n, sn) = SPECIAL[d.pick(SPECIAL.len())];
            if !vars.iter().any(|v: &Var| v.snake == sn) {
                plain = n.to_string();
                snake = sn.to_string();
                special_name = true;
            }
        }
        let ident = if raw { format!("r#{plain}") } else { plain.clone() };
        // shape
        let kind = [VK::Unit, VK::Tuple, VK::Named][d.weighted(&[2, 6, if allow_named { 4 } else if named_ignored { 3 } else { 0 }])];
        let mut fields: Vec<Fld> = vec![];
        if kind != VK::Unit {
            let with_fields: Vec<usize> = (0..vars.len()).filter(|i| !vars[*i].fields.is_empty()).collect();
            if !with_fields.is_empty() && d.chance(35) {
                let src = &vars[with_fields[d.pick(with_fields.len())]];
                for f in &src.fields {
                    if has_ti && f.ty == 5 {
                        // a bare parameter is only usable in an ignored position
                        fields.push(Fld { ty: f.ty, name: None, ti_ignore: true });
                    } else {
                        fields.push(Fld { ty: f.ty, name: None, ti_ignore: has_ti && d.chance(12) });
                    }
                }
            } else {
                let nf = d.weighted(&[1, 5, 5, 3]);
                for _ in 0..nf {
                    let ig = has_ti && d.chance(15);
                    fields.push(Fld { ty: pick_ty(d, ig), name: None, ti_ignore: ig });
                }
            }
            if kind == VK::Named {
                for (k, f) in fields.iter_mut().enumerate() {
                    f.name = Some(FIELD_NAMES[k].to_string());
                }
            }
        }
        vars.push(Var { ident, plain, snake, kind, fields, ignore: [false; 4], level: [None, None, None, None] });
    }
    // make sure every allowed generic parameter is used somewhere if there is a field at all
    let mut params: u8 = vars.iter().flat_map(|v| v.fields.iter()).fold(0, |a, f| a | TYS[f.ty].2);
    for (bit, ty) in [(1u8, 4usize), (2, 6), (4, 7), (8, 8)] {
        if allowed & bit != 0 && params & bit == 0 {
            if let Some(f) = vars.iter_mut().flat_map(|v| v.fields.iter_mut()).find(|f| TYS[f.ty].2 == 0) {
                f.ty = ty;
                params |= bit;
            }
        }
    }
    // attributes
    let mut enum_level: [Option<String>; 4] = [None, None, None, None];
    let refs_tbl = ["ref", "ref_mut", "ref, ref_mut", "owned, ref, ref_mut", "owned", "owned, ref", "ref_mut, owned"];
    let lvl_tbl = ["ref", "ref_mut", "owned", "owned, ref", "ref, ref_mut"];
    for &k in &derives {
        if k == 0 {
            for v in vars.iter_mut() {
                v.ignore[0] = d.chance(15);
            }
            continue;
        }
        if d.chance(50) {
            enum_level[k] = Some(refs_tbl[d.weighted(&[4, 3, 4, 4, 1, 1, 1])].to_string());
        }
        let mut mode = if k == 3 { d.weighted(&[55, 22, 11, 12]) } else { d.weighted(&[55, 32, 0, 13]) };
        if k != 3 && mode == 3 && AVOID_VARIANT_LEVEL_REF_UNWRAP {
            mode = 1;
        }
        match mode {
            0 => {}
            1 => {
                for v in vars.iter_mut() {
                    v.ignore[k] = d.chance(30);
                }
            }
            2 => {
                // documented opt-in: bare `#[try_into]` on the variants wanted
                let mut any = false;
                for v in vars.iter_mut() {
                    if d.chance(50) {
                        v.level[k] = Some(String::new());
                        any = true;
                    }
                }
                if !any {
                    vars[0].level[k] = Some(String::new());
                }
            }
            _ => {
                // variant-level owned/ref/ref_mut (and for TryInto a mix of opt-in and ignore): the
                // documentation does not say crisply which accessors result; the set is read from the expansion
                let at = d.pick(nv);
                for (i, v) in vars.iter_mut().enumerate() {
                    if i == at {
                        v.level[k] = Some(lvl_tbl[d.pick(lvl_tbl.len())].to_string());
                    } else if d.chance(25) {
                        v.ignore[k] = true;
                    } else if d.chance(20) {
                        v.level[k] = Some(if k == 3 && d.chance(50) { String::new() } else { lvl_tbl[d.pick(lvl_tbl.len())].to_string() });
                    }
                }
            }
        }
    }
    // a named variant must not reach Unwrap/TryUnwrap un-ignored
    for v in vars.iter_mut().filter(|v| v.kind == VK::Named) {
        for k in [1usize, 2] {
            if derives.contains(&k) {
                v.ignore[k] = true;
                v.level[k] = None;
            }
        }
    }
    let bound_style = if params & 1 != 0 { d.weighted(&[5, 3, 2]) } else { 0 };
    let defaults = params & 5 != 0 && d.chance(20);
    Model { vars, derives, enum_level, params, bound_style, defaults, special_name }
}

fn kinds_listed(a: &Option<String>) -> Vec<usize> {
    match a {
        None => vec![],
        Some(s) => {
            let parts: Vec<&str> = s.split(',').map(|x| x.trim()).collect();
            (0..3).filter(|k| parts.contains(&KINDS[*k])).collect()
        }
    }
}

fn build(d: &mut Dice) -> GenCase {
    let m = gen_model(d);
    render(&m)
}

fn render(m: &Model) -> GenCase {
    let item = m.item(true);
    let found = discover(&item, &m.derives);
    let (_, impl_args, _, wh) = m.generics();
    let decl_gen = m.impl_decl();
    let mut body = String::new();
    body.push_str(&item);
    body.push_str(&m.mk());
    let mut run = String::new();
    let mut probes = String::new();
    let mut labels: Vec<String> = m.derives.iter().map(|k| format!("derive={}", DERIVES[*k])).collect();
    let mut n_accessors = 0usize;
    let mut n_from_expansion = 0usize;

    // ---------------------------------------------------------------- IsVariant / Unwrap / TryUnwrap
    let suffix = ["", "_ref", "_mut"];
    let mut all_names: BTreeSet<String> = BTreeSet::new();
    for &k in m.derives.iter().filter(|k| **k < 3) {
        let murky = k > 0 && m.vars.iter().any(|v| v.level[k].is_some());
        let listed = kinds_listed(&m.enum_level[k]);
        for v in &m.vars {
            let forms: Vec<usize> = if k == 0 { vec![0] } else { vec![0, 1, 2] };
            for form in forms {
                let name = match k {
                    0 => format!("is_{}", v.snake),
                    1 => format!("unwrap_{}{}", v.snake, suffix[form]),
                    _ => format!("try_unwrap_{}{}", v.snake, suffix[form]),
                };
                all_names.insert(name.clone());
                if v.ignore[k] {
                    // documented: no accessor for an ignored variant. A user-defined method of the same name
                    // collides (E0592) iff the derive generated one anyway.
                    probes.push_str(&format!("    pub fn {name}(&self) -> u8 {{ 0 }}\n"));
                    continue;
                }
                let expected = if k == 0 {
                    true
                } else if murky {
                    // (only reachable once AVOID_VARIANT_LEVEL_REF_UNWRAP is switched off) unwrap.md: the attribute "on the
                    // enum declaration or that variant": the owned form of every variant, the reference forms listed on
                    // the enum or on this variant; whatever else the expansion declares is checked as well
                    form == 0 || listed.contains(&form) || kinds_listed(&v.level[k]).contains(&form)
                } else if form == 0 {
                    // unwrap.md / try_unwrap.md: `unwrap_foo` "is generated" for each variant; `ref` / `ref_mut` on the
                    // enum *add* the reference forms (the documentation's example lists the owned form next to `_ref`)
                    true
                } else {
                    listed.contains(&form)
                };
                let in_exp = found.fns.contains(&name);
                if !expected && !in_exp {
                    continue;
                }
                if !expected && !murky {
                    // unwrap.md / try_unwrap.md: the reference forms are generated for the kinds the enum's attribute lists
                    // (none without an attribute); an accessor of another kind is unrequested extra API
                    run.push_str(&format!(
                        "    o.fail(\"`{name}` exists although the enum's attribute does not list that reference kind\", \"no such accessor\", \"generated\");\n"
                    ));
                }
                if !expected {
                    n_from_expansion += 1;
                }
                n_accessors += 1;
                let binds: Vec<String> = (0..v.fields.len()).map(|i| format!("f{i}")).collect();
                let abinds: Vec<String> = (0..v.fields.len()).map(|i| format!("a{i}")).collect();
                let pat = v.pat(&v.all_binds());
                let subs: Vec<(&str, String)> = vec![
                    ("$FN$", name.clone()),
                    ("$V$", v.plain.clone()),
                    ("$PAT$", pat),
                    ("$TUP$", tuple_expr(&binds)),
                    ("$CLO$", tuple_expr(&abinds)),
                    ("$ADDRS_A$", addrs(&abinds)),
                    ("$ADDRS_F$", addrs(&binds)),
                    ("$VI$", m.vars.iter().position(|x| x.ident == v.ident).unwrap().to_string()),
                ];
                let subs: Vec<(&str, &str)> = subs.iter().map(|(a, b)| (*a, b.as_str())).collect();
                let t = match (k, form) {
                    (0, _) => r#"    for i in 0..NV {
        ck(o, "$FN$() is true iff the value is $V$", i, format!("{}", matches!(mk(i), $PAT$)), format!("{}", mk(i).$FN$()));
    }
"#,
                    (1, 0) => r#"    for i in 0..NV {
        let r = __catch(|| mk(i).$FN$()).ok();
        let e = match mk(i) { $PAT$ => Some($TUP$), _ => None };
        ck(o, "$FN$() returns the fields of $V$ in order iff the value is $V$, otherwise panics", i, format!("{e:?}"), format!("{r:?}"));
    }
"#,
                    (1, 1) => r#"    for i in 0..NV {
        let v = mk(i);
        let r = __catch(|| v.$FN$()).ok().map(|$CLO$| $ADDRS_A$);
        let e = match &v { $PAT$ => Some($ADDRS_F$), _ => None };
        ck(o, "$FN$() returns references to the very fields of $V$ in order iff the value is $V$, otherwise panics", i, format!("{e:?}"), format!("{r:?}"));
    }
"#,
                    (1, _) => r#"    for i in 0..NV {
        let mut v = mk(i);
        let r = __catch(|| v.$FN$()).ok().map(|$CLO$| $ADDRS_A$);
        let e = match &v { $PAT$ => Some($ADDRS_F$), _ => None };
        ck(o, "$FN$() returns references to the very fields of $V$ in order iff the value is $V$, otherwise panics", i, format!("{e:?}"), format!("{r:?}"));
        ck(o, "$FN$() leaves the value unchanged", i, format!("{:?}", mk(i)), format!("{v:?}"));
    }
"#,
                    (_, 0) => r#"    for i in 0..NV {
        let r = match mk(i).$FN$() { Ok(x) => format!("Ok({x:?})"), Err(e) => format!("Err(input = {:?})", e.input) };
        let e = match mk(i) { $PAT$ => format!("Ok({:?})", $TUP$), w => format!("Err(input = {w:?})") };
        ck(o, "$FN$() returns the fields of $V$ in order iff the value is $V$, otherwise an error carrying the unchanged input", i, e, r);
    }
"#,
                    (_, 1) => r#"    for i in 0..NV {
        let v = mk(i);
        let r = match v.$FN$() { Ok($CLO$) => format!("Ok({:?})", $ADDRS_A$), Err(e) => format!("Err(input at {})", addr(e.input)) };
        let e = match &v { $PAT$ => format!("Ok({:?})", $ADDRS_F$), w => format!("Err(input at {})", addr(w)) };
        ck(o, "$FN$() returns references to the very fields of $V$ iff the value is $V$, otherwise an error carrying the very input", i, e, r);
    }
"#,
                    (_, _) => r#"    for i in 0..NV {
        let mut v = mk(i);
        let r = match v.$FN$() { Ok($CLO$) => format!("Ok({:?})", $ADDRS_A$), Err(e) => format!("Err(input at {})", addr(&*e.input)) };
        let e = match &v { $PAT$ => format!("Ok({:?})", $ADDRS_F$), w => format!("Err(input at {})", addr(w)) };
        ck(o, "$FN$() returns references to the very fields of $V$ iff the value is $V$, otherwise an error carrying the very input", i, e, r);
        ck(o, "$FN$() leaves the value unchanged", i, format!("{:?}", mk(i)), format!("{v:?}"));
    }
"#,
                };
                run.push_str(&tpl(t, &subs));
                if k == 2 {
                    // try_unwrap.md (example) and tests/try_unwrap.rs: "Attempt to call `Maybe::try_unwrap_just()` on a
                    // `Maybe::Nothing` value": the error names the function and the value's *actual* variant
                    let call = match form {
                        0 => "mk(i).$FN$()",
                        _ => "v.$FN$()",
                    };
                    let t2 = format!(
                        "    for i in 0..NV {{\n        #[allow(unused_variables, unused_mut)] let mut v = mk(i);\n        if let Err(e) = {call} {{\n            ck(o, \"the error of $FN$() names the function and the actual variant of the value\", i, format!(\"Attempt to call `E::$FN$()` on a `E::{{}}` value\", vname(i)), e.to_string().replace(\"r#\", \"\"));\n        }}\n    }}\n"
                    );
                    run.push_str(&tpl(&t2, &subs));
                }
            }
        }
    }
    // names the expansion declares that are not `<prefix>_<snake_case(variant)>[_ref|_mut]` of any variant
    let strangers: Vec<&String> = found.fns.iter().filter(|n| !all_names.contains(*n)).collect();
    for s in &strangers {
        run.push_str(&format!(
            "    o.fail(\"every generated method is named after snake_case of a variant\", \"one of {}\", \"{s}\");\n",
            all_names.iter().cloned().collect::<Vec<_>>().join(" ")
        ));
    }

    // ---------------------------------------------------------------- TryInto
    let mut shared_tuple = false;
    {
        // groups by the non-ignored field types (as derive_more does: by the types as written)
        let mut tuples: Vec<Vec<usize>> = vec![];
        for v in &m.vars {
            let t = v.ti_types();
            if !tuples.contains(&t) {
                tuples.push(t);
            } else {
                shared_tuple = true;
            }
        }
        if m.has(3) {
            let k = 3;
            let any_level = m.vars.iter().any(|v| v.level[k].as_ref().is_some_and(|l| !l.is_empty()));
            let any_bare = m.vars.iter().any(|v| v.level[k].as_ref().is_some_and(|l| l.is_empty()));
            let any_ignore = m.vars.iter().any(|v| v.ignore[k]);
            // (an enum-level attribute switches every un-annotated variant on again, so together with it the bare
            // opt-in form selects nothing: undocumented interplay, treated like the other unclear combinations)
            let murky = any_level || (any_bare && (any_ignore || m.enum_level[k].is_some()));
            let enabled = |v: &Var| -> bool {
                if any_bare {
                    v.level[k].is_some()
                } else {
                    !v.ignore[k]
                }
            };
            let listed = kinds_listed(&m.enum_level[k]);
            let expected_kinds: Vec<usize> = if murky {
                vec![]
            } else if m.enum_level[k].is_none() {
                vec![0]
            } else {
                listed.clone()
            };
            for t in &tuples {
                let compat: Vec<&Var> = m.vars.iter().filter(|v| &v.ti_types() == t).collect();
                let succ: Vec<&Var> = compat.iter().copied().filter(|v| enabled(v)).collect();
                let decl_norm: Vec<String> = t.iter().map(|i| norm_ty(TYS[*i].0)).collect();
                if !murky && succ.is_empty() {
                    // documented: ignored / not opted-in variants get no impl. A user impl for the same pair of
                    // types collides (E0119) iff the derive generated one anyway.
                    let decl_tuple = tuple_expr(&t.iter().map(|i| TYS[*i].0.to_string()).collect::<Vec<_>>());
                    body.push_str(&format!(
                        "impl{decl_gen} ::core::convert::TryFrom<E{impl_args}> for {decl_tuple} {wh} {{ type Error = (); fn try_from(_: E{impl_args}) -> Result<Self, ()> {{ Err(()) }} }}\n"
                    ));
                    continue;
                }
                for kind in 0..3 {
                    let expected = !succ.is_empty() && expected_kinds.contains(&kind);
                    let in_exp = found.tryfrom.iter().any(|(fk, ft)| *fk == kind && ft == &decl_norm);
                    if !expected && !in_exp {
                        continue;
                    }
                    if !expected {
                        n_from_expansion += 1;
                    }
                    n_accessors += 1;
                    let pre = ["", "&", "&mut "][kind];
                    let ty = tuple_expr(&t.iter().map(|i| format!("{pre}{}", TYS[*i].1)).collect::<Vec<_>>());
                    let what = format!(
                        "TryFrom<{pre}E> for {}: succeeds with the non-ignored fields in order exactly for the variants with these field types, otherwise returns the original value in the error",
                        tuple_expr(&t.iter().map(|i| format!("{pre}{}", TYS[*i].0)).collect::<Vec<_>>())
                    );
                    let n = t.len();
                    let abinds: Vec<String> = (0..n).map(|i| format!("a{i}")).collect();
                    let arms_of = |vs: &[&Var], wrap_some: bool| -> String {
                        let mut s = String::new();
                        for v in vs {
                            let names: Vec<String> = v.ti_binds().into_iter().flatten().collect();
                            let ok = if kind == 0 { format!("format!(\"Ok({{:?}})\", {})", tuple_expr(&names)) } else { format!("format!(\"Ok({{:?}})\", {})", addrs(&names)) };
                            let ok = if wrap_some { format!("Some({ok})") } else { ok };
                            s.push_str(&format!("{} => {ok}, ", v.pat(&v.ti_binds())));
                        }
                        s
                    };
                    let (arms, tail) = if murky { (arms_of(&compat, true), "_ => None") } else { (arms_of(&succ, false), if kind == 0 { "w => format!(\"Err(input = {w:?})\")" } else { "w => format!(\"Err(input at {})\", addr(w))" }) };
                    let get_r = match kind {
                        0 => format!("let r = match <{ty}>::try_from(mk(i)) {{ Ok(x) => format!(\"Ok({{x:?}})\"), Err(e) => format!(\"Err(input = {{:?}})\", e.input) }};"),
                        1 => format!("let v = mk(i);\n        let r = match <{ty}>::try_from(&v) {{ Ok({}) => format!(\"Ok({{:?}})\", {}), Err(e) => format!(\"Err(input at {{}})\", addr(e.input)) }};", tuple_expr(&abinds), addrs(&abinds)),
                        _ => format!("let mut v = mk(i);\n        let r = match <{ty}>::try_from(&mut v) {{ Ok({}) => format!(\"Ok({{:?}})\", {}), Err(e) => format!(\"Err(input at {{}})\", addr(&*e.input)) }};", tuple_expr(&abinds), addrs(&abinds)),
                    };
                    let scrut = if kind == 0 { "mk(i)" } else { "&v" };
                    let get_e = if murky {
                        let err = if kind == 0 { "format!(\"Err(input = {:?})\", mk(i))".to_string() } else { "format!(\"Err(input at {})\", addr(&v))".to_string() };
                        format!("let e_ok: Option<String> = match {scrut} {{ {arms}{tail} }};\n        let e = if e_ok.as_ref() == Some(&r) {{ r.clone() }} else {{ {err} }};")
                    } else {
                        format!("let e = match {scrut} {{ {arms}{tail} }};")
                    };
                    let after = if kind == 2 { "\n        ck(o, \"TryFrom<&mut E> leaves the value unchanged\", i, format!(\"{:?}\", mk(i)), format!(\"{v:?}\"));" } else { "" };
                    run.push_str(&format!(
                        "    for i in 0..NV {{\n        {get_r}\n        {get_e}\n        ck(o, {what:?}, i, e, r);{after}\n    }}\n"
                    ));
                }
            }
        }
    }
    if !probes.is_empty() {
        body.push_str(&format!("impl{decl_gen} E{impl_args} {wh} {{\n{probes}}}\n"));
    }
    body.push_str(&format!("#[allow(unreachable_patterns, unused_mut)]\npub fn run(o: &mut Out) {{\n    o.put(\"accessors\", \"{n_accessors}\");\n{run}}}\n"));

    // ---------------------------------------------------------------- bookkeeping
    let any_ignore = m.vars.iter().any(|v| m.derives.iter().any(|k| v.ignore[*k]));
    let field_ignore = m.has(3) && m.vars.iter().any(|v| v.fields.iter().any(|f| f.ti_ignore));
    let max_fields = m.vars.iter().map(|v| v.fields.len()).max().unwrap_or(0);
    let raw = m.vars.iter().any(|v| v.ident.starts_with("r#"));
    let name_derives = m.derives.iter().any(|k| *k < 3);
    if shared_tuple {
        labels.push("shared_field_type_tuple".into());
    }
    // two TryInto targets that differ only in the module path of a type (`A` / `sub::A`)
    if m.has(3) {
        let last_seg = |t: Vec<usize>| -> Vec<usize> { t.into_iter().map(|i| if i == 9 { 0 } else { i }).collect() };
        let tys: Vec<Vec<usize>> = m.vars.iter().map(|v| v.ti_types()).collect();
        if tys.iter().enumerate().any(|(i, a)| tys.iter().skip(i + 1).any(|b| a != b && last_seg(a.clone()) == last_seg(b.clone()))) {
            labels.push("try_into_targets_differ_in_path_only".into());
        }
    }
    if any_ignore {
        labels.push("variant_ignore".into());
    }
    if field_ignore {
        labels.push("field_ignore".into());
    }
    if max_fields >= 2 {
        labels.push("multi_field_variant".into());
    }
    if max_fields >= 3 {
        labels.push("three_field_variant".into());
    }
    if m.derives.iter().any(|k| m.enum_level[*k].is_some()) {
        labels.push("enum_level_owned_ref_ref_mut".into());
    }
    if m.derives.iter().any(|k| m.vars.iter().any(|v| v.level[*k].as_ref().is_some_and(|l| !l.is_empty()))) {
        labels.push("variant_level_owned_ref_ref_mut".into());
    }
    if m.has(3) && m.vars.iter().any(|v| v.level[3].as_ref().is_some_and(|l| l.is_empty())) {
        labels.push("try_into_opt_in".into());
    }
    if m.params != 0 {
        labels.push("generic".into());
    }
    if m.params & 2 != 0 {
        labels.push("lifetime_param".into());
    }
    if m.params & 4 != 0 {
        labels.push("const_param".into());
    }
    if m.vars.iter().any(|v| v.kind == VK::Named) {
        labels.push("named_variant".into());
    }
    if m.vars.iter().any(|v| v.snake.contains('_')) {
        labels.push("multi_word_variant_name".into());
    }
    if raw {
        labels.push("raw_ident_variant".into());
    }
    if m.special_name {
        labels.push("variant_name_outside_word_scheme".into());
    }
    if m.vars.iter().any(|v| v.kind == VK::Named) && (m.has(1) || m.has(2)) {
        labels.push("ignored_named_variant_under_unwrap".into());
    }
    if m.defaults {
        labels.push("generic_param_defaults".into());
    }
    if m.params & 8 != 0 {
        labels.push("second_lifetime_param".into());
    }
    if m.has(2) {
        labels.push("try_unwrap_error_message_checked".into());
    }
    if m.vars.iter().any(|v| v.kind == VK::Tuple && v.fields.is_empty()) {
        labels.push("empty_tuple_variant".into());
    }
    if n_from_expansion > 0 {
        labels.push("accessor_set_read_from_expansion".into());
    }
    if !probes.is_empty() {
        labels.push("absence_probe".into());
    }
    let mut c = GenCase::new(body);
    c.labels = labels;
    c.nontrivial = shared_tuple || any_ignore || field_ignore || max_fields >= 2;
    c.control = Some(format!("{}{}", m.item(false), m.mk()));
    c.meta = json!({
        "raw_ident": raw,
        "name_derives": name_derives,
        "accessors": n_accessors,
        "variants": m.vars.len(),
        "discovery_notes": found.notes,
    });
    c
}

fn classify(_c: &GenCase, _r: &CaseResult, _f: &Finding) -> Option<String> {
    // no recorded finding of C11 is open (the raw-identifier panic found on the way is repaired in the tree:
    // known_findings.json, c18-raw-ident-variant-accessor)
    None
}

pub fn prop() -> DiceProp {
    DiceProp {
        crate_name: "gen_c11",
        prelude: PRELUDE.to_string(),
        crate_attrs: String::new(),
        nightly: false,
        check_only: false,
        ndice: 260,
        quick: (2000, 1),
        thorough: (1600, 6),
        build,
        fixed: no_fixed,
        classify,
        rule: "enum with 1..5 unit / tuple (0..3 fields) / named variants (named only with IsVariant+TryInto), field types distinct non-ZST newtypes (two of them called `A`, in different modules) incl. generic (`T`, `W<T>`), borrowed (`&'a A`) and const-generic (`[A; N]`) ones, variants sharing a field-type tuple, `ignore` on variants and (TryInto) fields, enum-level and variant-level owned/ref/ref_mut, TryInto opt-in, multi-word / lower-case / raw-identifier / one-letter / acronym / ALL_CAPS variant names, named variants next to Unwrap/TryUnwrap when ignored there, parameter defaults and a second bounded lifetime; oracle: full table (one value per variant) x (every accessor that the docs promise or the expansion declares) against hand-written matches (values for owned forms, addresses for ref/mut forms, caught panics, error.input, the TryUnwrapError text naming the function and the actual variant), accessors called by snake_case name, colliding user items for accessors that must be absent; non-trivial = two variants share a field-type tuple, or an ignore, or a variant with >= 2 fields; distinct by program text".into(),
        assumptions: vec![
            "snake_case of a variant name is taken as the lower-cased `[A-Z][a-z]+` words joined by `_`; outside that scheme only names on which the usual conventions agree are generated (one-letter words, acronym + word, ALL_CAPS); names with digits are not".into(),
            "AVOID_VARIANT_LEVEL_REF_UNWRAP: variant-level owned/ref/ref_mut of Unwrap/TryUnwrap is a reported deviation from unwrap.md and kept out of the generated domain until repaired".into(),
            "variant-level owned/ref/ref_mut and mixed opt-in/ignore: the set of accessors is read from the expansion (docs are not crisp), every accessor found is checked".into(),
        ],
        floors: vec![
            ("shared_field_type_tuple".into(), 0.2),
            ("variant_ignore".into(), 0.2),
            ("field_ignore".into(), 0.08),
            ("multi_field_variant".into(), 0.4),
            ("three_field_variant".into(), 0.1),
            ("enum_level_owned_ref_ref_mut".into(), 0.3),
            ("variant_level_owned_ref_ref_mut".into(), 0.05),
            ("generic".into(), 0.2),
            ("named_variant".into(), 0.1),
            ("multi_word_variant_name".into(), 0.5),
            ("raw_ident_variant".into(), 0.01),
            ("variant_name_outside_word_scheme".into(), 0.08),
            ("ignored_named_variant_under_unwrap".into(), 0.03),
            ("generic_param_defaults".into(), 0.03),
            ("second_lifetime_param".into(), 0.01),
            ("derive=IsVariant".into(), 0.4),
            ("derive=Unwrap".into(), 0.3),
            ("derive=TryUnwrap".into(), 0.3),
            ("derive=TryInto".into(), 0.4),
        ],
        shards: 0,
    }
}

pub fn run(ctx: &super::core::Ctx) -> super::core::Report {
    super::progprop::run(&prop(), ctx)
}

pub fn replay(ctx: &super::core::Ctx, case: &serde_json::Value) -> super::core::Report {
    super::progprop::replay(&prop(), ctx, case)
}

//! C18 — derive expansion is total: a result or a diagnostic, never an internal failure.
//!
//! In-process (E1): literals through the parser and through Display/Debug expansions; attribute token
//! streams (templates + mutations + random) on every attribute position; all item shapes x all 50 derives.
//! Work is split over child processes (`dmv worker c18 ..`) so that stack exhaustion or an abort shows up
//! as a crashed worker instead of killing the check.
use super::core::*;
use super::dm::{self, Derive, Outcome};
use super::progprop::Dice;
use proc_macro2::{TokenStream, TokenTree};
use proptest::strategy::{Strategy, ValueTree};
use serde_json::{json, Value};
use std::collections::BTreeMap;
use std::io::Write;
use std::process::{Command, Stdio};

pub const RULE: &str = "inputs: (1) format literals — every string of length <= L over a 28-symbol alphabet with 1-4 byte chars, plus seeded random long/Unicode/huge-number/unbalanced literals — through the literal parser and through Display/Debug expansions at struct, variant, field and enum level; (2) attribute bodies: documented templates per derive, mutated (delete/duplicate/swap/wrap/replace token trees) and random token streams from a 60-token vocabulary, nesting <= 6 (plus a deep-nesting family to depth 64), on container/variant/field positions; (3) item shapes (unit/tuple/named structs, enums incl. zero-variant, unions, generics, exotic field types) x all 50 derives. Oracle: outcome must be Ok, Err(diagnostic) or a deliberate panic (explicit panic!/assert! line in impl/src); non-trivial = the input is rejected (error path) or contains a multi-byte character or an attribute; distinct by (derive, item text)";

#[derive(Clone, Debug)]
pub struct Case {
    pub derive: String,
    pub item: String,
}

fn canon(c: &Case) -> String {
    format!("{}|{}", c.derive, c.item)
}

/// Evaluates one case; returns Some((panic info)) on an internal failure.
pub fn eval_case(c: &Case) -> Result<(&'static str, Option<dm::PanicInfo>), String> {
    let d = Derive::by_name(&c.derive).ok_or("unknown derive")?;
    let item: syn::DeriveInput = syn::parse_str(&c.item).map_err(|e| format!("generator: item does not parse: {e}"))?;
    let out = dm::expand(d, &item);
    Ok(match out {
        Outcome::Ok(ts) => {
            // NB: whether the *tokens* are valid Rust is rustc's business (garbage arguments are handed over
            // verbatim and rustc reports them at the user's tokens) — not an internal failure.
            let _ = ts;
            ("ok", None)
        }
        Outcome::Err(_) => ("err", None),
        Outcome::Panic(p) => {
            if dm::is_deliberate(&p) {
                ("deliberate_panic", None)
            } else {
                ("panic", Some(p))
            }
        }
    })
}

// ------------------------------------------------------------------------------------------------
// generators

const FIELD_TYPES: [&str; 24] = [
    "i32", "T", "Backtrace", "std::backtrace::Backtrace", "Vec<T>", "&'a str", "[u8; N]", "(i32, T)", "Box<dyn Fn(T) -> T>", "<T as Tr>::A", "fn(T) -> T", "*const T",
    "[T]", "!", "_", "impl Clone", "(T)", "m!()", "dyn Tr<T> + 'a", "Option<&'a mut T>", "::std::string::String",
    "core::marker::PhantomData<T>", "[[T; 2]; N]", "for<'b> fn(&'b T)",
];

const GENERICS: [&str; 7] = [
    "", "<T>", "<'a, T>", "<'a, T: Clone, const N: usize>", "<const N: usize, T>", "<T: Tr<A = i32> + ?Sized>", "<'a: 'b, 'b, T = i32, const N: usize = 3>",
];

pub fn gen_plain_item(d: &mut Dice) -> String {
    gen_item(d, None)
}

fn gen_item(d: &mut Dice, attr: Option<(&str, &dyn Fn(&mut Dice, usize) -> Option<String>)>) -> String {
    // positions: 0 container, 1 variant, 2 field
    let at = |d: &mut Dice, pos: usize| -> String {
        match &attr {
            Some((name, f)) => match f(d, pos) {
                Some(body) => format!("#[{name}{body}] "),
                None => String::new(),
            },
            None => String::new(),
        }
    };
    let generics = GENERICS[d.pick(GENERICS.len())];
    let wh = if !generics.is_empty() && d.chance(20) { " where T: Clone" } else { "" };
    let fty = |d: &mut Dice| FIELD_TYPES[d.weighted(&[8, 6, 2, 1, 2, 2, 2, 2, 1, 1, 1, 1, 1, 1, 1, 1, 1, 1, 1, 1, 1, 1, 1, 1])].to_string();
    let names = ["a", "b", "source", "backtrace", "r#type", "_0"];
    let fields = |d: &mut Dice, at: &dyn Fn(&mut Dice, usize) -> String| -> String {
        match d.pick(4) {
            0 => String::new(),
            1 => {
                let n = d.range(0, 3);
                format!("({})", (0..n).map(|_| format!("{}{}", at(d, 2), fty(d))).collect::<Vec<_>>().join(", "))
            }
            _ => {
                let n = d.range(0, 3);
                format!(" {{ {} }}", (0..n).map(|i| format!("{}{}: {}", at(d, 2), names[(i + d.pick(3)) % names.len()], fty(d))).collect::<Vec<_>>().join(", "))
            }
        }
    };
    let cont = at(d, 0);
    let cont2 = if d.chance(15) { at(d, 0) } else { String::new() };
    let repr = if d.chance(15) { ["#[repr(u8)] ", "#[repr(C)] ", "#[repr(i64, C)] ", "#[repr(transparent)] "][d.pick(4)] } else { "" };
    match d.weighted(&[5, 5, 1]) {
        0 => {
            let f = fields(d, &at);
            let semi = if f.starts_with(" {") { "" } else { ";" };
            if f.starts_with(" {") {
                format!("{cont}{cont2}{repr}struct S{generics}{wh}{f}")
            } else {
                format!("{cont}{cont2}{repr}struct S{generics}{f}{wh}{semi}")
            }
        }
        1 => {
            let nv = d.range(0, 3);
            let vnames = ["A", "B", "r#Type", "FooBar"];
            let vs: Vec<String> = (0..nv)
                .map(|i| {
                    let a = at(d, 1);
                    let f = fields(d, &at);
                    let disc = if d.chance(15) { [" = 1", " = -3", " = 1 << 2"][d.pick(3)] } else { "" };
                    format!("{a}{}{f}{disc}", vnames[i % 4])
                })
                .collect();
            format!("{cont}{cont2}{repr}enum E{generics}{wh} {{ {} }}", vs.join(", "))
        }
        _ => {
            let n = d.range(1, 2);
            format!(
                "{cont}{repr}union U{generics}{wh} {{ {} }}",
                (0..n).map(|i| format!("{}{}: {}", at(d, 2), names[i], fty(d))).collect::<Vec<_>>().join(", ")
            )
        }
    }
}

const VOCAB: [&str; 60] = [
    "skip", "ignore", "forward", "owned", "ref", "ref_mut", "source", "backtrace", "not", "bound", "bounds", "rename_all", "repr", "types", "fmt",
    "_variant", "self", "i32", "u8", "String", "T", "r#type", "_0", "a", "\"lit\"", "\"{}\"", "\"{0}\"", "\"{_0}\"", "\"{a:?}\"", "\"snake_case\"",
    "1", "1.5", "'c'", "b\"x\"", "true", ",", "=", ":", "::", "<", ">", "&", "*", "'a", "|", "..", "->", "=>", "#", "!", "?", ";", "+", "-", ".", "==",
    "as", "dyn", "where", "crate",
];

/// documented attribute forms per derive (attribute body incl. the delimiters; "" = bare `#[attr]`)
fn templates(derive: &str) -> &'static [&'static str] {
    match derive {
        "Display" | "Binary" | "Octal" | "LowerHex" | "UpperHex" | "LowerExp" | "UpperExp" | "Pointer" => &[
            "(\"{}\", _0)", "(\"{a} {b}\")", "(\"{_0:?} {}\", self.x())", "(bound(T: Clone))", "(bounds(T: core::fmt::Display, Vec<T>: Clone))",
            "(rename_all = \"snake_case\")", "(\"{_variant}: {}\", _0)", "(\"{x}\", x = a.len())", "(\"{:>1$}\", _0, 7)", "(\"{0:.*}\", 2, _0)",
            "(fmt = \"{}\", _0)", "(fmt = \"{}\", \"_0\")", "(bound = \"T: Clone\")", "(\"{}\", _0 == _1)", "(\"{}\", _0 as M<i32, T>)",
        ],
        "Debug" => &["(skip)", "(ignore)", "(\"{}\", _0)", "(\"{a:?}\")", "(bound(T: Clone))", "(bounds(T: core::fmt::Debug))", "(\"{}\", a.len())", "(fmt = \"{}\", _0)", "(bound = \"T: Clone\")"],
        "From" => &["", "(forward)", "(skip)", "(ignore)", "(i32, u8)", "((i32, u8))", "(&'a str, String)", "(types(i32))", "(types(1))", "(types(\"i32\"))", "(types(i32, u8), forward)"],
        "Into" => &["", "(owned)", "(ref)", "(ref_mut)", "(owned, ref(i32), ref_mut)", "(i32, i64)", "(skip)", "(ignore)", "(owned(i64), ref)", "(types(i32))", "(owned(types(i32)))", "(owned, types(i32, i64))", "(repr(u8))"],
        "AsRef" | "AsMut" => &["", "(forward)", "(skip)", "(ignore)", "(i32)", "(str, [u8])", "(T)"],
        "TryFrom" => &["(repr)"],
        "Error" => &["(source)", "(backtrace)", "(not(source))", "(not(backtrace))", "(ignore)", "(source, backtrace)", "(not(source), backtrace)"],
        "Deref" | "DerefMut" => &["", "(forward)", "(ignore)"],
        "Index" | "IndexMut" => &["", "(ignore)"],
        "IntoIterator" => &["", "(ignore)", "(owned)", "(ref)", "(ref_mut)", "(owned, ref, ref_mut)"],
        "IsVariant" => &["(ignore)"],
        "Unwrap" | "TryUnwrap" | "TryInto" => &["(ignore)", "(owned)", "(ref)", "(ref_mut)", "(owned, ref, ref_mut)", ""],
        "Mul" | "Div" | "Rem" | "Shr" | "Shl" | "MulAssign" | "DivAssign" | "RemAssign" | "ShrAssign" | "ShlAssign" => &["(forward)"],
        _ => &[],
    }
}

fn random_tokens(d: &mut Dice, depth: usize) -> String {
    let n = d.range(0, 5);
    let mut out = vec![];
    for _ in 0..n {
        if depth > 0 && d.chance(20) {
            let inner = random_tokens(d, depth - 1);
            let (o, c) = [("(", ")"), ("[", "]"), ("{", "}")][d.pick(3)];
            out.push(format!("{o}{inner}{c}"));
        } else {
            out.push(VOCAB[d.pick(VOCAB.len())].to_string());
        }
    }
    out.join(" ")
}

fn mutate(body: &str, d: &mut Dice) -> String {
    // token-tree level mutation of the group content
    let Ok(ts) = body.parse::<TokenStream>() else { return body.to_string() };
    let mut tts: Vec<TokenTree> = ts.into_iter().collect();
    if tts.len() == 1 {
        if let TokenTree::Group(g) = &tts[0] {
            let mut inner: Vec<String> = g.stream().into_iter().map(|t| t.to_string()).collect();
            let nmut = d.range(1, 3);
            for _ in 0..nmut {
                let len = inner.len();
                match d.pick(6) {
                    0 if len > 0 => {
                        inner.remove(d.pick(len));
                    }
                    1 if len > 0 => {
                        let i = d.pick(len);
                        let x = inner[i].clone();
                        inner.insert(i, x);
                    }
                    2 if len > 1 => {
                        let i = d.pick(len);
                        let j = d.pick(len);
                        inner.swap(i, j);
                    }
                    3 if len > 0 => {
                        let i = d.pick(len);
                        inner[i] = format!("({})", inner[i]);
                    }
                    4 if len > 0 => {
                        let i = d.pick(len);
                        inner[i] = VOCAB[d.pick(VOCAB.len())].to_string();
                    }
                    _ => {
                        let i = d.pick(len + 1);
                        inner.insert(i, VOCAB[d.pick(VOCAB.len())].to_string());
                    }
                }
            }
            return format!("({})", inner.join(" "));
        }
    }
    tts.clear();
    body.to_string()
}

fn attr_body(derive: &str, d: &mut Dice) -> String {
    let t = templates(derive);
    let all: Vec<&str> = Derive::all().flat_map(|x| templates(x.name()).iter().copied()).collect();
    match d.weighted(&[3, 4, 2, 2, 1]) {
        0 if !t.is_empty() => t[d.pick(t.len())].to_string(),
        1 if !t.is_empty() => mutate(t[d.pick(t.len())], d),
        2 => all[d.pick(all.len())].to_string(), // a form documented for another derive
        3 => format!("({})", random_tokens(d, 3)),
        _ => match d.pick(5) {
            0 => String::new(),
            1 => format!(" = {}", ["\"x\"", "1", "skip", "\"{}\""][d.pick(4)]),
            2 => format!("[{}]", random_tokens(d, 1)),
            3 => format!("{{{}}}", random_tokens(d, 1)),
            _ => {
                // deep nesting
                let depth = [4usize, 16, 64][d.pick(3)];
                format!("({}x{})", "(".repeat(depth), ")".repeat(depth))
            }
        },
    }
}

fn literal_adversarial(d: &mut Dice) -> String {
    let frag = [
        "{", "}", "{{", "}}", "{}", "{0}", "{a}", ":", "{:", "{:?}", "{:>", "$", "{:1$}", "{:.*}", "{99999999999999999999}",
        "{:1$.340282366920938463463374607431768211456}", "{:18446744073709551616}", "{0:65536}", "é", "→", "𝒳", "\u{301}", "\u{202e}", "\u{10ffff}",
        "\u{0}", "\\", "\"", "\n", "\t", " ", "{_variant}", "{_0}", "{_1:p}", "{self}", "{r#a}", "{a.b}", "{:#?}", "{:x?}", "{:é^9}", "{:𝒳<}", "{:}<5}",
        "{:{<5}", "{_0\u{2003}}", "{a\u{a0}:>4}", "{:?\u{3000}}", "\u{2003}", "\u{a0}", "{0:0$}", "{:00$}", "{w$}", "{:w$.p$}", "{:+#0", "{:-}", "{:e}", "{:E}", "{:p}", "{:b}", "{:o}", "{:X}", "{:X?}", "{:?x}", "{9a}", "{a9}", "{_}",
    ];
    let n = d.range(1, 8);
    let mut s = String::new();
    for _ in 0..n {
        if d.chance(10) {
            // long run
            let f = frag[d.pick(frag.len())];
            for _ in 0..d.range(2, 200) {
                s.push_str(f);
            }
        } else {
            s.push_str(frag[d.pick(frag.len())]);
        }
    }
    s
}

fn lit_tok(s: &str) -> String {
    proc_macro2::Literal::string(s).to_string()
}

/// literal placed at struct / variant / field / enum level of Display and Debug
fn literal_items(lit: &str, d: &mut Dice) -> Vec<Case> {
    let l = lit_tok(lit);
    let mut v = vec![];
    let args = ["", ", _0", ", a = _0", ", _0, _0", ", *_0 + 1"][d.pick(5)];
    v.push(Case { derive: "Display".into(), item: format!("#[display({l}{args})] struct S<T>(T);") });
    v.push(Case { derive: "Display".into(), item: format!("#[display({l})] struct S<T> {{ a: T, w: usize }}") });
    v.push(Case { derive: "Display".into(), item: format!("enum E<T> {{ #[display({l}{args})] A(T), B }}") });
    v.push(Case { derive: "Display".into(), item: format!("#[display({l})] enum E<T> {{ A(T), #[display(\"b\")] B }}") });
    v.push(Case { derive: "Debug".into(), item: format!("#[debug({l}{args})] struct S<T>(T);") });
    v.push(Case { derive: "Debug".into(), item: format!("struct S<T> {{ #[debug({l})] a: T, b: i32 }}") });
    v.push(Case { derive: "Debug".into(), item: format!("enum E<T> {{ #[debug({l}{args})] A(T), B {{ #[debug({l})] a: i32 }} }}") });
    v.push(Case { derive: "LowerHex".into(), item: format!("#[lower_hex({l}{args})] union U {{ a: i32 }}") });
    v
}

pub struct PartStats {
    pub evaluations: u64,
    pub nontrivial: Vec<u64>,
    pub labels: BTreeMap<String, u64>,
    pub samples: Vec<Value>,
    pub violations: Vec<Value>,
}

/// The work of one part (deterministic function of seed, tier, part, nparts). Runs in a child process.
pub fn run_part(seed: u64, tier: Tier, part: usize, nparts: usize, progress: &mut dyn FnMut(&str)) -> PartStats {
    let mut st = PartStats { evaluations: 0, nontrivial: vec![], labels: BTreeMap::new(), samples: vec![], violations: vec![] };
    let seen_loc: std::cell::RefCell<std::collections::HashSet<String>> = Default::default();
    let eval = |c: &Case, source: &str, st: &mut PartStats| {
        st.evaluations += 1;
        match eval_case(c) {
            Err(e) => {
                *st.labels.entry(format!("{source}:generator_unparsable")).or_insert(0) += 1;
                let _ = e;
            }
            Ok((kind, bad)) => {
                *st.labels.entry(format!("{source}:{kind}")).or_insert(0) += 1;
                let multibyte = c.item.bytes().any(|b| b >= 0x80);
                if kind != "ok" || multibyte || c.item.contains("#[") {
                    st.nontrivial.push(hash_str(&canon(c)));
                }
                if st.samples.len() < 3 && (st.evaluations % 997 == 1) {
                    st.samples.push(json!({"source": source, "derive": c.derive, "item": c.item, "outcome": kind}));
                }
                if let Some(p) = bad {
                    let loc = format!("{}:{}", p.file.rsplit("impl/src/").next().unwrap_or(&p.file), p.line);
                    if seen_loc.borrow_mut().insert(format!("{loc}|{}", c.derive)) {
                        st.violations.push(json!({
                            "derive": c.derive, "item": c.item, "panic_msg": p.msg, "panic_file": p.file, "panic_line": p.line, "loc": loc, "source": source,
                        }));
                    }
                }
            }
        }
    };

    // (1a) exhaustive short literals through the parser (cheap) — this part's slice
    let maxlen = tier.pick(4, 5);
    let lits = super::p03::short_strings(maxlen);
    let mut k = 0usize;
    for (i, l) in lits.iter().enumerate() {
        if i % nparts != part {
            continue;
        }
        st.evaluations += 1;
        k += 1;
        let r = dm::guarded(|| super::lit::dm_view(l));
        match r {
            Ok(Some(_)) => *st.labels.entry("parser:accepts".into()).or_insert(0) += 1,
            Ok(None) => *st.labels.entry("parser:rejects".into()).or_insert(0) += 1,
            Err(p) => {
                *st.labels.entry("parser:panic".into()).or_insert(0) += 1;
                let loc = format!("{}:{}", p.file.rsplit("impl/src/").next().unwrap_or(&p.file), p.line);
                if seen_loc.borrow_mut().insert(format!("{loc}|parser")) {
                    st.violations.push(json!({"derive": "<literal parser>", "item": l, "panic_msg": p.msg, "panic_file": p.file, "panic_line": p.line, "loc": loc, "source": "parser"}));
                }
            }
        }
        if l.bytes().any(|b| b >= 0x80) || l.contains('{') {
            st.nontrivial.push(hash_str(&format!("lit|{l}")));
        }
        // every 40th short literal also through the expansions
        if k % 40 == 0 {
            let mut d = Dice::new(vec![(i % 65536) as u16, ((i / 7) % 65536) as u16]);
            for c in literal_items(l, &mut d) {
                eval(&c, "literal_short", &mut st);
            }
        }
    }
    progress("short literals done");

    // (1b) adversarial literals, (2) attribute bodies, (3) item shapes: proptest dice, seeded per part
    let n_lit = tier.pick(16_000, 160_000) / nparts;
    let n_attr = tier.pick(240_000, 2_000_000) / nparts;
    let n_shape = tier.pick(24_000, 200_000) / nparts;
    let mut runner = runner_for(seed, "C18", part as u32 + 1);
    let dice = proptest::collection::vec(proptest::num::u16::ANY, 96..=96);
    for t in draw(&mut runner, &dice, n_lit) {
        let mut d = Dice::new(t.current());
        let l = literal_adversarial(&mut d);
        st.evaluations += 1;
        if let Err(p) = dm::guarded(|| super::lit::dm_view(&l)) {
            let loc = format!("{}:{}", p.file.rsplit("impl/src/").next().unwrap_or(&p.file), p.line);
            if seen_loc.borrow_mut().insert(format!("{loc}|parser")) {
                st.violations.push(json!({"derive": "<literal parser>", "item": l, "panic_msg": p.msg, "panic_file": p.file, "panic_line": p.line, "loc": loc, "source": "parser"}));
            }
        }
        for c in literal_items(&l, &mut d) {
            eval(&c, "literal_adversarial", &mut st);
        }
    }
    progress("adversarial literals done");
    let with_attr: Vec<Derive> = Derive::all().filter(|d| d.info().attr.is_some()).collect();
    for t in draw(&mut runner, &dice, n_attr) {
        let mut d = Dice::new(t.current());
        let der = with_attr[d.pick(with_attr.len())];
        let name = der.info().attr.unwrap();
        let dn = der.name();
        let f = move |d: &mut Dice, pos: usize| -> Option<String> {
            // attributes appear on a position with moderate probability so that most items carry 1-2 of them
            let p = [55, 35, 35][pos];
            if d.chance(p) {
                Some(attr_body(dn, d))
            } else {
                None
            }
        };
        let item = gen_item(&mut d, Some((name, &f)));
        eval(&Case { derive: dn.to_string(), item }, "attribute", &mut st);
    }
    progress("attributes done");
    for t in draw(&mut runner, &dice, n_shape) {
        let mut d = Dice::new(t.current());
        let item = gen_item(&mut d, None);
        // all 50 derives on a rotating subset of 10 per item (all 50 are covered evenly across items)
        let off = d.pick(5);
        for k in 0..10 {
            let der = Derive(off * 10 + k);
            eval(&Case { derive: der.name().to_string(), item: item.clone() }, "shape", &mut st);
        }
    }
    progress("shapes done");
    st
}

/// scaling families for the bounded-time clause; returns (family, n, seconds)
fn timing_families() -> Vec<(String, usize, f64)> {
    let mut out = vec![];
    let fams: Vec<(&str, Box<dyn Fn(usize) -> String>)> = vec![
        ("a<a<a..", Box::new(|n| format!("#[display(\"{{}}\", {})] struct S(i32);", vec!["a"; n].join(" < ")))),
        ("|a|a|a..", Box::new(|n| format!("#[display(\"{{}}\", {})] struct S(i32);", vec!["a"; n].join(" | ")))),
        ("{{{{..", Box::new(|n| format!("#[display({})] struct S(i32);", lit_tok(&"{".repeat(n))))),
        ("::<::<..", Box::new(|n| format!("#[display(\"{{}}\", {})] struct S(i32);", "a::<".repeat(n)))),
    ];
    for (name, f) in fams {
        for n in [500usize, 1000, 2000] {
            let src = f(n);
            let t0 = std::time::Instant::now();
            let _ = eval_case(&Case { derive: "Display".into(), item: src });
            out.push((name.to_string(), n, t0.elapsed().as_secs_f64()));
        }
    }
    out
}

/// One generated case from raw dice (fuzz target): returns (derive, item, message, signature) on an internal failure or
/// when two expansions of the same input differ.
pub fn fuzz_one(dice: Vec<u16>) -> Option<(String, String, String, Option<String>)> {
    let mut d = Dice::new(dice);
    let with_attr: Vec<Derive> = Derive::all().filter(|d| d.info().attr.is_some()).collect();
    let c = match d.pick(4) {
        0 => {
            let item = gen_item(&mut d, None);
            Case { derive: Derive(d.pick(dm::DERIVES.len())).name().to_string(), item }
        }
        1 => {
            let l = literal_adversarial(&mut d);
            let v = literal_items(&l, &mut d);
            let k = d.pick(v.len());
            v[k].clone()
        }
        _ => {
            let der = with_attr[d.pick(with_attr.len())];
            let name = der.info().attr.unwrap();
            let dn = der.name();
            let f = move |d: &mut Dice, pos: usize| -> Option<String> {
                if d.chance([55, 35, 35][pos]) {
                    Some(attr_body(dn, d))
                } else {
                    None
                }
            };
            let item = gen_item(&mut d, Some((name, &f)));
            Case { derive: dn.to_string(), item }
        }
    };
    match eval_case(&c) {
        Ok((_, Some(p))) => {
            let loc = format!("{}:{}", p.file.rsplit("impl/src/").next().unwrap_or(&p.file), p.line);
            let v = json!({"derive": c.derive, "item": c.item, "panic_msg": p.msg, "panic_file": p.file, "panic_line": p.line, "loc": loc});
            Some((c.derive.clone(), c.item.clone(), format!("panic at {loc}: {}", p.msg), sig_for(&v)))
        }
        Ok((kind, None)) if kind == "ok" => {
            // C19(1): a second expansion gives the same tokens
            let d1 = Derive::by_name(&c.derive)?;
            let item: syn::DeriveInput = syn::parse_str(&c.item).ok()?;
            let (a, b) = (dm::expand(d1, &item), dm::expand(d1, &item));
            match (a.ok_tokens(), b.ok_tokens()) {
                (Some(x), Some(y)) if x.to_string() != y.to_string() => Some((c.derive, c.item, "two expansions differ".into(), None)),
                _ => None,
            }
        }
        _ => None,
    }
}

pub fn timing_main() -> i32 {
    use std::io::Write;
    for (f, n, s) in timing_families() {
        println!("{}", json!({"family": f, "n": n, "s": s}));
        let _ = std::io::stdout().flush();
    }
    0
}

pub fn worker_main(args: &[String]) -> i32 {
    // args: seed tier part nparts
    let seed: u64 = args.first().and_then(|s| s.parse().ok()).unwrap_or(0);
    let tier = if args.get(1).map(|s| s.as_str()) == Some("thorough") { Tier::Thorough } else { Tier::Quick };
    let part: usize = args.get(2).and_then(|s| s.parse().ok()).unwrap_or(0);
    let nparts: usize = args.get(3).and_then(|s| s.parse().ok()).unwrap_or(1);
    let stdout = std::io::stdout();
    let mut progress = |m: &str| {
        let mut w = stdout.lock();
        let _ = writeln!(w, "{}", json!({"progress": m}));
        let _ = w.flush();
    };
    let st = run_part(seed, tier, part, nparts, &mut progress);
    let mut w = stdout.lock();
    let _ = writeln!(
        w,
        "{}",
        json!({"done": true, "evaluations": st.evaluations, "nontrivial": st.nontrivial, "labels": st.labels, "samples": st.samples, "violations": st.violations})
    );
    0
}

fn sig_for(v: &Value) -> Option<String> {
    let loc = v["loc"].as_str().unwrap_or("");
    let file = loc.split(':').next().unwrap_or("");
    let msg = v["panic_msg"].as_str().unwrap_or("");
    // defect models of recorded findings: keyed by the failing call site (file + kind of panic), not by input
    if file == "error.rs" && msg.contains("index out of bounds") {
        return Some("c18-error-ignore-index".into());
    }
    if file == "from.rs" && msg.contains("unreachable") {
        return Some("c18-from-legacy-unreachable".into());
    }
    let item = v["item"].as_str().unwrap_or("");
    if file == "utils.rs" && msg.starts_with("expected") && (item.contains("dyn ") || item.contains("impl ")) && item.contains('+') {
        // `where dyn A + B: Trait` built from a bare multi-bound trait-object field type does not parse
        return Some("c18-where-clause-bare-bound-list-type".into());
    }
    if msg.contains("Punctuated::push_value") || msg.contains("push_value") {
        return Some("c18-into-push-value".into());
    }
    None
}

pub fn run(ctx: &Ctx) -> Report {
    let mut rep = Report::new(RULE);
    rep.evidence.max_samples = 12;
    rep.evidence.assumptions = vec![
        "a panic is deliberate iff raised at an explicit panic!/assert! line of impl/src (read from the tree under test)".into(),
        "token nesting bounded at 64; bounded time attacked through four scaling families only".into(),
    ];
    let nparts = 16usize;
    let exe = std::env::current_exe().unwrap();
    let mut children = vec![];
    for part in 0..nparts {
        let child = Command::new(&exe)
            .args(["worker", "c18", &ctx.seed.to_string(), ctx.tier.name(), &part.to_string(), &nparts.to_string()])
            .stdout(Stdio::piped())
            .stderr(Stdio::null())
            .spawn();
        children.push((part, child));
    }
    for (part, child) in children {
        let child = match child {
            Ok(c) => c,
            Err(e) => {
                rep.infra_errors.push(format!("cannot spawn worker: {e}"));
                continue;
            }
        };
        let out = match child.wait_with_output() {
            Ok(o) => o,
            Err(e) => {
                rep.infra_errors.push(format!("worker {part}: {e}"));
                continue;
            }
        };
        let text = String::from_utf8_lossy(&out.stdout);
        let mut done = false;
        let mut last_progress = String::from("start");
        for line in text.lines() {
            let Ok(v) = serde_json::from_str::<Value>(line) else { continue };
            if let Some(p) = v["progress"].as_str() {
                last_progress = p.to_string();
            }
            if v["done"].as_bool() == Some(true) {
                done = true;
                rep.evidence.eval(v["evaluations"].as_u64().unwrap_or(0));
                for h in v["nontrivial"].as_array().cloned().unwrap_or_default() {
                    rep.evidence.nontrivial_hash(h.as_u64().unwrap_or(0));
                }
                if let Some(l) = v["labels"].as_object() {
                    for (k, n) in l {
                        rep.evidence.label_n(k, n.as_u64().unwrap_or(0));
                    }
                }
                for s in v["samples"].as_array().cloned().unwrap_or_default() {
                    rep.evidence.sample(s);
                }
                for viol in v["violations"].as_array().cloned().unwrap_or_default() {
                    rep.violations.push(make_violation(&viol));
                }
            }
        }
        if !done {
            // the worker died: stack exhaustion / abort is itself an internal failure of the code under test
            rep.violations.push(Violation {
                sig: None,
                summary: format!("worker process {part}/{nparts} crashed ({:?}) after stage `{last_progress}` — stack exhaustion or abort inside an expander", out.status),
                case: json!({"worker": {"seed": ctx.seed, "tier": ctx.tier.name(), "part": part, "nparts": nparts}}),
                expected: "every input yields Ok / Err / deliberate panic".into(),
                observed: format!("process died: {:?}", out.status),
            });
        }
    }
    // regression corpus (every minimised finding and the hand-written seeds): `<derive>\n<item>` files
    if let Ok(rd) = std::fs::read_dir(ctx.verif_dir.join("corpus/expand")) {
        let mut paths: Vec<_> = rd.flatten().map(|e| e.path()).collect();
        paths.sort();
        for p in paths {
            let Ok(text) = std::fs::read_to_string(&p) else { continue };
            let mut it = text.splitn(2, '\n');
            let (Some(derive), Some(item)) = (it.next(), it.next()) else { continue };
            let c = Case { derive: derive.trim().to_string(), item: item.trim().to_string() };
            rep.evidence.eval(1);
            rep.evidence.label("corpus");
            match eval_case(&c) {
                Ok((_, Some(pi))) => {
                    let loc = format!("{}:{}", pi.file.rsplit("impl/src/").next().unwrap_or(&pi.file), pi.line);
                    rep.violations.push(make_violation(&json!({"derive": c.derive, "item": c.item, "panic_msg": pi.msg, "panic_file": pi.file, "panic_line": pi.line, "loc": loc})));
                }
                Ok(_) => {}
                Err(e) => rep.infra_errors.push(format!("corpus file {}: {e}", p.display())),
            }
        }
    }
    // E3: coverage-guided campaign over the generators' decisions (thorough tier)
    if ctx.tier == Tier::Thorough {
        let secs: u64 = std::env::var("DMV_FUZZ_SECS").ok().and_then(|s| s.parse().ok()).unwrap_or(240);
        match super::fuzzrun::run_campaign(ctx, "expand_any", secs, 8, true) {
            Ok(c) => {
                rep.evidence.set("fuzz_expand_any_executions", json!(c.runs));
                rep.evidence.eval(c.runs);
                for bytes in c.crashes {
                    let dice: Vec<u16> = bytes.chunks(2).map(|c| u16::from_le_bytes([c[0], *c.get(1).unwrap_or(&0)])).collect();
                    match fuzz_one(dice) {
                        Some((derive, item, msg, sig)) => rep.violations.push(Violation {
                            sig,
                            summary: format!("internal failure at {} deriving {derive}: {}", msg.split(':').next().unwrap_or("").trim_start_matches("panic at "), msg),
                            case: json!({"derive": derive, "item": item}),
                            expected: "Ok, Err(diagnostic) or a deliberate panic!/assert! diagnostic".into(),
                            observed: msg,
                        }),
                        None => rep.infra_errors.push("fuzz target expand_any crashed on an input the in-process oracle accepts (timeout/oom?)".into()),
                    }
                }
            }
            Err(e) => rep.infra_errors.push(format!("fuzz campaign expand_any: {e}")),
        }
    }
    // bounded time
    let t = timing_families();
    let mut by_fam: BTreeMap<String, Vec<(usize, f64)>> = BTreeMap::new();
    for (f, n, s) in &t {
        by_fam.entry(f.clone()).or_default().push((*n, *s));
    }
    rep.evidence.set("timing_s", json!(by_fam));
    for (f, v) in &by_fam {
        let (t1, t4) = (v[0].1.max(1e-6), v[2].1);
        // growth worse than cubic between n and 4n AND > 5 s at n = 2000 → reproduce three times
        if t4 > 5.0 && t4 / t1 > 64.0 * 1.5 {
            let again = (0..2).all(|_| {
                let tt = timing_families();
                tt.iter().any(|(ff, n, s)| ff == f && *n == 2000 && *s > 5.0)
            });
            if again {
                rep.violations.push(Violation {
                    sig: None,
                    summary: format!("expansion time of family `{f}` grows worse than cubically: {v:?}"),
                    case: json!({"timing_family": f}),
                    expected: "bounded (polynomially small) time".into(),
                    observed: format!("{v:?}"),
                });
            }
        }
    }
    // minimise each violation (token-tree deletion) and de-duplicate by call site
    let mut seen = std::collections::HashSet::new();
    let mut out = vec![];
    for v in rep.violations.drain(..) {
        let key = format!("{}|{}", v.summary.split(" for input").next().unwrap_or(""), v.case["derive"]);
        if !seen.insert(key) {
            continue;
        }
        out.push(minimise(v));
    }
    rep.violations = out;
    rep.evidence.exhaustive = Some(false);
    rep.evidence.explanation = format!("all strings of length <= {} over the 28-symbol alphabet go through the literal parser (exhaustive sub-space); everything else is seeded sampling", ctx.tier.pick(4, 5));
    rep
}

fn make_violation(v: &Value) -> Violation {
    Violation {
        sig: sig_for(v),
        summary: format!(
            "internal failure at {} deriving {}: {}",
            v["loc"].as_str().unwrap_or("?"),
            v["derive"].as_str().unwrap_or("?"),
            v["panic_msg"].as_str().unwrap_or("").chars().take(160).collect::<String>()
        ),
        case: json!({"derive": v["derive"], "item": v["item"]}),
        expected: "Ok, Err(diagnostic) or a deliberate panic!/assert! diagnostic".into(),
        observed: format!("panic at {}:{}: {}", v["panic_file"].as_str().unwrap_or(""), v["panic_line"], v["panic_msg"].as_str().unwrap_or("")),
    }
}

fn fails_same(derive: &str, item: &str, loc: &str) -> bool {
    if derive == "<literal parser>" {
        return match dm::guarded(|| super::lit::dm_view(item)) {
            Err(p) => format!("{}:{}", p.file.rsplit("impl/src/").next().unwrap_or(&p.file), p.line) == loc,
            _ => false,
        };
    }
    match eval_case(&Case { derive: derive.to_string(), item: item.to_string() }) {
        Ok((_, Some(p))) => format!("{}:{}", p.file.rsplit("impl/src/").next().unwrap_or(&p.file), p.line) == loc,
        _ => false,
    }
}

/// greedy deletion of token trees (or characters for literals) preserving the same failing call site
fn minimise(v: Violation) -> Violation {
    let case0 = v.case.clone();
    let (Some(derive), Some(item)) = (case0["derive"].as_str(), case0["item"].as_str()) else { return v };
    let loc = v.summary.split(" at ").nth(1).and_then(|s| s.split(' ').next()).unwrap_or("").to_string();
    if loc.is_empty() || !fails_same(derive, item, &loc) {
        return v;
    }
    let mut cur = item.to_string();
    if derive != "<literal parser>" {
        if let Ok(ts) = cur.parse::<TokenStream>() {
            cur = ts.to_string();
        }
    }
    if derive == "<literal parser>" {
        let mut progress = true;
        while progress {
            progress = false;
            let chars: Vec<char> = cur.chars().collect();
            for i in 0..chars.len() {
                let mut c = chars.clone();
                c.remove(i);
                let cand: String = c.into_iter().collect();
                if fails_same(derive, &cand, &loc) {
                    cur = cand;
                    progress = true;
                    break;
                }
            }
        }
    } else {
        let mut budget = 3000;
        loop {
            let Ok(ts) = cur.parse::<TokenStream>() else { break };
            let cands = deletions(&ts);
            let mut found = false;
            for c in cands {
                budget -= 1;
                if budget == 0 {
                    break;
                }
                let s = c.to_string();
                if s.len() < cur.len() && syn::parse_str::<syn::DeriveInput>(&s).is_ok() && fails_same(derive, &s, &loc) {
                    cur = s;
                    found = true;
                    break;
                }
            }
            if !found || budget == 0 {
                break;
            }
        }
    }
    let mut v = v;
    v.case = json!({"derive": derive, "item": cur});
    v
}

/// all streams obtained by deleting one token tree at any depth
fn deletions(ts: &TokenStream) -> Vec<TokenStream> {
    let tts: Vec<TokenTree> = ts.clone().into_iter().collect();
    let mut out = vec![];
    for i in 0..tts.len() {
        let mut v = tts.clone();
        v.remove(i);
        out.push(v.into_iter().collect());
    }
    for i in 0..tts.len().saturating_sub(1) {
        let mut v = tts.clone();
        v.remove(i);
        v.remove(i);
        out.push(v.into_iter().collect());
    }
    for i in 0..tts.len() {
        if let TokenTree::Group(g) = &tts[i] {
            for inner in deletions(&g.stream()) {
                let mut v = tts.clone();
                let mut ng = proc_macro2::Group::new(g.delimiter(), inner);
                ng.set_span(g.span());
                v[i] = TokenTree::Group(ng);
                out.push(v.into_iter().collect());
            }
        }
    }
    out
}

pub fn replay(_ctx: &Ctx, case: &Value) -> Report {
    let mut rep = Report::new(RULE);
    rep.evidence.eval(1);
    if let (Some(derive), Some(item)) = (case["derive"].as_str(), case["item"].as_str()) {
        if derive == "<literal parser>" {
            if let Err(p) = dm::guarded(|| super::lit::dm_view(item)) {
                let loc = format!("{}:{}", p.file.rsplit("impl/src/").next().unwrap_or(&p.file), p.line);
                rep.violations.push(make_violation(&json!({"derive": derive, "item": item, "panic_msg": p.msg, "panic_file": p.file, "panic_line": p.line, "loc": loc})));
            }
        } else {
            match eval_case(&Case { derive: derive.to_string(), item: item.to_string() }) {
                Ok((_, Some(p))) => {
                    let loc = format!("{}:{}", p.file.rsplit("impl/src/").next().unwrap_or(&p.file), p.line);
                    rep.violations.push(make_violation(&json!({"derive": derive, "item": item, "panic_msg": p.msg, "panic_file": p.file, "panic_line": p.line, "loc": loc})));
                }
                Ok(_) => {}
                Err(e) => rep.infra_errors.push(e),
            }
        }
    } else if case["worker"].is_object() {
        rep.infra_errors.push("worker-crash replays: re-run `dmv worker c18 <seed> <tier> <part> <nparts>` by hand".into());
    }
    rep
}

//! C18 — derive expansion is total: a result or a diagnostic, never an internal failure.
//!
//! In-process (E1): literals through the parser and through Display/Debug expansions; attribute token
//! streams (templates + mutations + random) on every attribute position; all item shapes x all 50 derives.
//! Work is split over child processes (`dmv worker c18 ..`) so that stack exhaustion or an abort shows up
//! as a crashed worker instead of killing the check.
use super::core::*;
use super::dm::{self, Derive, Outcome};
use super::progprop::Dice;
use proc_macro2::{TokenStream, TokenTree};
use proptest::strategy::{Strategy, ValueTree};
use serde_json::{json, Value};
use std::collections::BTreeMap;
use std::io::Write;
use std::process::{Command, Stdio};

pub const RULE: &str = "inputs: (1) format literals — every string of length <= L over a 28-symbol alphabet with 1-4 byte chars, plus seeded random long/Unicode/huge-number/unbalanced literals — through the literal parser and through Display/Debug expansions at struct, variant, field and enum level; (2) attribute bodies: documented templates per derive, mutated (delete/duplicate/swap/wrap/replace token trees) and random token streams from a 60-token vocabulary, nesting <= 6 (plus a deep-nesting family to depth 64; every fourth random body has 6..14 top-level tokens), From/Into tuple types of arity 0..5 against 0..3 fields, on container/variant/field positions incl. two attributes on one variant/field; the same items with field types and/or attribute arguments in None-delimited groups (as substituted by macro_rules!); format literals also spelled raw / fully escaped / suffixed / as byte and C strings; (3) item shapes (unit/tuple/named structs, enums incl. zero-variant, unions, generics, exotic field types, type/variant/field names with underscores, digits, raw and non-ASCII identifiers, every meta form of #[repr]) x all 50 derives; bounded time: scaling families for the argument scanner, the literal parser and the item size, and a 20 s per-case watchdog. Oracle: outcome must be Ok, Err(diagnostic) or a deliberate panic (explicit panic!/assert! line in impl/src); non-trivial = the input is rejected (error path) or contains a multi-byte character or an attribute; distinct by (derive, item text)";

#[derive(Clone, Debug)]
pub struct Case {
    pub derive: String,
    pub item: String,
    /// 0 = the item as written; 1..=3 = the item as it arrives from a `macro_rules!` expansion: field types (1), the
    /// arguments of its own attributes (2) or both (3) wrapped in None-delimited groups (`$t:ty`, `$e:expr` fragments)
    pub wrap: u8,
}

impl Case {
    pub fn plain(derive: &str, item: String) -> Case {
        Case { derive: derive.to_string(), item, wrap: 0 }
    }
}

fn canon(c: &Case) -> String {
    format!("{}|{}|{}", c.derive, c.item, c.wrap)
}

thread_local! {
    /// input classes of the case being generated (drained into the evidence labels by `run_part`; bounded because the
    /// generators are also used by C19 and the fuzz target, which never drain it)
    static CLASSES: std::cell::RefCell<Vec<&'static str>> = const { std::cell::RefCell::new(Vec::new()) };
}

fn mark(class: &'static str) {
    CLASSES.with(|c| {
        let mut c = c.borrow_mut();
        if c.len() < 64 && !c.contains(&class) {
            c.push(class);
        }
    });
}

/// input classes a quick run must contain at least this often (otherwise the run is inconclusive)
const CLASS_FLOORS: [(&str, u64); 8] = [
    ("class:second-attribute-on-a-variant-or-field", 5_000),
    ("class:from-into-tuple-type-of-any-arity", 2_000),
    ("class:identifiers-beyond-ascii-words", 10_000),
    ("class:repr-meta-forms", 3_000),
    ("class:literal-not-plainly-spelled", 5_000),
    ("class:pointer-placeholder-naming-a-field", 500),
    ("class:long-attribute-body", 2_000),
    ("class:none-delimited-groups", 30_000),
];

/// a token stream the way rustc hands over a substituted `$x:ty` / `$x:expr` fragment
fn none_group(ts: TokenStream) -> TokenStream {
    TokenStream::from(TokenTree::Group(proc_macro2::Group::new(proc_macro2::Delimiter::None, ts)))
}

/// wraps every top-level comma-separated segment of an attribute body (except string literals and single punctuation) in a
/// None-delimited group
fn wrap_segments(ts: TokenStream) -> TokenStream {
    let mut out = TokenStream::new();
    let mut cur: Vec<TokenTree> = vec![];
    let flush = |cur: &mut Vec<TokenTree>, out: &mut TokenStream| {
        if cur.is_empty() {
            return;
        }
        let only_lit = cur.len() == 1 && matches!(cur[0], TokenTree::Literal(_));
        let seg: TokenStream = cur.drain(..).collect();
        if only_lit {
            out.extend(seg);
        } else {
            out.extend(none_group(seg));
        }
    };
    for tt in ts {
        match &tt {
            TokenTree::Punct(p) if p.as_char() == ',' => {
                flush(&mut cur, &mut out);
                out.extend([tt]);
            }
            _ => cur.push(tt),
        }
    }
    flush(&mut cur, &mut out);
    out
}

/// the derive input as it arrives when the item was produced by a `macro_rules!` expansion (see `Case::wrap`)
pub fn macro_expanded(item: &syn::DeriveInput, attr_name: Option<&str>, wrap: u8) -> syn::DeriveInput {
    let mut item = item.clone();
    let wrap_ty = |f: &mut syn::Field| {
        let ty = f.ty.clone();
        f.ty = syn::Type::Group(syn::TypeGroup { group_token: Default::default(), elem: Box::new(ty) });
    };
    let wrap_attrs = |attrs: &mut Vec<syn::Attribute>| {
        for a in attrs.iter_mut() {
            if attr_name.is_some_and(|n| a.path().is_ident(n)) {
                if let syn::Meta::List(l) = &mut a.meta {
                    l.tokens = wrap_segments(l.tokens.clone());
                }
            }
        }
    };
    let types = wrap & 1 != 0;
    let args = wrap & 2 != 0;
    if args {
        wrap_attrs(&mut item.attrs);
    }
    let mut fields_of = |fields: &mut syn::Fields| {
        for f in fields.iter_mut() {
            if types {
                wrap_ty(f);
            }
            if args {
                wrap_attrs(&mut f.attrs);
            }
        }
    };
    match &mut item.data {
        syn::Data::Struct(s) => fields_of(&mut s.fields),
        syn::Data::Enum(e) => {
            for v in e.variants.iter_mut() {
                if args {
                    wrap_attrs(&mut v.attrs);
                }
                fields_of(&mut v.fields);
            }
        }
        syn::Data::Union(u) => {
            for f in u.fields.named.iter_mut() {
                if types {
                    wrap_ty(f);
                }
                if args {
                    wrap_attrs(&mut f.attrs);
                }
            }
        }
    }
    item
}

/// Per-case wall-clock watchdog of the worker processes: a case that runs longer than `LIMIT_S` makes the worker print
/// `{"hang": ..}` and exit, so that a hang (or a super-linear blow-up on a random input) ends the check with the input
/// in hand instead of blocking it. Normal cases take micro- to milliseconds; the limit is generous because the machine
/// may be loaded.
pub mod watchdog {
    use std::sync::Mutex;
    use std::time::Instant;

    pub const LIMIT_S: u64 = 20;
    static CUR: Mutex<Option<(Instant, String, String, u8)>> = Mutex::new(None);

    pub struct Guard;
    impl Drop for Guard {
        fn drop(&mut self) {
            if let Ok(mut g) = CUR.lock() {
                *g = None;
            }
        }
    }
    pub fn enter(c: &super::Case) -> Guard {
        if let Ok(mut g) = CUR.lock() {
            *g = Some((Instant::now(), c.derive.clone(), c.item.clone(), c.wrap));
        }
        Guard
    }
    pub fn enter_literal(l: &str) -> Guard {
        if let Ok(mut g) = CUR.lock() {
            *g = Some((Instant::now(), "<literal parser>".into(), l.to_string(), 0));
        }
        Guard
    }
    /// starts the watching thread (worker processes only)
    pub fn start() {
        std::thread::spawn(|| loop {
            std::thread::sleep(std::time::Duration::from_millis(250));
            let hung = match CUR.lock() {
                Ok(g) => g.as_ref().and_then(|(t0, derive, item, wrap)| {
                    let s = t0.elapsed().as_secs_f64();
                    (s > LIMIT_S as f64).then(|| serde_json::json!({"hang": {"derive": derive, "item": item, "wrap": wrap, "secs": s}}))
                }),
                Err(_) => None,
            };
            if let Some(v) = hung {
                use std::io::Write;
                let out = std::io::stdout();
                let mut w = out.lock();
                let _ = writeln!(w, "{v}");
                let _ = w.flush();
                std::process::exit(3);
            }
        });
    }
}

/// Evaluates one case; returns Some((panic info)) on an internal failure.
pub fn eval_case(c: &Case) -> Result<(&'static str, Option<dm::PanicInfo>), String> {
    let d = Derive::by_name(&c.derive).ok_or("unknown derive")?;
    let mut item: syn::DeriveInput = syn::parse_str(&c.item).map_err(|e| format!("generator: item does not parse: {e}"))?;
    if c.wrap != 0 {
        item = macro_expanded(&item, d.info().attr, c.wrap);
    }
    let _guard = watchdog::enter(c);
    let out = dm::expand(d, &item);
    Ok(match out {
        Outcome::Ok(ts) => {
            // NB: whether the *tokens* are valid Rust is rustc's business (garbage arguments are handed over
            // verbatim and rustc reports them at the user's tokens) — not an internal failure.
            let _ = ts;
            ("ok", None)
        }
        Outcome::Err(_) => ("err", None),
        Outcome::Panic(p) => {
            if dm::is_deliberate(&p) {
                ("deliberate_panic", None)
            } else {
                ("panic", Some(p))
            }
        }
    })
}

// ------------------------------------------------------------------------------------------------
// generators

const FIELD_TYPES: [&str; 27] = [
    "i32", "T", "Backtrace", "std::backtrace::Backtrace", "Vec<T>", "&'a str", "[u8; N]", "(i32, T)", "Box<dyn Fn(T) -> T>", "<T as Tr>::A", "fn(T) -> T", "*const T",
    "[T]", "!", "_", "impl Clone", "(T)", "m!()", "dyn Tr<T> + 'a", "Option<&'a mut T>", "::std::string::String",
    "core::marker::PhantomData<T>", "[[T; 2]; N]", "for<'b> fn(&'b T)",
    // (found uncovered by the coverage measurement: `Fn` sugar without a return type, inside a path, with a lifetime bound)
    "Box<dyn Fn(u8)>", "Box<dyn FnMut(T) + 'a>", "M<dyn Fn() -> T>",
];

const GENERICS: [&str; 7] = [
    "", "<T>", "<'a, T>", "<'a, T: Clone, const N: usize>", "<const N: usize, T>", "<T: Tr<A = i32> + ?Sized>", "<'a: 'b, 'b, T = i32, const N: usize = 3>",
];

pub fn gen_plain_item(d: &mut Dice) -> String {
    gen_item(d, None)
}

/// One item carrying attributes of a dice-chosen attribute-taking derive on container / variant / field positions
/// (shared with C19 and the fuzz target `expand_any`).
pub fn gen_attributed_case(d: &mut Dice) -> Case {
    let with_attr: Vec<Derive> = Derive::all().filter(|d| d.info().attr.is_some()).collect();
    let der = with_attr[d.pick(with_attr.len())];
    let name = der.info().attr.unwrap();
    let dn = der.name();
    let f = move |d: &mut Dice, pos: usize| -> Option<String> {
        // attributes appear on a position with moderate probability so that most items carry 1-2 of them
        let p = [55, 35, 35][pos];
        if d.chance(p) {
            Some(attr_body(dn, d))
        } else {
            None
        }
    };
    let item = gen_item(d, Some((name, &f)));
    Case { derive: dn.to_string(), item, wrap: 0 }
}

fn gen_item(d: &mut Dice, attr: Option<(&str, &dyn Fn(&mut Dice, usize) -> Option<String>)>) -> String {
    // positions: 0 container, 1 variant, 2 field
    let at = |d: &mut Dice, pos: usize| -> String {
        match &attr {
            Some((name, f)) => match f(d, pos) {
                Some(body) => format!("#[{name}{body}] "),
                None => String::new(),
            },
            None => String::new(),
        }
    };
    let generics = GENERICS[d.pick(GENERICS.len())];
    let wh = if !generics.is_empty() && d.chance(20) { " where T: Clone" } else { "" };
    let fty = |d: &mut Dice| FIELD_TYPES[d.weighted(&[8, 6, 2, 1, 2, 2, 2, 2, 1, 1, 1, 1, 1, 1, 1, 1, 1, 1, 1, 1, 1, 1, 1, 1, 1, 1, 1])].to_string();
    let names = ["a", "b", "source", "backtrace", "r#type", "_0"];
    // identifiers beyond plain ASCII words (underscores, digits, raw, non-ASCII XID incl. characters whose case mapping
    // changes their length): the expanders re-case names and build new identifiers from them
    let odd_fields = ["_a", "__", "ünï", "a1", "ßs", "r#match"];
    let with_attr = attr.is_some();
    // a variant / field may carry a second attribute of the derive (the merge / "single attribute" paths of the positions)
    let at2 = |d: &mut Dice, pos: usize| -> String {
        let a = at(d, pos);
        if with_attr && d.chance(18) {
            let b = at(d, pos);
            if !a.is_empty() && !b.is_empty() {
                mark("class:second-attribute-on-a-variant-or-field");
            }
            format!("{a}{b}")
        } else {
            a
        }
    };
    let fields = |d: &mut Dice, at: &dyn Fn(&mut Dice, usize) -> String| -> String {
        let _ = at;
        match d.pick(4) {
            0 => String::new(),
            1 => {
                let n = d.range(0, 3);
                format!("({})", (0..n).map(|_| format!("{}{}", at2(d, 2), fty(d))).collect::<Vec<_>>().join(", "))
            }
            _ => {
                let n = d.range(0, 3);
                let odd = d.chance(12);
                if odd && n > 0 {
                    mark("class:identifiers-beyond-ascii-words");
                }
                format!(
                    " {{ {} }}",
                    (0..n)
                        .map(|i| {
                            let name = if odd { odd_fields[(i + d.pick(4)) % odd_fields.len()] } else { names[(i + d.pick(3)) % names.len()] };
                            format!("{}{}: {}", at2(d, 2), name, fty(d))
                        })
                        .collect::<Vec<_>>()
                        .join(", ")
                )
            }
        }
    };
    let cont = at(d, 0);
    let cont2 = if d.chance(15) { at(d, 0) } else { String::new() };
    // `#[repr(..)]` is read by TryFrom (utils.rs `ReprInt`): every meta form, hints with arguments, several hints
    const REPRS: [&str; 14] = [
        "#[repr(u8)] ",
        "#[repr(C)] ",
        "#[repr(i64, C)] ",
        "#[repr(transparent)] ",
        "#[repr(align(8))] ",
        "#[repr(C, packed(2), u8)] ",
        "#[repr] ",
        "#[repr = \"C\"] ",
        "#[repr(u8(x))] ",
        "#[repr(\"C\")] ",
        "#[repr()] ",
        "#[repr(u8)] #[repr(i16)] ",
        "#[repr(u8 = 1)] ",
        "#[repr(align(4))] #[repr(i8)] #[repr(C)] ",
    ];
    let repr_p = if attr.as_ref().is_some_and(|(n, _)| *n == "try_from") { 60 } else { 15 };
    let repr = if d.chance(repr_p) {
        let i = d.pick(REPRS.len());
        if i >= 4 {
            mark("class:repr-meta-forms");
        }
        REPRS[i]
    } else {
        ""
    };
    let sname = if d.chance(10) {
        mark("class:identifiers-beyond-ascii-words");
        ["_S", "__", "S1_b", "Ünï", "r#type", "İx"][d.pick(6)]
    } else {
        "S"
    };
    match d.weighted(&[5, 5, 1]) {
        0 => {
            let f = fields(d, &at);
            let semi = if f.starts_with(" {") { "" } else { ";" };
            if f.starts_with(" {") {
                format!("{cont}{cont2}{repr}struct {sname}{generics}{wh}{f}")
            } else {
                format!("{cont}{cont2}{repr}struct {sname}{generics}{f}{wh}{semi}")
            }
        }
        1 => {
            let nv = d.range(0, 3);
            // (one multi-word name in several casings: across items of one process the same word re-cased differently
            // must not influence each other — C19 expands these items after one another)
            let vnames = ["A", "B", "r#Type", ["FooBar", "Foobar", "FOOBAR", "fooBar", "Foo_Bar"][d.weighted(&[5, 2, 1, 1, 1])]];
            let voff = d.pick(4);
            let odd_variants = ["_A", "A1_b", "İx", "Ünï", "__", "XMLHttp", "a", "ǅx"];
            let odd = d.chance(12);
            if odd && nv > 0 {
                mark("class:identifiers-beyond-ascii-words");
            }
            let off = d.pick(8);
            let vs: Vec<String> = (0..nv)
                .map(|i| {
                    let a = at2(d, 1);
                    let f = fields(d, &at);
                    let disc = if d.chance(15) { [" = 1", " = -3", " = 1 << 2"][d.pick(3)] } else { "" };
                    format!("{a}{}{f}{disc}", if odd { odd_variants[(off + i) % 8] } else { vnames[(voff + i) % 4] })
                })
                .collect();
            format!("{cont}{cont2}{repr}enum {}{generics}{wh} {{ {} }}", if sname == "S" { "E" } else { sname }, vs.join(", "))
        }
        _ => {
            let n = d.range(1, 2);
            format!(
                "{cont}{repr}union U{generics}{wh} {{ {} }}",
                (0..n).map(|i| format!("{}{}: {}", at(d, 2), names[i], fty(d))).collect::<Vec<_>>().join(", ")
            )
        }
    }
}

const VOCAB: [&str; 60] = [
    "skip", "ignore", "forward", "owned", "ref", "ref_mut", "source", "backtrace", "not", "bound", "bounds", "rename_all", "repr", "types", "fmt",
    "_variant", "self", "i32", "u8", "String", "T", "r#type", "_0", "a", "\"lit\"", "\"{}\"", "\"{0}\"", "\"{_0}\"", "\"{a:?}\"", "\"snake_case\"",
    "1", "1.5", "'c'", "b\"x\"", "true", ",", "=", ":", "::", "<", ">", "&", "*", "'a", "|", "..", "->", "=>", "#", "!", "?", ";", "+", "-", ".", "==",
    "as", "dyn", "where", "crate",
];

/// documented attribute forms per derive (attribute body incl. the delimiters; "" = bare `#[attr]`)
fn templates(derive: &str) -> &'static [&'static str] {
    match derive {
        "Display" | "Binary" | "Octal" | "LowerHex" | "UpperHex" | "LowerExp" | "UpperExp" | "Pointer" => &[
            "(\"{}\", _0)", "(\"{a} {b}\")", "(\"{_0:?} {}\", self.x())", "(bound(T: Clone))", "(bounds(T: core::fmt::Display, Vec<T>: Clone))",
            "(rename_all = \"snake_case\")", "(renamed_all = \"snake_case\")", "(rename_all = 1)", "(\"{_variant}: {}\", _0)", "(\"{x}\", x = a.len())", "(\"{:>1$}\", _0, 7)", "(\"{0:.*}\", 2, _0)",
            "(fmt = \"{}\", _0)", "(fmt = \"{}\", \"_0\")", "(bound = \"T: Clone\")", "(\"{}\", _0 == _1)", "(\"{}\", _0 as M<i32, T>)",
            "(\"{_0:p} {}\", _0)", "(\"{a:p} {b:p}\")", "(\"{_0:p}\", _0 = 1)",
        ],
        "Debug" => &["(skip)", "(ignore)", "(\"{}\", _0)", "(\"{a:?}\")", "(bound(T: Clone))", "(bounds(T: core::fmt::Debug))", "(\"{}\", a.len())", "(fmt = \"{}\", _0)", "(bound = \"T: Clone\")"],
        "From" => &["", "(forward)", "(skip)", "(ignore)", "(i32, u8)", "((i32, u8))", "(&'a str, String)", "(types(i32))", "(types(1))", "(types(\"i32\"))", "(types(i32, u8), forward)"],
        "Into" => &["", "(owned)", "(ref)", "(ref_mut)", "(owned, ref(i32), ref_mut)", "(i32, i64)", "(skip)", "(ignore)", "(owned(i64), ref)", "(owned(i64,), ref)", "(owned(i64), owned, ref_mut)", "(owned(i64,), ref(i32,),)", "(i32, i64,)", "(owned(i64) ref)", "(types(i32))", "(owned(types(i32)))", "(owned, types(i32, i64))", "(repr(u8))"],
        "AsRef" | "AsMut" => &["", "(forward)", "(skip)", "(ignore)", "(i32)", "(str, [u8])", "(T)"],
        "TryFrom" => &["(repr)"],
        "Error" => &["(source)", "(backtrace)", "(not(source))", "(not(backtrace))", "(ignore)", "(source, backtrace)", "(not(source), backtrace)", "(not(not(source)))", "(not(source, backtrace))", "(not(source), not(backtrace))"],
        "Deref" | "DerefMut" => &["", "(forward)", "(ignore)"],
        "Index" | "IndexMut" => &["", "(ignore)"],
        "IntoIterator" => &["", "(ignore)", "(owned)", "(ref)", "(ref_mut)", "(owned, ref, ref_mut)"],
        "IsVariant" => &["(ignore)"],
        "Unwrap" | "TryUnwrap" | "TryInto" => &["(ignore)", "(owned)", "(ref)", "(ref_mut)", "(owned, ref, ref_mut)", ""],
        "Mul" | "Div" | "Rem" | "Shr" | "Shl" | "MulAssign" | "DivAssign" | "RemAssign" | "ShrAssign" | "ShlAssign" => &["(forward)"],
        _ => &[],
    }
}

fn fam_is_fmt(derive: &str) -> bool {
    matches!(derive, "Display" | "Binary" | "Octal" | "LowerHex" | "UpperHex" | "LowerExp" | "UpperExp" | "Pointer" | "Debug")
}

fn random_tokens(d: &mut Dice, depth: usize) -> String {
    // mostly short bodies; every fourth is long (argument lists of a dozen tokens)
    let n = if depth >= 2 && d.chance(25) {
        mark("class:long-attribute-body");
        d.range(6, 14)
    } else {
        d.range(0, 5)
    };
    let mut out = vec![];
    for _ in 0..n {
        if depth > 0 && d.chance(20) {
            let inner = random_tokens(d, depth - 1);
            let (o, c) = [("(", ")"), ("[", "]"), ("{", "}")][d.pick(3)];
            out.push(format!("{o}{inner}{c}"));
        } else {
            out.push(VOCAB[d.pick(VOCAB.len())].to_string());
        }
    }
    out.join(" ")
}

fn mutate(body: &str, d: &mut Dice) -> String {
    // token-tree level mutation of the group content
    let Ok(ts) = body.parse::<TokenStream>() else { return body.to_string() };
    let mut tts: Vec<TokenTree> = ts.into_iter().collect();
    if tts.len() == 1 {
        if let TokenTree::Group(g) = &tts[0] {
            let mut inner: Vec<String> = g.stream().into_iter().map(|t| t.to_string()).collect();
            let nmut = d.range(1, 3);
            for _ in 0..nmut {
                let len = inner.len();
                match d.pick(6) {
                    0 if len > 0 => {
                        inner.remove(d.pick(len));
                    }
                    1 if len > 0 => {
                        let i = d.pick(len);
                        let x = inner[i].clone();
                        inner.insert(i, x);
                    }
                    2 if len > 1 => {
                        let i = d.pick(len);
                        let j = d.pick(len);
                        inner.swap(i, j);
                    }
                    3 if len > 0 => {
                        let i = d.pick(len);
                        inner[i] = format!("({})", inner[i]);
                    }
                    4 if len > 0 => {
                        let i = d.pick(len);
                        inner[i] = VOCAB[d.pick(VOCAB.len())].to_string();
                    }
                    _ => {
                        let i = d.pick(len + 1);
                        inner.insert(i, VOCAB[d.pick(VOCAB.len())].to_string());
                    }
                }
            }
            return format!("({})", inner.join(" "));
        }
    }
    tts.clear();
    body.to_string()
}

/// From / Into: a tuple type of arity 0..5 (the structs / variants have 0..3 fields: one element less, as many, one or two
/// more — the arity diagnostic of `FieldsExt::validate_type`), bare, several of them, or wrapped in a reference kind
fn tuple_arity_body(derive: &str, d: &mut Dice) -> String {
    let elems = ["u8", "u16", "u32", "i64", "String", "T", "&'a str"];
    let tuple = |d: &mut Dice| -> String {
        let k = d.range(0, 5);
        let inner: Vec<&str> = (0..k).map(|_| elems[d.pick(elems.len())]).collect();
        match k {
            1 if d.chance(50) => format!("({},)", inner[0]),
            _ => format!("({})", inner.join(", ")),
        }
    };
    mark("class:from-into-tuple-type-of-any-arity");
    let a = tuple(d);
    match (derive, d.pick(4)) {
        ("Into", 0) => format!("({}({a}))", ["owned", "ref", "ref_mut"][d.pick(3)]),
        ("Into", 1) => format!("(owned({a}), ref({}))", tuple(d)),
        (_, 2) => format!("({a}, {})", tuple(d)),
        _ => format!("({a})"),
    }
}

fn attr_body(derive: &str, d: &mut Dice) -> String {
    let t = templates(derive);
    let all: Vec<&str> = Derive::all().flat_map(|x| templates(x.name()).iter().copied()).collect();
    if matches!(derive, "From" | "Into") && d.chance(18) {
        return tuple_arity_body(derive, d);
    }
    if fam_is_fmt(derive) && d.chance(8) {
        // a format literal followed by a long random argument list (`<`, `>`, `|`, `::`, `->`, `as`, groups)
        return format!("({}, {})", ["\"{}\"", "\"{0} {1}\"", "\"{x}\""][d.pick(3)], random_tokens(d, 3));
    }
    match d.weighted(&[3, 4, 2, 2, 1]) {
        0 if !t.is_empty() => t[d.pick(t.len())].to_string(),
        1 if !t.is_empty() => mutate(t[d.pick(t.len())], d),
        2 => all[d.pick(all.len())].to_string(), // a form documented for another derive
        3 => format!("({})", random_tokens(d, 3)),
        _ => match d.pick(5) {
            0 => String::new(),
            1 => format!(" = {}", ["\"x\"", "1", "skip", "\"{}\""][d.pick(4)]),
            2 => format!("[{}]", random_tokens(d, 1)),
            3 => format!("{{{}}}", random_tokens(d, 1)),
            _ => {
                // deep nesting
                let depth = [4usize, 16, 64][d.pick(3)];
                format!("({}x{})", "(".repeat(depth), ")".repeat(depth))
            }
        },
    }
}

fn literal_adversarial(d: &mut Dice) -> String {
    let frag = [
        "{", "}", "{{", "}}", "{}", "{0}", "{a}", ":", "{:", "{:?}", "{:>", "$", "{:1$}", "{:.*}", "{99999999999999999999}",
        "{:1$.340282366920938463463374607431768211456}", "{:18446744073709551616}", "{0:65536}", "é", "→", "𝒳", "\u{301}", "\u{202e}", "\u{10ffff}",
        "\u{0}", "\\", "\"", "\n", "\t", " ", "{_variant}", "{_0}", "{_1:p}", "{self}", "{r#a}", "{a.b}", "{:#?}", "{:x?}", "{:é^9}", "{:𝒳<}", "{:}<5}",
        "{:{<5}", "{_0\u{2003}}", "{a\u{a0}:>4}", "{:?\u{3000}}", "\u{2003}", "\u{a0}", "{0:0$}", "{:00$}", "{w$}", "{:w$.p$}", "{:+#0", "{:-}", "{:e}", "{:E}", "{:p}", "{:b}", "{:o}", "{:X}", "{:X?}", "{:?x}", "{9a}", "{a9}", "{_}",
        "{_0:p}", "{a:p}", "{_0:p} {_0}", "{a:p}{w}",
    ];
    let n = d.range(1, 8);
    let mut s = String::new();
    for _ in 0..n {
        if d.chance(10) {
            // long run
            let f = frag[d.pick(frag.len())];
            for _ in 0..d.range(2, 200) {
                s.push_str(f);
            }
        } else {
            s.push_str(frag[d.pick(frag.len())]);
        }
    }
    s
}

fn lit_tok(s: &str) -> String {
    proc_macro2::Literal::string(s).to_string()
}

/// the literal in one of the ways Rust lets one write it (0 = the plain escaped string)
fn lit_spelling(s: &str, how: usize) -> String {
    match how {
        1 => {
            // raw string with enough `#`
            if s.contains('\r') {
                return lit_tok(s);
            }
            let mut n = 0;
            while s.contains(&format!("\"{}", "#".repeat(n))) {
                n += 1;
            }
            format!("r{h}\"{s}\"{h}", h = "#".repeat(n))
        }
        2 => {
            // every character as an escape
            let mut o = String::from("\"");
            for c in s.chars() {
                if (c as u32) < 0x80 {
                    o.push_str(&format!("\\x{:02x}", c as u32));
                } else {
                    o.push_str(&format!("\\u{{{:x}}}", c as u32));
                }
            }
            o.push('"');
            o
        }
        3 => format!("{}suffix", lit_tok(s)),
        4 => format!("b{}", proc_macro2::Literal::string(&s.chars().filter(|c| c.is_ascii()).collect::<String>())),
        5 => format!("c{}", proc_macro2::Literal::string(&s.replace('\0', ""))),
        6 => {
            // a line continuation and a newline inside the literal
            format!("\"\\\n    {}", &lit_tok(s)[1..])
        }
        _ => lit_tok(s),
    }
}

/// literal placed at struct / variant / field / enum level of Display and Debug
fn literal_items(lit: &str, d: &mut Dice) -> Vec<Case> {
    let mut v = vec![];
    let args = ["", ", _0", ", a = _0", ", _0, _0", ", *_0 + 1"][d.pick(5)];
    let how = d.weighted(&[12, 2, 2, 1, 1, 1, 1]);
    if how != 0 {
        mark("class:literal-not-plainly-spelled");
    }
    if lit.contains("{_0:p") || lit.contains("{a:p") {
        mark("class:pointer-placeholder-naming-a-field");
    }
    let l = lit_spelling(lit, how);
    v.push(Case::plain("Display", format!("#[display({l}{args})] struct S<T>(T);")));
    v.push(Case::plain("Display", format!("#[display({l})] struct S<T> {{ a: T, w: usize }}")));
    v.push(Case::plain("Display", format!("enum E<T> {{ #[display({l}{args})] A(T), B }}")));
    v.push(Case::plain("Display", format!("#[display({l})] enum E<T> {{ A(T), #[display(\"b\")] B }}")));
    v.push(Case::plain("Debug", format!("#[debug({l}{args})] struct S<T>(T);")));
    v.push(Case::plain("Debug", format!("struct S<T> {{ #[debug({l})] a: T, b: i32 }}")));
    v.push(Case::plain("Debug", format!("enum E<T> {{ #[debug({l}{args})] A(T), B {{ #[debug({l})] a: i32 }} }}")));
    v.push(Case::plain("LowerHex", format!("#[lower_hex({l}{args})] union U {{ a: i32 }}")));
    v
}

pub struct PartStats {
    pub evaluations: u64,
    pub nontrivial: Vec<u64>,
    pub labels: BTreeMap<String, u64>,
    pub samples: Vec<Value>,
    pub violations: Vec<Value>,
}

/// The work of one part (deterministic function of seed, tier, part, nparts). Runs in a child process.
pub fn run_part(seed: u64, tier: Tier, part: usize, nparts: usize, progress: &mut dyn FnMut(&str)) -> PartStats {
    let mut st = PartStats { evaluations: 0, nontrivial: vec![], labels: BTreeMap::new(), samples: vec![], violations: vec![] };
    let seen_loc: std::cell::RefCell<std::collections::HashSet<String>> = Default::default();
    let eval = |c: &Case, source: &str, st: &mut PartStats| {
        st.evaluations += 1;
        CLASSES.with(|cl| {
            for l in cl.borrow_mut().drain(..) {
                *st.labels.entry(l.to_string()).or_insert(0) += 1;
            }
        });
        if c.wrap != 0 {
            *st.labels.entry("class:none-delimited-groups".to_string()).or_insert(0) += 1;
        }
        match eval_case(c) {
            Err(e) => {
                *st.labels.entry(format!("{source}:generator_unparsable")).or_insert(0) += 1;
                let _ = e;
            }
            Ok((kind, bad)) => {
                *st.labels.entry(format!("{source}:{kind}")).or_insert(0) += 1;
                let multibyte = c.item.bytes().any(|b| b >= 0x80);
                if kind != "ok" || multibyte || c.item.contains("#[") {
                    st.nontrivial.push(hash_str(&canon(c)));
                }
                if st.samples.len() < 3 && (st.evaluations % 997 == 1) {
                    st.samples.push(json!({"source": source, "derive": c.derive, "item": c.item, "outcome": kind}));
                }
                if let Some(p) = bad {
                    let loc = format!("{}:{}", p.file.rsplit("impl/src/").next().unwrap_or(&p.file), p.line);
                    if seen_loc.borrow_mut().insert(format!("{loc}|{}", c.derive)) {
                        st.violations.push(json!({
                            "derive": c.derive, "item": c.item, "wrap": c.wrap, "panic_msg": p.msg, "panic_file": p.file, "panic_line": p.line, "loc": loc, "source": source,
                        }));
                    }
                }
            }
        }
    };

    // (1a) exhaustive short literals through the parser (cheap) — this part's slice
    let maxlen = tier.pick(4, 5);
    let lits = super::p03::short_strings(maxlen);
    let mut k = 0usize;
    for (i, l) in lits.iter().enumerate() {
        if i % nparts != part {
            continue;
        }
        st.evaluations += 1;
        k += 1;
        let r = {
            let _g = watchdog::enter_literal(l);
            dm::guarded(|| super::lit::dm_view(l))
        };
        match r {
            Ok(Some(_)) => *st.labels.entry("parser:accepts".into()).or_insert(0) += 1,
            Ok(None) => *st.labels.entry("parser:rejects".into()).or_insert(0) += 1,
            Err(p) => {
                *st.labels.entry("parser:panic".into()).or_insert(0) += 1;
                let loc = format!("{}:{}", p.file.rsplit("impl/src/").next().unwrap_or(&p.file), p.line);
                if seen_loc.borrow_mut().insert(format!("{loc}|parser")) {
                    st.violations.push(json!({"derive": "<literal parser>", "item": l, "panic_msg": p.msg, "panic_file": p.file, "panic_line": p.line, "loc": loc, "source": "parser"}));
                }
            }
        }
        if l.bytes().any(|b| b >= 0x80) || l.contains('{') {
            st.nontrivial.push(hash_str(&format!("lit|{l}")));
        }
        // every 40th short literal also through the expansions
        if k % 40 == 0 {
            let mut d = Dice::new(vec![(i % 65536) as u16, ((i / 7) % 65536) as u16]);
            for c in literal_items(l, &mut d) {
                eval(&c, "literal_short", &mut st);
            }
        }
    }
    progress("short literals done");

    // (1b) adversarial literals, (2) attribute bodies, (3) item shapes: proptest dice, seeded per part
    let n_lit = tier.pick(16_000, 160_000) / nparts;
    let n_attr = tier.pick(220_000, 2_000_000) / nparts;
    let n_shape = tier.pick(24_000, 200_000) / nparts;
    let mut runner = runner_for(seed, "C18", part as u32 + 1);
    let dice = proptest::collection::vec(proptest::num::u16::ANY, 96..=96);
    for t in draw(&mut runner, &dice, n_lit) {
        let mut d = Dice::new(t.current());
        let l = literal_adversarial(&mut d);
        st.evaluations += 1;
        let parsed = {
            let _g = watchdog::enter_literal(&l);
            dm::guarded(|| super::lit::dm_view(&l))
        };
        if let Err(p) = parsed {
            let loc = format!("{}:{}", p.file.rsplit("impl/src/").next().unwrap_or(&p.file), p.line);
            if seen_loc.borrow_mut().insert(format!("{loc}|parser")) {
                st.violations.push(json!({"derive": "<literal parser>", "item": l, "panic_msg": p.msg, "panic_file": p.file, "panic_line": p.line, "loc": loc, "source": "parser"}));
            }
        }
        for c in literal_items(&l, &mut d) {
            eval(&c, "literal_adversarial", &mut st);
        }
    }
    progress("adversarial literals done");
    for t in draw(&mut runner, &dice, n_attr) {
        let mut d = Dice::new(t.current());
        let c = gen_attributed_case(&mut d);
        eval(&c, "attribute", &mut st);
    }
    progress("attributes done");
    // (2b) the same kinds of items as they arrive from a `macro_rules!` expansion: field types / attribute arguments
    // in None-delimited groups
    let n_wrap = tier.pick(40_000, 300_000) / nparts;
    for t in draw(&mut runner, &dice, n_wrap) {
        let mut d = Dice::new(t.current());
        let wrap = 1 + d.pick(3) as u8;
        let mut c = if d.chance(70) {
            gen_attributed_case(&mut d)
        } else {
            let der = Derive(d.pick(dm::DERIVES.len()));
            Case::plain(der.name(), gen_item(&mut d, None))
        };
        c.wrap = wrap;
        eval(&c, "none_groups", &mut st);
    }
    progress("none-delimited groups done");
    for t in draw(&mut runner, &dice, n_shape) {
        let mut d = Dice::new(t.current());
        let item = gen_item(&mut d, None);
        // all 50 derives on a rotating subset of 10 per item (all 50 are covered evenly across items)
        let off = d.pick(5);
        for k in 0..10 {
            let der = Derive(off * 10 + k);
            eval(&Case::plain(der.name(), item.clone()), "shape", &mut st);
        }
    }
    progress("shapes done");
    st
}

/// scaling families for the bounded-time clause; returns (family, n, seconds)
fn timing_families() -> Vec<(String, usize, f64)> {
    let mut out = vec![];
    let disp = |body: String| format!("#[display({body})] struct S(i32);");
    let fams: Vec<(&str, &str, Box<dyn Fn(usize) -> String>)> = vec![
        // argument scanner
        ("a<a<a..", "Display", Box::new(move |n| disp(format!("\"{{}}\", {}", vec!["a"; n].join(" < "))))),
        ("|a|a|a..", "Display", Box::new(move |n| disp(format!("\"{{}}\", {}", vec!["a"; n].join(" | "))))),
        ("::<::<..", "Display", Box::new(move |n| disp(format!("\"{{}}\", {}", "a::<".repeat(n))))),
        ("a,a,a.. (n arguments)", "Display", Box::new(move |n| disp(format!("\"{{}}\", {}", vec!["a"; n].join(", "))))),
        // literal parser and placeholder bookkeeping
        ("{{{{..", "Display", Box::new(move |n| disp(lit_tok(&"{".repeat(n))))),
        ("}}}}..", "Display", Box::new(move |n| disp(lit_tok(&"}".repeat(n))))),
        ("{:>{:>..", "Display", Box::new(move |n| disp(lit_tok(&"{:>".repeat(n))))),
        ("{a{a..", "Display", Box::new(move |n| disp(lit_tok(&"{a".repeat(n))))),
        ("{0:0$}{0:0$}..", "Display", Box::new(move |n| disp(format!("{}, _0", lit_tok(&"{0:0$}".repeat(n)))))),
        ("{:1$.2$}..", "Display", Box::new(move |n| disp(format!("{}, _0, 1, 2", lit_tok(&"{:1$.2$}".repeat(n)))))),
        ("{}{}.. with n arguments", "Display", Box::new(move |n| disp(format!("{}{}", lit_tok(&"{}".repeat(n)), ", _0".repeat(n))))),
        ("{x}{x}.. named", "Display", Box::new(move |n| disp(format!("{}, x = _0", lit_tok(&"{x}".repeat(n)))))),
        ("{_0}{_0}.. field", "Display", Box::new(move |n| format!("#[display({})] struct S<T>(T);", lit_tok(&"{_0}".repeat(n))))),
        // item size
        (
            "Display enum, n variants under a shared format",
            "Display",
            Box::new(|n| format!("#[display(\"<{{_variant}}>\")] enum E<T> {{ {} }}", (0..n).map(|i| format!("#[display(\"v{{_0}}\")] V{i}(T)")).collect::<Vec<_>>().join(", "))),
        ),
        ("Debug struct, n fields with formats", "Debug", Box::new(|n| format!("struct S<T> {{ {} }}", (0..n).map(|i| format!("#[debug(\"{{f{i}}}\")] f{i}: T")).collect::<Vec<_>>().join(", ")))),
        ("Display bound(..) with n predicates", "Display", Box::new(|n| format!("#[display(\"x\")] #[display(bound({}))] struct S<T>(T);", (0..n).map(|i| format!("T: Tr{i}")).collect::<Vec<_>>().join(", ")))),
        ("From with n types", "From", Box::new(|n| format!("#[from({})] struct S(i32);", (0..n).map(|i| format!("T{i}")).collect::<Vec<_>>().join(", ")))),
        ("Into with n types per kind", "Into", Box::new(|n| {
            let tys = (0..n).map(|i| format!("T{i}")).collect::<Vec<_>>().join(", ");
            format!("#[into(owned({tys}), ref({tys}), ref_mut({tys}))] struct S(i32);")
        })),
        ("TryInto enum, n variants over n types", "TryInto", Box::new(|n| format!("#[try_into(owned, ref, ref_mut)] enum E {{ {} }}", (0..n).map(|i| format!("V{i}(T{})", i / 2)).collect::<Vec<_>>().join(", ")))),
        ("FromStr enum, n variants", "FromStr", Box::new(|n| format!("enum E {{ {} }}", (0..n).map(|i| format!("V{i}, v{i}")).collect::<Vec<_>>().join(", ")))),
        // (quadratic in the number of type parameters: measured at n/4)
        ("Error enum, n/4 generic sources", "Error", Box::new(|n| {
            let n = n / 4;
            format!("enum E<{}> {{ {} }}", (0..n).map(|i| format!("A{i}")).collect::<Vec<_>>().join(", "), (0..n).map(|i| format!("V{i} {{ source: A{i} }}")).collect::<Vec<_>>().join(", "))
        })),
        ("Mul struct, n field types", "Mul", Box::new(|n| format!("struct S({});", (0..n).map(|i| format!("T{i}")).collect::<Vec<_>>().join(", ")))),
        ("IsVariant enum, n variants", "IsVariant", Box::new(|n| format!("enum E {{ {} }}", (0..n).map(|i| format!("FooBar{i}(i32)")).collect::<Vec<_>>().join(", ")))),
        ("AsRef struct, n marked fields", "AsRef", Box::new(|n| format!("struct S {{ {} }}", (0..n).map(|i| format!("#[as_ref] f{i}: T{i}")).collect::<Vec<_>>().join(", ")))),
    ];
    for (name, derive, f) in fams {
        for n in [500usize, 1000, 2000] {
            let src = f(n);
            let t0 = std::time::Instant::now();
            let _ = eval_case(&Case::plain(derive, src));
            out.push((name.to_string(), n, t0.elapsed().as_secs_f64()));
        }
    }
    out
}

/// One generated case from raw dice (fuzz target): returns (derive, item, message, signature) on an internal failure or
/// when two expansions of the same input differ.
pub fn fuzz_one(dice: Vec<u16>) -> Option<(String, String, String, Option<String>)> {
    let mut d = Dice::new(dice);
    let c = match d.pick(4) {
        0 => {
            let item = gen_item(&mut d, None);
            Case::plain(Derive(d.pick(dm::DERIVES.len())).name(), item)
        }
        1 => {
            let l = literal_adversarial(&mut d);
            let v = literal_items(&l, &mut d);
            let k = d.pick(v.len());
            v[k].clone()
        }
        _ => gen_attributed_case(&mut d),
    };
    match eval_case(&c) {
        Ok((_, Some(p))) => {
            let loc = format!("{}:{}", p.file.rsplit("impl/src/").next().unwrap_or(&p.file), p.line);
            let v = json!({"derive": c.derive, "item": c.item, "panic_msg": p.msg, "panic_file": p.file, "panic_line": p.line, "loc": loc});
            Some((c.derive.clone(), c.item.clone(), format!("panic at {loc}: {}", p.msg), sig_for(&v)))
        }
        Ok((kind, None)) if kind == "ok" => {
            // C19(1): a second expansion gives the same tokens
            let d1 = Derive::by_name(&c.derive)?;
            let item: syn::DeriveInput = syn::parse_str(&c.item).ok()?;
            let (a, b) = (dm::expand(d1, &item), dm::expand(d1, &item));
            match (a.ok_tokens(), b.ok_tokens()) {
                (Some(x), Some(y)) if x.to_string() != y.to_string() => Some((c.derive, c.item, "two expansions differ".into(), None)),
                _ => None,
            }
        }
        _ => None,
    }
}

pub fn timing_main() -> i32 {
    use std::io::Write;
    for (f, n, s) in timing_families() {
        println!("{}", json!({"family": f, "n": n, "s": s}));
        let _ = std::io::stdout().flush();
    }
    0
}

pub fn worker_main(args: &[String]) -> i32 {
    watchdog::start();
    if args.first().map(|s| s.as_str()) == Some("one") {
        // args: one <derive> <wrap> <item>: a single case under the watchdog (reproduction of a reported hang)
        let c = Case { derive: args.get(1).cloned().unwrap_or_default(), wrap: args.get(2).and_then(|s| s.parse().ok()).unwrap_or(0), item: args.get(3).cloned().unwrap_or_default() };
        let t0 = std::time::Instant::now();
        if c.derive == "<literal parser>" {
            let _g = watchdog::enter_literal(&c.item);
            let _ = dm::guarded(|| super::lit::dm_view(&c.item));
        } else {
            let _ = eval_case(&c);
        }
        println!("{}", json!({"done": true, "secs": t0.elapsed().as_secs_f64()}));
        return 0;
    }
    // args: seed tier part nparts
    let seed: u64 = args.first().and_then(|s| s.parse().ok()).unwrap_or(0);
    let tier = if args.get(1).map(|s| s.as_str()) == Some("thorough") { Tier::Thorough } else { Tier::Quick };
    let part: usize = args.get(2).and_then(|s| s.parse().ok()).unwrap_or(0);
    let nparts: usize = args.get(3).and_then(|s| s.parse().ok()).unwrap_or(1);
    let stdout = std::io::stdout();
    let mut progress = |m: &str| {
        let mut w = stdout.lock();
        let _ = writeln!(w, "{}", json!({"progress": m}));
        let _ = w.flush();
    };
    let st = run_part(seed, tier, part, nparts, &mut progress);
    let mut w = stdout.lock();
    let _ = writeln!(
        w,
        "{}",
        json!({"done": true, "evaluations": st.evaluations, "nontrivial": st.nontrivial, "labels": st.labels, "samples": st.samples, "violations": st.violations})
    );
    0
}

fn sig_for(v: &Value) -> Option<String> {
    let loc = v["loc"].as_str().unwrap_or("");
    let file = loc.split(':').next().unwrap_or("");
    let msg = v["panic_msg"].as_str().unwrap_or("");
    // defect models of recorded findings: keyed by the failing call site (file + kind of panic), not by input
    if file == "error.rs" && msg.contains("index out of bounds") {
        return Some("c18-error-ignore-index".into());
    }
    if file == "from.rs" && msg.contains("unreachable") {
        return Some("c18-from-legacy-unreachable".into());
    }
    let item = v["item"].as_str().unwrap_or("");
    if file == "utils.rs" && msg.starts_with("expected") && (item.contains("dyn ") || item.contains("impl ")) && item.contains('+') {
        // `where dyn A + B: Trait` built from a bare multi-bound trait-object field type does not parse
        return Some("c18-where-clause-bare-bound-list-type".into());
    }
    if msg.contains("Punctuated::push_value") || msg.contains("push_value") {
        return Some("c18-into-push-value".into());
    }
    None
}

pub fn run(ctx: &Ctx) -> Report {
    let mut rep = Report::new(RULE);
    rep.evidence.max_samples = 12;
    rep.evidence.assumptions = vec![
        "a panic is deliberate iff raised at an explicit panic!/assert! line of impl/src (read from the tree under test)".into(),
        "token nesting bounded at 64; bounded time: scaling families (argument scanner, literal parser, item size) judged by growth worse than cubic and > 5 s at n = 2000, plus a 20 s wall-clock watchdog per case in the workers (a case over the limit ends the run as inconclusive with the input reported)".into(),
    ];
    let nparts = 16usize;
    let exe = std::env::current_exe().unwrap();
    let mut children = vec![];
    for part in 0..nparts {
        let child = Command::new(&exe)
            .args(["worker", "c18", &ctx.seed.to_string(), ctx.tier.name(), &part.to_string(), &nparts.to_string()])
            .stdout(Stdio::piped())
            .stderr(Stdio::null())
            .spawn();
        children.push((part, child));
    }
    for (part, child) in children {
        let child = match child {
            Ok(c) => c,
            Err(e) => {
                rep.infra_errors.push(format!("cannot spawn worker: {e}"));
                continue;
            }
        };
        let out = match child.wait_with_output() {
            Ok(o) => o,
            Err(e) => {
                rep.infra_errors.push(format!("worker {part}: {e}"));
                continue;
            }
        };
        let text = String::from_utf8_lossy(&out.stdout);
        let mut done = false;
        let mut hang: Option<Value> = None;
        let mut last_progress = String::from("start");
        for line in text.lines() {
            let Ok(v) = serde_json::from_str::<Value>(line) else { continue };
            if let Some(p) = v["progress"].as_str() {
                last_progress = p.to_string();
            }
            if v["hang"].is_object() {
                hang = Some(v["hang"].clone());
            }
            if v["done"].as_bool() == Some(true) {
                done = true;
                rep.evidence.eval(v["evaluations"].as_u64().unwrap_or(0));
                for h in v["nontrivial"].as_array().cloned().unwrap_or_default() {
                    rep.evidence.nontrivial_hash(h.as_u64().unwrap_or(0));
                }
                if let Some(l) = v["labels"].as_object() {
                    for (k, n) in l {
                        rep.evidence.label_n(k, n.as_u64().unwrap_or(0));
                    }
                }
                for s in v["samples"].as_array().cloned().unwrap_or_default() {
                    rep.evidence.sample(s);
                }
                for viol in v["violations"].as_array().cloned().unwrap_or_default() {
                    rep.violations.push(make_violation(&viol));
                }
            }
        }
        if let Some(h) = hang {
            // the watchdog ended the worker: inconclusive, with the input in hand. The case is run again twice on its own;
            // whether its cost grows super-linearly has to be decided with a scaling family (`timing_families`).
            let (derive, item, wrap) = (h["derive"].as_str().unwrap_or("").to_string(), h["item"].as_str().unwrap_or("").to_string(), h["wrap"].as_u64().unwrap_or(0));
            let mut again = 0;
            // (only the first stopped case of a run is reproduced: each reproduction costs up to the wall limit)
            let reruns = if rep.evidence.labels.contains_key("watchdog:case_over_wall_limit") { 0 } else { 2 };
            for _ in 0..reruns {
                let o = Command::new(&exe).args(["worker", "c18", "one", &derive, &wrap.to_string(), &item]).stdout(Stdio::piped()).stderr(Stdio::null()).output();
                if o.map(|o| String::from_utf8_lossy(&o.stdout).contains("\"hang\"")).unwrap_or(false) {
                    again += 1;
                }
            }
            rep.infra_errors.push(format!(
                "worker {part}/{nparts}: one case ran longer than {} s (wall) during stage after `{last_progress}` and was stopped; reproduced {again}/{reruns} times on its own; derive {derive}, wrap {wrap}, item: {}",
                watchdog::LIMIT_S,
                item.chars().take(600).collect::<String>()
            ));
            rep.evidence.label("watchdog:case_over_wall_limit");
            continue;
        }
        if !done {
            // the worker died: stack exhaustion / abort is itself an internal failure of the code under test
            rep.violations.push(Violation {
                sig: None,
                summary: format!("worker process {part}/{nparts} crashed ({:?}) after stage `{last_progress}` — stack exhaustion or abort inside an expander", out.status),
                case: json!({"worker": {"seed": ctx.seed, "tier": ctx.tier.name(), "part": part, "nparts": nparts}}),
                expected: "every input yields Ok / Err / deliberate panic".into(),
                observed: format!("process died: {:?}", out.status),
            });
        }
    }
    if ctx.tier == Tier::Quick || ctx.tier == Tier::Thorough {
        for (cl, min) in CLASS_FLOORS {
            let n = rep.evidence.labels.get(cl).copied().unwrap_or(0);
            if n < min {
                rep.infra_errors.push(format!("generator distribution: input class `{cl}` occurs {n} times, floor {min}"));
            }
        }
    }
    // regression corpus (every minimised finding and the hand-written seeds): `<derive>\n<item>` files
    if let Ok(rd) = std::fs::read_dir(ctx.verif_dir.join("corpus/expand")) {
        let mut paths: Vec<_> = rd.flatten().map(|e| e.path()).collect();
        paths.sort();
        for p in paths {
            let Ok(text) = std::fs::read_to_string(&p) else { continue };
            let mut it = text.splitn(2, '\n');
            let (Some(derive), Some(item)) = (it.next(), it.next()) else { continue };
            let c = Case::plain(derive.trim(), item.trim().to_string());
            rep.evidence.eval(1);
            rep.evidence.label("corpus");
            match eval_case(&c) {
                Ok((_, Some(pi))) => {
                    let loc = format!("{}:{}", pi.file.rsplit("impl/src/").next().unwrap_or(&pi.file), pi.line);
                    rep.violations.push(make_violation(&json!({"derive": c.derive, "item": c.item, "panic_msg": pi.msg, "panic_file": pi.file, "panic_line": pi.line, "loc": loc})));
                }
                Ok(_) => {}
                Err(e) => rep.infra_errors.push(format!("corpus file {}: {e}", p.display())),
            }
        }
    }
    // E3: coverage-guided campaign over the generators' decisions (thorough tier)
    if ctx.tier == Tier::Thorough {
        let secs: u64 = std::env::var("DMV_FUZZ_SECS").ok().and_then(|s| s.parse().ok()).unwrap_or(240);
        match super::fuzzrun::run_campaign(ctx, "expand_any", secs, 8, true) {
            Ok(c) => {
                rep.evidence.set("fuzz_expand_any_executions", json!(c.runs));
                rep.evidence.eval(c.runs);
                for bytes in c.crashes {
                    let dice: Vec<u16> = bytes.chunks(2).map(|c| u16::from_le_bytes([c[0], *c.get(1).unwrap_or(&0)])).collect();
                    match fuzz_one(dice) {
                        Some((derive, item, msg, sig)) => rep.violations.push(Violation {
                            sig,
                            summary: format!("internal failure at {} deriving {derive}: {}", msg.split(':').next().unwrap_or("").trim_start_matches("panic at "), msg),
                            case: json!({"derive": derive, "item": item}),
                            expected: "Ok, Err(diagnostic) or a deliberate panic!/assert! diagnostic".into(),
                            observed: msg,
                        }),
                        None => rep.infra_errors.push("fuzz target expand_any crashed on an input the in-process oracle accepts (timeout/oom?)".into()),
                    }
                }
            }
            Err(e) => rep.infra_errors.push(format!("fuzz campaign expand_any: {e}")),
        }
    }
    // bounded time
    let t = timing_families();
    let mut by_fam: BTreeMap<String, Vec<(usize, f64)>> = BTreeMap::new();
    for (f, n, s) in &t {
        by_fam.entry(f.clone()).or_default().push((*n, *s));
    }
    rep.evidence.set("timing_s", json!(by_fam));
    for (f, v) in &by_fam {
        let (t1, t4) = (v[0].1.max(1e-6), v[2].1);
        // growth worse than cubic between n and 4n AND > 5 s at n = 2000 → reproduce three times
        if t4 > 5.0 && t4 / t1 > 64.0 * 1.5 {
            let again = (0..2).all(|_| {
                let tt = timing_families();
                tt.iter().any(|(ff, n, s)| ff == f && *n == 2000 && *s > 5.0)
            });
            if again {
                rep.violations.push(Violation {
                    sig: None,
                    summary: format!("expansion time of family `{f}` grows worse than cubically: {v:?}"),
                    case: json!({"timing_family": f}),
                    expected: "bounded (polynomially small) time".into(),
                    observed: format!("{v:?}"),
                });
            }
        }
    }
    // minimise each violation (token-tree deletion) and de-duplicate by call site
    let mut seen = std::collections::HashSet::new();
    let mut out = vec![];
    for v in rep.violations.drain(..) {
        let key = format!("{}|{}", v.summary.split(" for input").next().unwrap_or(""), v.case["derive"]);
        if !seen.insert(key) {
            continue;
        }
        out.push(minimise(v));
    }
    rep.violations = out;
    rep.evidence.exhaustive = Some(false);
    rep.evidence.explanation = format!("all strings of length <= {} over the 28-symbol alphabet go through the literal parser (exhaustive sub-space); everything else is seeded sampling", ctx.tier.pick(4, 5));
    rep
}

fn make_violation(v: &Value) -> Violation {
    Violation {
        sig: sig_for(v),
        summary: format!(
            "internal failure at {} deriving {}{}: {}",
            v["loc"].as_str().unwrap_or("?"),
            v["derive"].as_str().unwrap_or("?"),
            match v["wrap"].as_u64().unwrap_or(0) {
                0 => "",
                1 => " (field types in None-delimited groups, as from `$t:ty`)",
                2 => " (attribute arguments in None-delimited groups, as from `$e:expr`)",
                _ => " (field types and attribute arguments in None-delimited groups)",
            },
            v["panic_msg"].as_str().unwrap_or("").chars().take(160).collect::<String>()
        ),
        case: json!({"derive": v["derive"], "item": v["item"], "wrap": v["wrap"].as_u64().unwrap_or(0)}),
        expected: "Ok, Err(diagnostic) or a deliberate panic!/assert! diagnostic".into(),
        observed: format!("panic at {}:{}: {}", v["panic_file"].as_str().unwrap_or(""), v["panic_line"], v["panic_msg"].as_str().unwrap_or("")),
    }
}

fn fails_same(derive: &str, item: &str, wrap: u8, loc: &str) -> bool {
    if derive == "<literal parser>" {
        return match dm::guarded(|| super::lit::dm_view(item)) {
            Err(p) => format!("{}:{}", p.file.rsplit("impl/src/").next().unwrap_or(&p.file), p.line) == loc,
            _ => false,
        };
    }
    match eval_case(&Case { derive: derive.to_string(), item: item.to_string(), wrap }) {
        Ok((_, Some(p))) => format!("{}:{}", p.file.rsplit("impl/src/").next().unwrap_or(&p.file), p.line) == loc,
        _ => false,
    }
}

/// greedy deletion of token trees (or characters for literals) preserving the same failing call site
fn minimise(v: Violation) -> Violation {
    let case0 = v.case.clone();
    let (Some(derive), Some(item)) = (case0["derive"].as_str(), case0["item"].as_str()) else { return v };
    let wrap = case0["wrap"].as_u64().unwrap_or(0) as u8;
    let loc = v.summary.split(" at ").nth(1).and_then(|s| s.split(' ').next()).unwrap_or("").to_string();
    if loc.is_empty() || !fails_same(derive, item, wrap, &loc) {
        return v;
    }
    let mut cur = item.to_string();
    if derive != "<literal parser>" {
        if let Ok(ts) = cur.parse::<TokenStream>() {
            cur = ts.to_string();
        }
    }
    if derive == "<literal parser>" {
        let mut progress = true;
        while progress {
            progress = false;
            let chars: Vec<char> = cur.chars().collect();
            for i in 0..chars.len() {
                let mut c = chars.clone();
                c.remove(i);
                let cand: String = c.into_iter().collect();
                if fails_same(derive, &cand, wrap, &loc) {
                    cur = cand;
                    progress = true;
                    break;
                }
            }
        }
    } else {
        let mut budget = 3000;
        loop {
            let Ok(ts) = cur.parse::<TokenStream>() else { break };
            let cands = deletions(&ts);
            let mut found = false;
            for c in cands {
                budget -= 1;
                if budget == 0 {
                    break;
                }
                let s = c.to_string();
                if s.len() < cur.len() && syn::parse_str::<syn::DeriveInput>(&s).is_ok() && fails_same(derive, &s, wrap, &loc) {
                    cur = s;
                    found = true;
                    break;
                }
            }
            if !found || budget == 0 {
                break;
            }
        }
    }
    let mut v = v;
    v.case = json!({"derive": derive, "item": cur, "wrap": wrap});
    v
}

/// all streams obtained by deleting one token tree at any depth
fn deletions(ts: &TokenStream) -> Vec<TokenStream> {
    let tts: Vec<TokenTree> = ts.clone().into_iter().collect();
    let mut out = vec![];
    for i in 0..tts.len() {
        let mut v = tts.clone();
        v.remove(i);
        out.push(v.into_iter().collect());
    }
    for i in 0..tts.len().saturating_sub(1) {
        let mut v = tts.clone();
        v.remove(i);
        v.remove(i);
        out.push(v.into_iter().collect());
    }
    for i in 0..tts.len() {
        if let TokenTree::Group(g) = &tts[i] {
            for inner in deletions(&g.stream()) {
                let mut v = tts.clone();
                let mut ng = proc_macro2::Group::new(g.delimiter(), inner);
                ng.set_span(g.span());
                v[i] = TokenTree::Group(ng);
                out.push(v.into_iter().collect());
            }
        }
    }
    out
}

pub fn replay(_ctx: &Ctx, case: &Value) -> Report {
    let mut rep = Report::new(RULE);
    rep.evidence.eval(1);
    if let (Some(derive), Some(item)) = (case["derive"].as_str(), case["item"].as_str()) {
        if derive == "<literal parser>" {
            if let Err(p) = dm::guarded(|| super::lit::dm_view(item)) {
                let loc = format!("{}:{}", p.file.rsplit("impl/src/").next().unwrap_or(&p.file), p.line);
                rep.violations.push(make_violation(&json!({"derive": derive, "item": item, "panic_msg": p.msg, "panic_file": p.file, "panic_line": p.line, "loc": loc})));
            }
        } else {
            let wrap = case["wrap"].as_u64().unwrap_or(0) as u8;
            match eval_case(&Case { derive: derive.to_string(), item: item.to_string(), wrap }) {
                Ok((_, Some(p))) => {
                    let loc = format!("{}:{}", p.file.rsplit("impl/src/").next().unwrap_or(&p.file), p.line);
                    rep.violations.push(make_violation(&json!({"derive": derive, "item": item, "wrap": wrap, "panic_msg": p.msg, "panic_file": p.file, "panic_line": p.line, "loc": loc})));
                }
                Ok(_) => {}
                Err(e) => rep.infra_errors.push(e),
            }
        }
    } else if case["worker"].is_object() {
        rep.infra_errors.push("worker-crash replays: re-run `dmv worker c18 <seed> <tier> <part> <nparts>` by hand".into());
    }
    rep
}

//! C01 — every supported derive input is accepted and the expansion compiles warning-free.
//!
//! Compile-only E2 check (`cargo check`): derive x item kind x generics (lifetime / type / const
//! parameters with inline bounds, defaults, where-clauses, all legal orders) x named/positional/raw
//! identifiers x documented attributes x decorations (`#[deprecated]`, uninhabited field types).
//! Field types come from `support/universal.rs` (implement every trait a derive may require) or are bare
//! type parameters (the derive adds the documented bounds itself).
use super::core::*;
use super::proggen::CaseResult;
use super::progprop::*;
use serde_json::json;

pub const PRELUDE: &str = include_str!("../../support/universal.rs");

#[derive(Clone, Debug, Default)]
pub struct Gens {
    pub lts: Vec<String>,
    /// (name, inline bound, default)
    pub tys: Vec<(String, Option<String>, Option<String>)>,
    /// (name, default)
    pub consts: Vec<(String, Option<String>)>,
    pub wheres: Vec<String>,
    pub consts_first: bool,
}

impl Gens {
    pub fn is_empty(&self) -> bool {
        self.lts.is_empty() && self.tys.is_empty() && self.consts.is_empty()
    }
    pub fn decl(&self) -> String {
        if self.is_empty() {
            return String::new();
        }
        let mut v: Vec<String> = vec![];
        for (i, l) in self.lts.iter().enumerate() {
            if i == 1 {
                v.push(format!("{l}: {}", self.lts[0]));
            } else {
                v.push(l.clone());
            }
        }
        let tys: Vec<String> = self
            .tys
            .iter()
            .map(|(n, b, dflt)| format!("{n}{}{}", b.as_ref().map(|b| format!(": {b}")).unwrap_or_default(), dflt.as_ref().map(|x| format!(" = {x}")).unwrap_or_default()))
            .collect();
        let consts: Vec<String> = self.consts.iter().map(|(n, dflt)| format!("const {n}: usize{}", dflt.as_ref().map(|x| format!(" = {x}")).unwrap_or_default())).collect();
        // defaults must be trailing: only mix orders when nothing has a default
        let any_default = self.tys.iter().any(|t| t.2.is_some()) || self.consts.iter().any(|c| c.1.is_some());
        if self.consts_first && !any_default {
            v.extend(consts);
            v.extend(tys);
        } else {
            // parameters with defaults last
            let (td, tn): (Vec<_>, Vec<_>) = tys.into_iter().partition(|t| t.contains(" = "));
            let (cd, cn): (Vec<_>, Vec<_>) = consts.into_iter().partition(|t| t.contains(" = "));
            v.extend(tn);
            v.extend(cn);
            v.extend(td);
            v.extend(cd);
        }
        format!("<{}>", v.join(", "))
    }
    pub fn where_clause(&self) -> String {
        if self.wheres.is_empty() {
            String::new()
        } else {
            format!(" where {}", self.wheres.join(", "))
        }
    }
    pub fn class(&self) -> &'static str {
        let n = (!self.lts.is_empty()) as u8 + (!self.tys.is_empty()) as u8 + (!self.consts.is_empty()) as u8;
        match (n, !self.lts.is_empty(), !self.tys.is_empty(), !self.consts.is_empty()) {
            (0, ..) => "generics=none",
            (1, true, ..) => "generics=lifetime",
            (1, _, true, _) => "generics=type",
            (1, ..) => "generics=const",
            _ => "generics=mixed",
        }
    }
}

/// A field type and the generic parameters it needs.
#[derive(Clone, Debug, PartialEq)]
pub enum FT {
    U,
    T(String),
    L(String),
    A(String),
    /// types usable only where the derive requires nothing (or only Debug) of its fields
    RefU(String),
    VecT(String),
    ArrU(String),
    OptT(String),
    Tuple(String),
    Assoc,
    FnPtr(String),
    Infallible,
}

impl FT {
    pub fn render(&self) -> String {
        match self {
            FT::U => "U".into(),
            FT::T(t) => t.clone(),
            FT::L(l) => format!("L<{l}>"),
            FT::A(n) => format!("A<{n}>"),
            FT::RefU(l) => format!("&{l} U"),
            FT::VecT(t) => format!("Vec<{t}>"),
            FT::ArrU(n) => format!("[U; {n}]"),
            FT::OptT(t) => format!("Option<{t}>"),
            FT::Tuple(t) => format!("(U, {t})"),
            FT::Assoc => "<U as Tr>::A".into(),
            FT::FnPtr(t) => format!("fn({t}) -> U"),
            FT::Infallible => "core::convert::Infallible".into(),
        }
    }
}

/// field-type pools
#[derive(Clone, Copy, PartialEq)]
pub enum Pool {
    /// fields must implement the derive's trait: U, T, L<'a>, A<N>
    Universal,
    /// additionally no lifetimes (e.g. `'static` requirement)
    UniversalNoLt,
    /// anything that is Debug
    AnyDebug,
    /// anything at all
    Any,
}

pub struct FieldGen {
    pub fields: Vec<FT>,
    pub gens: Gens,
}

pub fn gen_field_types(d: &mut Dice, n: usize, pool: Pool, allow_generics: bool) -> FieldGen {
    gen_field_types_lt(d, n, pool, allow_generics, 2)
}

pub fn gen_field_types_lt(d: &mut Dice, n: usize, pool: Pool, allow_generics: bool, max_lts: usize) -> FieldGen {
    let mut gens = Gens::default();
    let mut fields = vec![];
    let mut lt = |g: &mut Gens, d: &mut Dice| -> String {
        if g.lts.is_empty() || (g.lts.len() == 1 && max_lts > 1 && d.chance(25)) {
            let n = ["'a", "'b"][g.lts.len()].to_string();
            g.lts.push(n.clone());
            n
        } else {
            g.lts[d.pick(g.lts.len())].clone()
        }
    };
    let ty = |g: &mut Gens, d: &mut Dice| -> String {
        if g.tys.is_empty() || (g.tys.len() == 1 && d.chance(30)) {
            let n = ["T", "V"][g.tys.len()].to_string();
            g.tys.push((n.clone(), None, None));
            n
        } else {
            g.tys[d.pick(g.tys.len())].0.clone()
        }
    };
    let cn = |g: &mut Gens, d: &mut Dice| -> String {
        if g.consts.is_empty() || (g.consts.len() == 1 && d.chance(25)) {
            let n = ["N", "M"][g.consts.len()].to_string();
            g.consts.push((n.clone(), None));
            n
        } else {
            g.consts[d.pick(g.consts.len())].0.clone()
        }
    };
    for _ in 0..n {
        let f = if !allow_generics {
            match pool {
                Pool::Any | Pool::AnyDebug if d.chance(20) => FT::Assoc,
                _ => FT::U,
            }
        } else {
            match pool {
                Pool::Universal => match d.weighted(&[3, 4, 2, 2]) {
                    0 => FT::U,
                    1 => FT::T(ty(&mut gens, d)),
                    2 => FT::L(lt(&mut gens, d)),
                    _ => FT::A(cn(&mut gens, d)),
                },
                Pool::UniversalNoLt => match d.weighted(&[3, 4, 2]) {
                    0 => FT::U,
                    1 => FT::T(ty(&mut gens, d)),
                    _ => FT::A(cn(&mut gens, d)),
                },
                Pool::AnyDebug | Pool::Any => match d.weighted(&[2, 3, 2, 2, 2, 2, 2, 1, 1, 1, if pool == Pool::Any { 1 } else { 0 }]) {
                    0 => FT::U,
                    1 => FT::T(ty(&mut gens, d)),
                    2 => FT::L(lt(&mut gens, d)),
                    3 => FT::A(cn(&mut gens, d)),
                    4 => FT::RefU(lt(&mut gens, d)),
                    5 => FT::VecT(ty(&mut gens, d)),
                    6 => FT::ArrU(cn(&mut gens, d)),
                    7 => FT::OptT(ty(&mut gens, d)),
                    8 => FT::Tuple(ty(&mut gens, d)),
                    9 => FT::Assoc,
                    _ => FT::FnPtr(ty(&mut gens, d)),
                },
            }
        };
        fields.push(f);
    }
    decorate_generics(d, &mut gens, allow_generics);
    FieldGen { fields, gens }
}

/// inline bounds, defaults, where-clauses, unused const parameter, parameter order
pub fn decorate_generics(d: &mut Dice, gens: &mut Gens, allow_generics: bool) {
    if !allow_generics {
        return;
    }
    if d.chance(20) {
        // an unused const parameter is legal
        let name = if gens.consts.iter().any(|c| c.0 == "K") { "K2" } else { "K" };
        gens.consts.push((name.to_string(), None));
    }
    for t in gens.tys.iter_mut() {
        if d.chance(35) {
            t.1 = Some(["Clone", "Clone + Default", "core::fmt::Debug", "?Sized + Clone", "'static + Copy"][d.pick(5)].to_string());
        }
    }
    if let Some(last) = gens.tys.last_mut() {
        if d.chance(20) {
            last.2 = Some("U".to_string());
        }
    }
    if let Some(last) = gens.consts.last_mut() {
        if d.chance(20) {
            last.1 = Some("3".to_string());
        }
    }
    if d.chance(35) {
        if let Some(t) = gens.tys.first() {
            let t = t.0.clone();
            gens.wheres.push(match d.pick(4) {
                0 => format!("{t}: Clone"),
                1 => format!("Vec<{t}>: Clone"),
                2 => format!("[{t}; 2]: Sized"),
                _ => format!("for<'z> &'z {t}: Sized"),
            });
        } else if let Some(l) = gens.lts.first() {
            gens.wheres.push(format!("{l}: {l}"));
        } else {
            gens.wheres.push("U: Copy".to_string());
        }
    }
    gens.consts_first = d.chance(30);
}

pub const FIELD_NAMES: [&str; 6] = ["a", "b", "c", "x", "r#type", "r#fn"];

pub struct Item {
    /// derive_more derives
    pub dm_derives: Vec<String>,
    /// std derives (kept in the control rendering)
    pub std_derives: Vec<String>,
    /// helper attributes on the container (each `#[..]`), all belonging to derive_more
    pub cont_attrs: Vec<String>,
    pub kw: &'static str,
    pub name: String,
    pub gens: Gens,
    /// struct / union body or enum variants, with `{{ATTR:n}}` markers replaced at render time
    pub body: ItemBody,
}

pub struct FieldDef {
    pub attrs: Vec<String>,
    pub std_attrs: Vec<String>,
    pub name: Option<String>,
    pub ty: String,
}

pub struct VariantDef {
    pub attrs: Vec<String>,
    pub std_attrs: Vec<String>,
    pub name: String,
    pub named: bool,
    pub unit: bool,
    pub fields: Vec<FieldDef>,
    pub discriminant: Option<String>,
}

pub enum ItemBody {
    Unit,
    Tuple(Vec<FieldDef>),
    Named(Vec<FieldDef>),
    Enum(Vec<VariantDef>),
}

fn render_fields(fs: &[FieldDef], named: bool, with_dm: bool) -> String {
    let parts: Vec<String> = fs
        .iter()
        .map(|f| {
            let mut s = String::new();
            for a in &f.std_attrs {
                s.push_str(a);
                s.push(' ');
            }
            if with_dm {
                for a in &f.attrs {
                    s.push_str(a);
                    s.push(' ');
                }
            }
            if named {
                s.push_str(&format!("pub {}: {}", f.name.as_ref().unwrap(), f.ty));
            } else {
                s.push_str(&format!("pub {}", f.ty));
            }
            s
        })
        .collect();
    if named {
        format!(" {{ {} }}", parts.join(", "))
    } else {
        format!("({})", parts.join(", "))
    }
}

impl Item {
    pub fn render(&self, with_dm: bool) -> String {
        let mut s = String::new();
        let mut derives: Vec<String> = self.std_derives.clone();
        if with_dm {
            derives.extend(self.dm_derives.iter().map(|d| format!("derive_more::{d}")));
        }
        if !derives.is_empty() {
            s.push_str(&format!("#[derive({})]\n", derives.join(", ")));
        }
        if with_dm {
            for a in &self.cont_attrs {
                s.push_str(a);
                s.push('\n');
            }
        } else {
            // std `repr` must stay
            for a in self.cont_attrs.iter().filter(|a| a.starts_with("#[repr")) {
                s.push_str(a);
                s.push('\n');
            }
        }
        let g = self.gens.decl();
        let w = self.gens.where_clause();
        match &self.body {
            ItemBody::Unit => s.push_str(&format!("pub {} {}{g}{w};", self.kw, self.name)),
            ItemBody::Tuple(fs) => s.push_str(&format!("pub {} {}{g}{}{w};", self.kw, self.name, render_fields(fs, false, with_dm))),
            ItemBody::Named(fs) => s.push_str(&format!("pub {} {}{g}{w}{}", self.kw, self.name, render_fields(fs, true, with_dm))),
            ItemBody::Enum(vs) => {
                let parts: Vec<String> = vs
                    .iter()
                    .map(|v| {
                        let mut t = String::new();
                        for a in &v.std_attrs {
                            t.push_str(a);
                            t.push(' ');
                        }
                        if with_dm {
                            for a in &v.attrs {
                                t.push_str(a);
                                t.push(' ');
                            }
                        }
                        t.push_str(&v.name);
                        if !v.unit {
                            t.push_str(&render_fields(&v.fields, v.named, with_dm).replace("pub ", ""));
                        }
                        if let Some(dsc) = &v.discriminant {
                            t.push_str(&format!(" = {dsc}"));
                        }
                        t
                    })
                    .collect();
                s.push_str(&format!("pub enum {}{g}{w} {{\n    {}\n}}", self.name, parts.join(",\n    ")));
            }
        }
        s
    }
}

fn mk_fields(types: &[FT], named: bool, d: &mut Dice) -> Vec<FieldDef> {
    let off = d.pick(3);
    types
        .iter()
        .enumerate()
        .map(|(i, t)| FieldDef { attrs: vec![], std_attrs: vec![], name: if named { Some(FIELD_NAMES[(i + off) % 6].to_string()) } else { None }, ty: t.render() })
        .collect()
}

/// variant shape: 0 unit, 1 tuple, 2 named
fn mk_variant(name: &str, types: &[FT], shape: usize, d: &mut Dice) -> VariantDef {
    VariantDef {
        attrs: vec![],
        std_attrs: vec![],
        name: name.to_string(),
        named: shape == 2,
        unit: shape == 0,
        fields: if shape == 0 { vec![] } else { mk_fields(types, shape == 2, d) },
        discriminant: None,
    }
}

const VNAMES: [&str; 5] = ["Alpha", "BetaGamma", "r#Type", "Delta", "Eps"];

fn fmt_ref(name: &Option<String>, i: usize) -> String {
    match name {
        Some(n) => n.trim_start_matches("r#").to_string(),
        None => format!("_{i}"),
    }
}

/// Builds one case. Returns (item, labels).
fn build_item(d: &mut Dice) -> (Item, Vec<String>, Vec<String>) {
    let classes = [
        "AddLike", "AddAssignLike", "MulLike", "MulAssignLike", "NotLike", "SumLike", "Constructor", "AsRef", "Debug", "DisplayLike", "Deref", "Index",
        "IntoIterator", "Error", "From", "FromStr", "Into", "Accessors", "TryInto", "TryFrom",
    ];
    let cls = classes[d.pick(classes.len())];
    let allow_generics = d.chance(80);
    let mut labels = vec![format!("class={cls}")];
    let mut extra_items: Vec<String> = vec![];
    let mut item = Item { dm_derives: vec![], std_derives: vec![], cont_attrs: vec![], kw: "struct", name: "S".into(), gens: Gens::default(), body: ItemBody::Unit };
    let pick_names = |d: &mut Dice, names: &[&str]| names[d.pick(names.len())].to_string();
    match cls {
        "AddLike" | "NotLike" => {
            let names: &[&str] = if cls == "AddLike" { &["Add", "Sub", "BitAnd", "BitOr", "BitXor"] } else { &["Not", "Neg"] };
            if cls == "AddLike" && d.chance(18) {
                // mul.md: the Mul family with `forward` follows the Add-like rules, enums included
                let dn = pick_names(d, &["Mul", "Div", "Rem", "Shr", "Shl"]);
                let attr = super::dm::Derive::by_name(&dn).unwrap().info().attr.unwrap();
                item.cont_attrs.push(format!("#[{attr}(forward)]"));
                labels.push("attr=forward".into());
                labels.push("mul_forward_add_like_shape".into());
                item.dm_derives.push(dn);
            } else {
                item.dm_derives.push(pick_names(d, names));
            }
            if d.chance(55) {
                let n = d.range(1, 4);
                let fg = gen_field_types(d, n, Pool::Universal, allow_generics);
                let named = d.chance(50);
                item.gens = fg.gens;
                let fs = mk_fields(&fg.fields, named, d);
                item.body = if named { ItemBody::Named(fs) } else { ItemBody::Tuple(fs) };
            } else {
                let nv = d.range(1, 4);
                let shapes: Vec<usize> = (0..nv).map(|_| d.pick(3)).collect();
                let counts: Vec<usize> = shapes.iter().map(|s| if *s == 0 { 0 } else { d.range(1, 3) }).collect();
                let total: usize = counts.iter().sum();
                let fg = gen_field_types(d, total, Pool::Universal, allow_generics);
                item.gens = fg.gens;
                let mut k = 0;
                let vs = (0..nv)
                    .map(|i| {
                        let v = mk_variant(VNAMES[i], &fg.fields[k..k + counts[i]], shapes[i], d);
                        k += counts[i];
                        v
                    })
                    .collect();
                item.kw = "enum";
                item.name = "E".into();
                item.body = ItemBody::Enum(vs);
            }
        }
        "AddAssignLike" | "MulLike" | "MulAssignLike" => {
            let names: &[&str] = match cls {
                "AddAssignLike" => &["AddAssign", "SubAssign", "BitAndAssign", "BitOrAssign", "BitXorAssign"],
                "MulLike" => &["Mul", "Div", "Rem", "Shr", "Shl"],
                _ => &["MulAssign", "DivAssign", "RemAssign", "ShrAssign", "ShlAssign"],
            };
            let dn = pick_names(d, names);
            let n = d.range(1, 4);
            // one lifetime only: the scalar form bounds every distinct field type (`L<'a>: Mul<__RhsT, Output = L<'a>>`,
            // `L<'b>: ..`), and predicates differing only in lifetimes make rustc's selection ambiguous (E0284) for any
            // impl written that way — a language limit, not something the property promises
            let fg = gen_field_types_lt(d, n, Pool::Universal, allow_generics, 1);
            let named = d.chance(50);
            item.gens = fg.gens;
            let fs = mk_fields(&fg.fields, named, d);
            item.body = if named { ItemBody::Named(fs) } else { ItemBody::Tuple(fs) };
            if cls != "AddAssignLike" && d.chance(35) {
                let attr = super::dm::Derive::by_name(&dn).unwrap().info().attr.unwrap();
                item.cont_attrs.push(format!("#[{attr}(forward)]"));
                labels.push("attr=forward".into());
            }
            item.dm_derives.push(dn);
        }
        "SumLike" => {
            let n = d.range(1, 3);
            let fg = gen_field_types(d, n, Pool::Universal, allow_generics);
            let named = d.chance(50);
            item.gens = fg.gens;
            let fs = mk_fields(&fg.fields, named, d);
            item.body = if named { ItemBody::Named(fs) } else { ItemBody::Tuple(fs) };
            if d.chance(50) {
                item.dm_derives.extend(["Add".to_string(), "Sum".to_string()]);
            } else {
                item.dm_derives.extend(["Mul".to_string(), "Product".to_string()]);
                item.cont_attrs.push("#[mul(forward)]".into());
            }
        }
        "Constructor" | "Into" => {
            item.dm_derives.push(cls.to_string());
            let n = d.range(0, 4);
            let mut fg = gen_field_types(d, n, Pool::Any, allow_generics);
            if cls == "Into" && n == 1 {
                // `impl<T> From<S<T>> for T` is rejected by Rust's orphan rule (E0210) whatever a derive does:
                // a lone bare type parameter is outside what any Into derive can support
                if let FT::T(t) = fg.fields[0].clone() {
                    fg.fields[0] = FT::VecT(t);
                }
            }
            item.gens = fg.gens;
            if n == 0 && d.chance(50) {
                item.body = ItemBody::Unit;
            } else {
                let named = d.chance(50);
                let fs = mk_fields(&fg.fields, named, d);
                item.body = if named { ItemBody::Named(fs) } else { ItemBody::Tuple(fs) };
            }
            let all_u = n > 0 && fg.fields.iter().all(|f| *f == FT::U);
            if cls == "Into" && all_u && d.chance(35) {
                // into.md: listed types (`i64: From<U>` holds for the universal type); a tuple type for several fields
                let ty = if n == 1 { "i64".to_string() } else { format!("({})", vec!["i64"; n].join(", ")) };
                item.cont_attrs.push(
                    [format!("#[into({ty})]"), format!("#[into(owned({ty}), ref)]"), format!("#[into({ty})]\n#[into(ref_mut)]"), format!("#[into(owned, ref({ty}))]")][d.pick(3)].clone(),
                );
                labels.push("attr=types".into());
            } else if cls == "Into" && d.chance(40) {
                item.cont_attrs.push(["#[into(owned, ref, ref_mut)]", "#[into(ref)]", "#[into(owned)]", "#[into(ref_mut)]"][d.pick(4)].to_string());
                labels.push("attr=into_kinds".into());
            }
        }
        "AsRef" => {
            item.dm_derives.push(pick_names(d, &["AsRef", "AsMut"]));
            let attr = if item.dm_derives[0] == "AsRef" { "as_ref" } else { "as_mut" };
            let n = d.range(1, 3);
            let fg = gen_field_types(d, n, Pool::Universal, allow_generics);
            let named = d.chance(50);
            item.gens = fg.gens;
            let mut fs = mk_fields(&fg.fields, named, d);
            if n == 1 {
                match d.pick(4) {
                    0 => {}
                    1 => {
                        item.cont_attrs.push(format!("#[{attr}(forward)]"));
                        labels.push("attr=forward".into());
                    }
                    2 if fg.fields[0] != FT::T("T".into()) && !matches!(fg.fields[0], FT::T(_)) => {
                        item.cont_attrs.push(format!("#[{attr}(i64)]"));
                        labels.push("attr=types".into());
                    }
                    _ => fs[0].attrs.push(format!("#[{attr}]")),
                }
            } else {
                let k = d.pick(n);
                fs[k].attrs.push(format!("#[{attr}]"));
                labels.push("attr=field_marker".into());
            }
            item.body = if named { ItemBody::Named(fs) } else { ItemBody::Tuple(fs) };
        }
        "Debug" => {
            item.dm_derives.push("Debug".into());
            let as_enum = d.chance(45);
            let mk = |d: &mut Dice, fs: &mut Vec<FieldDef>| {
                for (i, f) in fs.iter_mut().enumerate() {
                    match d.pick(6) {
                        0 => f.attrs.push("#[debug(skip)]".into()),
                        1 => f.attrs.push("#[debug(ignore)]".into()),
                        2 => f.attrs.push(format!("#[debug(\"{{:?}}\", {})]", f.name.clone().unwrap_or(format!("_{i}")))),
                        _ => {}
                    }
                }
            };
            if !as_enum {
                let n = d.range(0, 4);
                let fg = gen_field_types(d, n, Pool::AnyDebug, allow_generics);
                item.gens = fg.gens;
                let named = d.chance(50);
                let mut fs = mk_fields(&fg.fields, named, d);
                mk(d, &mut fs);
                item.body = if n == 0 && d.chance(50) { ItemBody::Unit } else if named { ItemBody::Named(fs) } else { ItemBody::Tuple(fs) };
            } else {
                let nv = d.range(1, 4);
                let shapes: Vec<usize> = (0..nv).map(|_| d.pick(3)).collect();
                let counts: Vec<usize> = shapes.iter().map(|s| if *s == 0 { 0 } else { d.range(0, 3) }).collect();
                let total: usize = counts.iter().sum();
                let fg = gen_field_types(d, total, Pool::AnyDebug, allow_generics);
                item.gens = fg.gens;
                let mut k = 0;
                let mut vs = vec![];
                for i in 0..nv {
                    let mut v = mk_variant(VNAMES[i], &fg.fields[k..k + counts[i]], shapes[i], d);
                    mk(d, &mut v.fields);
                    k += counts[i];
                    vs.push(v);
                }
                item.kw = "enum";
                item.name = "E".into();
                item.body = ItemBody::Enum(vs);
            }
        }
        "DisplayLike" => {
            let (tr, attr, ty) = super::p02::FMT_TRAITS[[0usize, 0, 2, 3, 4, 5, 6, 7, 8][d.pick(9)]];
            item.dm_derives.push(tr.to_string());
            let lit_for = |fs: &[FieldDef]| -> String {
                let parts: Vec<String> = fs.iter().enumerate().map(|(i, f)| format!("{{{}:{ty}}}", fmt_ref(&f.name, i))).collect();
                format!("#[{attr}(\"{}\")]", parts.join(" "))
            };
            let lit_args = |fs: &[FieldDef]| -> String {
                let ph: Vec<String> = fs.iter().map(|_| format!("{{:{ty}}}")).collect();
                let args: Vec<String> = fs.iter().enumerate().map(|(i, f)| f.name.clone().unwrap_or(format!("_{i}"))).collect();
                format!("#[{attr}(\"{}\", {})]", ph.join("-"), args.join(", "))
            };
            match d.weighted(&[5, 4, 1]) {
                0 => {
                    let n = d.range(0, 3);
                    let fg = gen_field_types(d, n, Pool::Universal, allow_generics);
                    item.gens = fg.gens;
                    let named = d.chance(50);
                    let fs = mk_fields(&fg.fields, named, d);
                    if n == 0 {
                        item.cont_attrs.push(format!("#[{attr}(\"unit\")]"));
                    } else if n > 1 || d.chance(40) {
                        item.cont_attrs.push(if d.chance(50) { lit_for(&fs) } else { lit_args(&fs) });
                        labels.push("attr=literal".into());
                    }
                    item.body = if n == 0 { ItemBody::Unit } else if named { ItemBody::Named(fs) } else { ItemBody::Tuple(fs) };
                }
                1 => {
                    let nv = d.range(1, 4);
                    let shapes: Vec<usize> = (0..nv).map(|_| d.pick(3)).collect();
                    let counts: Vec<usize> = shapes.iter().map(|s| if *s == 0 { 0 } else { d.range(1, 3) }).collect();
                    let total: usize = counts.iter().sum();
                    let fg = gen_field_types(d, total, Pool::Universal, allow_generics);
                    item.gens = fg.gens;
                    let mut k = 0;
                    let mut vs = vec![];
                    for i in 0..nv {
                        let mut v = mk_variant(VNAMES[i], &fg.fields[k..k + counts[i]], shapes[i], d);
                        if shapes[i] == 0 {
                            if tr != "Display" || d.chance(30) {
                                v.attrs.push(format!("#[{attr}(\"unit {i}\")]"));
                            }
                        } else if counts[i] > 1 || d.chance(40) {
                            v.attrs.push(if d.chance(50) { lit_for(&v.fields) } else { lit_args(&v.fields) });
                        }
                        k += counts[i];
                        vs.push(v);
                    }
                    item.kw = "enum";
                    item.name = "E".into();
                    item.body = ItemBody::Enum(vs);
                }
                _ => {
                    // union with a literal
                    item.kw = "union";
                    item.name = "Un".into();
                    item.cont_attrs.push(format!("#[{attr}(\"a union\")]"));
                    item.body = ItemBody::Named(vec![
                        FieldDef { attrs: vec![], std_attrs: vec![], name: Some("a".into()), ty: "u32".into() },
                        FieldDef { attrs: vec![], std_attrs: vec![], name: Some("b".into()), ty: "f32".into() },
                    ]);
                    if allow_generics && d.chance(40) {
                        item.gens.consts.push(("K".into(), None));
                    }
                }
            }
        }
        "Deref" | "Index" | "IntoIterator" => {
            let (der, attr): (Vec<&str>, &str) = match cls {
                "Deref" => (if d.chance(50) { vec!["Deref"] } else { vec!["Deref", "DerefMut"] }, "deref"),
                "Index" => (if d.chance(50) { vec!["Index"] } else { vec!["Index", "IndexMut"] }, "index"),
                _ => (vec!["IntoIterator"], "into_iterator"),
            };
            item.dm_derives.extend(der.iter().map(|s| s.to_string()));
            let n = d.range(1, 3);
            let fg = gen_field_types(d, n, Pool::Universal, allow_generics);
            item.gens = fg.gens;
            let named = d.chance(50);
            let mut fs = mk_fields(&fg.fields, named, d);
            let attrs: Vec<&str> = if cls == "Deref" && der.len() == 2 { vec!["deref", "deref_mut"] } else if cls == "Index" && der.len() == 2 { vec!["index", "index_mut"] } else { vec![attr] };
            if n > 1 {
                let k = d.pick(n);
                if d.chance(50) {
                    for a in &attrs {
                        fs[k].attrs.push(format!("#[{a}]"));
                    }
                } else {
                    for (i, f) in fs.iter_mut().enumerate() {
                        if i != k {
                            for a in &attrs {
                                f.attrs.push(format!("#[{a}(ignore)]"));
                            }
                        }
                    }
                }
                labels.push("attr=field_selection".into());
            }
            if cls == "Deref" && d.chance(40) {
                // deref.md: `forward` goes on the struct when it has one field, on the selected field otherwise
                if n == 1 {
                    for a in &attrs {
                        item.cont_attrs.push(format!("#[{a}(forward)]"));
                    }
                } else {
                    for f in fs.iter_mut() {
                        for at in f.attrs.iter_mut() {
                            if !at.contains("ignore") {
                                *at = at.replace("]", "(forward)]");
                            }
                        }
                    }
                    if !fs.iter().any(|f| f.attrs.iter().any(|a| a.contains("forward"))) {
                        // selection was expressed through `ignore` on the others: mark the remaining field
                        for f in fs.iter_mut() {
                            if f.attrs.is_empty() {
                                for a in &attrs {
                                    f.attrs.push(format!("#[{a}(forward)]"));
                                }
                            }
                        }
                    }
                }
                labels.push("attr=forward".into());
            }
            if cls == "IntoIterator" && d.chance(50) {
                let kinds = ["#[into_iterator(owned, ref, ref_mut)]", "#[into_iterator(ref)]", "#[into_iterator(owned, ref_mut)]"][d.pick(3)].to_string();
                // into_iterator.md: on the struct when it has one field, on the selected field otherwise
                if n == 1 {
                    item.cont_attrs.push(kinds);
                } else if let Some(f) = fs.iter_mut().find(|f| f.attrs.iter().any(|a| a == "#[into_iterator]")) {
                    f.attrs = vec![kinds];
                } else if let Some(f) = fs.iter_mut().find(|f| f.attrs.is_empty()) {
                    f.attrs = vec![kinds];
                }
                labels.push("attr=into_kinds".into());
            }
            item.body = if named { ItemBody::Named(fs) } else { ItemBody::Tuple(fs) };
        }
        "Error" => {
            item.std_derives.push("Debug".into());
            item.dm_derives.extend(["Display".to_string(), "Error".to_string()]);
            if d.chance(50) {
                let n = d.range(0, 3);
                let named = d.chance(50);
                let fg = gen_field_types(d, n, Pool::UniversalNoLt, allow_generics);
                item.gens = fg.gens;
                let mut fs = mk_fields(&fg.fields, named, d);
                if named && n > 0 && d.chance(60) {
                    fs[0].name = Some("source".into());
                }
                if n > 1 && !named {
                    let k = d.pick(n);
                    fs[k].attrs.push("#[error(source)]".into());
                } else if n > 0 && d.chance(20) {
                    fs[0].attrs.push(["#[error(not(source))]", "#[error(ignore)]", "#[error(source)]"][d.pick(3)].to_string());
                }
                if allow_generics && n > 0 && d.chance(25) {
                    // the source may be an associated type of a type parameter (`T::Err`-style): the derive bounds the field type
                    let assoc_param = if item.gens.tys.iter().any(|t| t.0 == "Q") { None } else { Some("Q") };
                    if let Some(q) = assoc_param {
                        item.gens.tys.push((q.to_string(), Some("Tr".to_string()), None));
                        let k = fs.iter().position(|f| f.name.as_deref() == Some("source") || f.attrs.iter().any(|a| a == "#[error(source)]")).unwrap_or(0);
                        fs[k].ty = [format!("{q}::A"), format!("<{q} as Tr>::A")][d.pick(2)].clone();
                        labels.push("error_source_is_associated_type".into());
                    }
                }
                item.cont_attrs.push("#[display(\"err\")]".into());
                item.body = if n == 0 { ItemBody::Unit } else if named { ItemBody::Named(fs) } else { ItemBody::Tuple(fs) };
            } else {
                let nv = d.range(0, 3);
                let shapes: Vec<usize> = (0..nv).map(|_| d.pick(3)).collect();
                let counts: Vec<usize> = shapes.iter().map(|s| if *s == 0 { 0 } else { 1 }).collect();
                let total: usize = counts.iter().sum();
                let fg = gen_field_types(d, total, Pool::UniversalNoLt, allow_generics);
                item.gens = fg.gens;
                let mut k = 0;
                let mut vs = vec![];
                for i in 0..nv {
                    let mut v = mk_variant(VNAMES[i], &fg.fields[k..k + counts[i]], shapes[i], d);
                    if shapes[i] == 2 && d.chance(60) {
                        v.fields[0].name = Some("source".into());
                    }
                    v.attrs.push(format!("#[display(\"v{i}\")]"));
                    k += counts[i];
                    vs.push(v);
                }
                if nv > 0 && d.chance(35) {
                    // error.md: a whole variant can be ignored
                    let k = d.pick(nv);
                    vs[k].attrs.push("#[error(ignore)]".into());
                    labels.push("attr=error_variant_ignore".into());
                }
                item.kw = "enum";
                item.name = "E".into();
                item.body = ItemBody::Enum(vs);
            }
        }
        "From" => {
            item.dm_derives.push("From".into());
            if d.chance(50) {
                let n = d.range(0, 3);
                let fg = gen_field_types(d, n, Pool::Any, allow_generics);
                item.gens = fg.gens;
                let named = d.chance(50);
                let fs = mk_fields(&fg.fields, named, d);
                // `impl<T, F> From<F> for S<T> where T: From<F>` overlaps with core's `impl<T> From<T> for T` (E0119): a
                // coherence limit of Rust for a lone generic field, so `forward` is only generated otherwise
                let lone_param = n == 1 && matches!(fg.fields[0], FT::T(_));
                if n > 0 && !lone_param && d.chance(25) {
                    item.cont_attrs.push("#[from(forward)]".into());
                    labels.push("attr=forward".into());
                } else if n >= 1 && fg.fields.iter().all(|f| *f == FT::U) && d.chance(40) {
                    let ty = if n == 1 { "i64".to_string() } else { format!("({})", vec!["i64"; n].join(", ")) };
                    item.cont_attrs.push(if d.chance(50) { format!("#[from({ty})]") } else { format!("#[from({ty})]\n#[from({})]", if n == 1 { "U".to_string() } else { format!("({})", vec!["U"; n].join(", ")) }) });
                    labels.push("attr=types".into());
                }
                item.body = if n == 0 { ItemBody::Unit } else if named { ItemBody::Named(fs) } else { ItemBody::Tuple(fs) };
            } else {
                // distinct arities => no overlapping impls whatever the type arguments are
                let mut ar = vec![1usize, 2, 3];
                let nv = d.range(1, 3);
                let mut counts = vec![];
                for _ in 0..nv {
                    counts.push(ar.remove(d.pick(ar.len())));
                }
                let total: usize = counts.iter().sum();
                let mut fg = gen_field_types(d, total, Pool::Any, allow_generics);
                {
                    // `impl From<T> for E<T>` overlaps with every other `impl From<X> for E<T>` (T = X): coherence limit
                    let mut k = 0;
                    for c in &counts {
                        if *c == 1 {
                            if let FT::T(t) | FT::Tuple(t) = fg.fields[k].clone() {
                                fg.fields[k] = FT::VecT(t);
                            }
                        }
                        k += c;
                    }
                }
                item.gens = fg.gens;
                let mut k = 0;
                let mut vs = vec![];
                for i in 0..nv {
                    let shape = 1 + d.pick(2);
                    let v = mk_variant(VNAMES[i], &fg.fields[k..k + counts[i]], shape, d);
                    k += counts[i];
                    vs.push(v);
                }
                if d.chance(40) {
                    vs.push(mk_variant("Unit", &[], 0, d));
                }
                if d.chance(30) {
                    let k = d.pick(vs.len());
                    if !vs[k].unit {
                        vs[k].attrs.push(["#[from(skip)]", "#[from(ignore)]", "#[from(forward)]", "#[from]"][d.pick(4)].to_string());
                        labels.push("attr=variant".into());
                    }
                }
                item.kw = "enum";
                item.name = "E".into();
                item.body = ItemBody::Enum(vs);
            }
        }
        "FromStr" => {
            item.dm_derives.push("FromStr".into());
            if d.chance(55) {
                let fg = gen_field_types(d, 1, Pool::UniversalNoLt, allow_generics);
                item.gens = fg.gens;
                let named = d.chance(50);
                let fs = mk_fields(&fg.fields, named, d);
                item.body = if named { ItemBody::Named(fs) } else { ItemBody::Tuple(fs) };
            } else {
                let nv = d.range(1, 4);
                let vs = (0..nv).map(|i| mk_variant(VNAMES[i], &[], 0, d)).collect();
                item.kw = "enum";
                item.name = "E".into();
                item.body = ItemBody::Enum(vs);
                if allow_generics && d.chance(50) {
                    // a field-less enum can only carry (unused) const parameters
                    item.gens.consts.push(("K".into(), if d.chance(30) { Some("3".into()) } else { None }));
                    labels.push("fromstr_generic_enum".into());
                }
            }
        }
        "Accessors" | "TryInto" => {
            let dn = if cls == "TryInto" { "TryInto".to_string() } else { pick_names(d, &["IsVariant", "Unwrap", "TryUnwrap"]) };
            let named_ok = dn == "IsVariant" || dn == "TryInto";
            item.dm_derives.push(dn.clone());
            let mut ar = vec![0usize, 1, 2, 3];
            let nv = d.range(1, 4);
            let mut counts = vec![];
            for _ in 0..nv {
                counts.push(ar.remove(d.pick(ar.len())));
            }
            let total: usize = counts.iter().sum();
            let mut fg = gen_field_types(d, total, Pool::Any, allow_generics);
            if dn == "TryInto" {
                // same orphan-rule limit as for Into: a variant whose only field is a bare type parameter
                let mut k = 0;
                for c in &counts {
                    if *c == 1 {
                        // (a lone `(U, T)` field would likewise overlap with a two-field variant)
                        if let FT::T(t) | FT::Tuple(t) = fg.fields[k].clone() {
                            fg.fields[k] = FT::VecT(t);
                        }
                    }
                    k += c;
                }
            }
            item.gens = fg.gens;
            let mut k = 0;
            let mut vs = vec![];
            for i in 0..nv {
                let shape = if counts[i] == 0 { if d.chance(70) { 0 } else { 1 } } else if named_ok && d.chance(35) { 2 } else { 1 };
                let mut v = mk_variant(VNAMES[i], &fg.fields[k..k + counts[i]], shape, d);
                if shape != 0 && counts[i] == 0 {
                    v.unit = false;
                }
                k += counts[i];
                vs.push(v);
            }
            if d.chance(30) {
                let attr = super::dm::Derive::by_name(&dn).unwrap().info().attr.unwrap();
                if dn == "IsVariant" {
                    let k = d.pick(vs.len());
                    vs[k].attrs.push(format!("#[{attr}(ignore)]"));
                } else {
                    item.cont_attrs.push(format!("#[{attr}({})]", ["owned, ref, ref_mut", "ref", "ref_mut", "owned"][d.pick(4)]));
                }
                labels.push("attr=accessor".into());
            }
            item.kw = "enum";
            item.name = "E".into();
            item.body = ItemBody::Enum(vs);
        }
        "TryFrom" => {
            item.dm_derives.push("TryFrom".into());
            item.cont_attrs.push("#[try_from(repr)]".into());
            let repr = ["u8", "i8", "u16", "i32", "u64", "isize"][d.pick(6)];
            item.cont_attrs.push(format!("#[repr({repr})]"));
            let nv = d.range(1, 4);
            let mut vs: Vec<VariantDef> = (0..nv).map(|i| mk_variant(VNAMES[i], &[], 0, d)).collect();
            if d.chance(25) {
                // variant names differing only in case are legal
                vs.push(mk_variant("Mb", &[], 0, d));
                vs.push(mk_variant("MB", &[], 0, d));
                labels.push("variants_differing_only_in_case".into());
            }
            if d.chance(40) {
                let k = d.pick(nv);
                vs[k].discriminant = Some(["5", "1 << 3", "2 + 40"][d.pick(3)].to_string());
            }
            if allow_generics {
                match d.pick(4) {
                    0 => {}
                    1 => {
                        item.gens.consts.push(("K".into(), None));
                    }
                    2 => {
                        item.gens.tys.push(("T".into(), None, None));
                        vs.push(VariantDef { attrs: vec![], std_attrs: vec![], name: "Carrier".into(), named: false, unit: false, fields: vec![FieldDef { attrs: vec![], std_attrs: vec![], name: None, ty: "T".into() }], discriminant: None });
                    }
                    _ => {
                        item.gens.lts.push("'a".into());
                        item.gens.tys.push(("T".into(), Some("'a".into()), None));
                        vs.push(VariantDef { attrs: vec![], std_attrs: vec![], name: "Carrier".into(), named: true, unit: false, fields: vec![FieldDef { attrs: vec![], std_attrs: vec![], name: Some("r".into()), ty: "&'a T".into() }], discriminant: None });
                    }
                }
                if !item.gens.is_empty() {
                    labels.push("tryfrom_generic_enum".into());
                }
            }
            item.kw = "enum";
            item.name = "E".into();
            item.body = ItemBody::Enum(vs);
        }
        _ => unreachable!(),
    }
    // decorations
    if d.chance(15) {
        match &mut item.body {
            ItemBody::Tuple(fs) | ItemBody::Named(fs) if !fs.is_empty() && item.kw == "struct" => {
                let k = d.pick(fs.len());
                fs[k].std_attrs.push("#[deprecated]".into());
                labels.push("decoration=deprecated_field".into());
            }
            ItemBody::Enum(vs) if !vs.is_empty() => {
                let k = d.pick(vs.len());
                vs[k].std_attrs.push("#[deprecated]".into());
                labels.push("decoration=deprecated_variant".into());
            }
            _ => {}
        }
    }
    let no_trait_needed = matches!(cls, "Constructor" | "Into" | "From" | "Accessors" | "TryInto" | "Debug");
    // (not next to `#[from(i64)]`/`forward`, which require `From<..>` of the field types)
    let converts = labels.iter().any(|l| l == "attr=types" || l == "attr=forward")
        || item.cont_attrs.iter().any(|a| a.contains("i64") || a.contains("forward"))
        || matches!(&item.body, ItemBody::Enum(vs) if vs.iter().any(|v| v.attrs.iter().any(|a| a.contains("forward"))));
    if no_trait_needed && !converts && d.chance(12) {
        let mut done = false;
        match &mut item.body {
            ItemBody::Tuple(fs) | ItemBody::Named(fs) if !fs.is_empty() => {
                let k = d.pick(fs.len());
                // keep generic parameters used: only replace concrete fields
                if fs[k].ty == "U" {
                    fs[k].ty = "core::convert::Infallible".into();
                    done = true;
                }
            }
            ItemBody::Enum(vs) => {
                for v in vs.iter_mut() {
                    for f in v.fields.iter_mut() {
                        if f.ty == "U" && !done {
                            f.ty = "core::convert::Infallible".into();
                            done = true;
                        }
                    }
                }
            }
            _ => {}
        }
        if done {
            labels.push("decoration=uninhabited_field".into());
        }
    }
    labels.push(item.gens.class().to_string());
    for dn in &item.dm_derives {
        labels.push(format!("derive={dn}"));
    }
    (item, labels, std::mem::take(&mut extra_items))
}

pub fn build_item_pub(d: &mut Dice) -> (Item, Vec<String>, Vec<String>) {
    build_item(d)
}

fn build(d: &mut Dice) -> GenCase {
    let (item, labels, extra) = build_item(d);
    let body = format!("{}\n{}", extra.join("\n"), item.render(true));
    let control = format!("{}\n{}", extra.join("\n"), item.render(false));
    let mut c = GenCase::new(body);
    c.runnable = false;
    c.control = Some(control);
    c.nontrivial = !item.gens.is_empty() || !item.cont_attrs.is_empty() || labels.iter().any(|l| l.starts_with("attr=") || l.starts_with("decoration=")) || c.body.contains("r#");
    c.labels = labels;
    c.meta = json!({"derives": item.dm_derives});
    c
}

fn classify(c: &GenCase, r: &CaseResult, f: &Finding) -> Option<String> {
    let has = |l: &str| c.labels.iter().any(|x| x == l);
    if !r.compiled {
        let t = r.error_text();
        if has("tryfrom_generic_enum") && (t.contains("E0107") || t.contains("E0109") || t.contains("generic arguments")) {
            return Some("c01-tryfrom-generics-on-repr".into());
        }
        if has("fromstr_generic_enum") && (t.contains("E0107") || t.contains("missing generics")) {
            return Some("c01-fromstr-enum-generics-dropped".into());
        }
    }
    let _ = f;
    None
}

pub fn prop() -> DiceProp {
    DiceProp {
        crate_name: "gen_c01",
        prelude: PRELUDE.to_string(),
        crate_attrs: String::new(),
        nightly: false,
        check_only: true,
        ndice: 200,
        quick: (12000, 1),
        thorough: (6000, 8),
        build,
        fixed: no_fixed,
        classify: classify_with_warnings,
        rule: "derive (all 50, grouped in 20 classes) x item kind (unit/tuple/named struct, enum mixing unit/tuple/named variants, union) x generics (0..2 lifetimes, 0..2 type parameters with inline bounds/defaults, 0..3 const parameters incl. unused and defaulted, where-clauses, consts before types) x field types (universal helper types implementing every required trait, bare type parameters, composites where the derive requires nothing) x raw-identifier field/variant names x documented attributes x decorations (#[deprecated] field/variant, uninhabited field); oracle: rustc (`cargo check`) accepts the case and reports no warning whose primary span lies in a derive expansion; control rendering without derive_more guards generator soundness; non-trivial = has a generic parameter, an attribute, a raw identifier or a decoration; distinct by program text".into(),
        assumptions: vec!["support table of what each derive documents (DESIGN Appendix A) is transcribed correctly".into()],
        floors: super::dm::DERIVES
            .iter()
            .map(|d| (format!("derive={}", d.name), 0.003))
            .chain([
            ("generics=none".into(), 0.1),
            ("generics=lifetime".into(), 0.03),
            ("generics=type".into(), 0.1),
            ("generics=const".into(), 0.05),
            ("generics=mixed".into(), 0.1),
            ("decoration=deprecated_variant".into(), 0.02),
            ("decoration=deprecated_field".into(), 0.02),
        ])
            .collect(),
        shards: 0,
    }
}

fn classify_with_warnings(c: &GenCase, r: &CaseResult, f: &Finding) -> Option<String> {
    classify(c, r, f)
}

/// warnings attributed to the case (the crate-level allow list of the shard silences dead_code/unused/naming lints;
/// the driver subtracts whatever the control rendering raises as well)
pub fn own_warnings(r: &CaseResult) -> Vec<String> {
    r.warnings.iter().map(|w| format!("{}{}", w.code.as_ref().map(|c| format!("[{c}] ")).unwrap_or_default(), w.message)).collect()
}

pub struct P01(pub DiceProp);

impl ProgProp for P01 {
    type Case = GenCase;
    fn spec(&self, ctx: &Ctx) -> super::proggen::ProgSpec {
        self.0.spec(ctx)
    }
    fn strategy(&self, ctx: &Ctx) -> proptest::strategy::BoxedStrategy<GenCase> {
        self.0.strategy(ctx)
    }
    fn budget(&self, tier: Tier) -> (usize, u32) {
        self.0.budget(tier)
    }
    fn fixed_cases(&self, ctx: &Ctx) -> Vec<GenCase> {
        self.0.fixed_cases(ctx)
    }
    fn canonical(&self, c: &GenCase) -> String {
        self.0.canonical(c)
    }
    fn nontrivial(&self, c: &GenCase) -> bool {
        self.0.nontrivial(c)
    }
    fn labels(&self, c: &GenCase) -> Vec<String> {
        self.0.labels(c)
    }
    fn render(&self, c: &GenCase) -> super::proggen::CaseSrc {
        self.0.render(c)
    }
    fn render_control(&self, c: &GenCase) -> Option<super::proggen::CaseSrc> {
        self.0.render_control(c)
    }
    fn judge(&self, ctx: &Ctx, c: &GenCase, r: &CaseResult) -> Vec<Finding> {
        let mut out = self.0.judge(ctx, c, r);
        if r.compiled {
            let w = own_warnings(r);
            if !w.is_empty() {
                let deprecated = w.iter().any(|x| x.contains("deprecated"));
                out.push(Finding {
                    sig: if deprecated && c.labels.iter().any(|l| l.starts_with("decoration=deprecated")) {
                        Some("c01-deprecated-use-in-expansion".into())
                    } else {
                        None
                    },
                    summary: format!("the expansion raises a compiler warning of its own: {}", w[0]),
                    expected: WARNING_EXPECTED.into(),
                    observed: w.join("\n"),
                    warnings: w.clone(),
                });
            }
        }
        out
    }
    fn floors(&self) -> Vec<(String, f64)> {
        self.0.floors()
    }
    fn sample_json(&self, c: &GenCase) -> serde_json::Value {
        self.0.sample_json(c)
    }
    fn rule(&self) -> String {
        self.0.rule()
    }
    fn assumptions(&self) -> Vec<String> {
        self.0.assumptions()
    }
}

pub fn run(ctx: &Ctx) -> Report {
    super::progprop::run(&P01(prop()), ctx)
}

pub fn replay(ctx: &Ctx, case: &serde_json::Value) -> Report {
    super::progprop::replay(&P01(prop()), ctx, case)
}

//! C01 — every supported derive input is accepted and the expansion compiles warning-free.
//!
//! Compile-only E2 check (`cargo check`): derive x item kind x generics (lifetime / type / const
//! parameters with inline bounds, defaults, where-clauses, all legal orders) x named/positional/raw
//! identifiers x documented attributes x decorations (`#[deprecated]`, uninhabited field types).
//! Field types come from `support/universal.rs` (implement every trait a derive may require) or are bare
//! type parameters (the derive adds the documented bounds itself).
use super::core::*;
use super::proggen::CaseResult;
use super::progprop::*;
use serde_json::json;

pub const PRELUDE: &str = include_str!("../../support/universal.rs");

#[derive(Clone, Debug, Default)]
pub struct Gens {
    pub lts: Vec<String>,
    /// (name, inline bound, default)
    pub tys: Vec<(String, Option<String>, Option<String>)>,
    /// (name, default)
    pub consts: Vec<(String, Option<String>)>,
    pub wheres: Vec<String>,
    pub consts_first: bool,
}

impl Gens {
    pub fn is_empty(&self) -> bool {
        self.lts.is_empty() && self.tys.is_empty() && self.consts.is_empty()
    }
    pub fn decl(&self) -> String {
        if self.is_empty() {
            return String::new();
        }
        let mut v: Vec<String> = vec![];
        for (i, l) in self.lts.iter().enumerate() {
            if i == 1 {
                v.push(format!("{l}: {}", self.lts[0]));
            } else {
                v.push(l.clone());
            }
        }
        let tys: Vec<String> = self
            .tys
            .iter()
            .map(|(n, b, dflt)| format!("{n}{}{}", b.as_ref().map(|b| format!(": {b}")).unwrap_or_default(), dflt.as_ref().map(|x| format!(" = {x}")).unwrap_or_default()))
            .collect();
        let consts: Vec<String> = self.consts.iter().map(|(n, dflt)| format!("const {n}: usize{}", dflt.as_ref().map(|x| format!(" = {x}")).unwrap_or_default())).collect();
        // defaults must be trailing: only mix orders when nothing has a default
        let any_default = self.tys.iter().any(|t| t.2.is_some()) || self.consts.iter().any(|c| c.1.is_some());
        if self.consts_first && !any_default {
            v.extend(consts);
            v.extend(tys);
        } else {
            // parameters with defaults last
            let (td, tn): (Vec<_>, Vec<_>) = tys.into_iter().partition(|t| t.contains(" = "));
            let (cd, cn): (Vec<_>, Vec<_>) = consts.into_iter().partition(|t| t.contains(" = "));
            v.extend(tn);
            v.extend(cn);
            v.extend(td);
            v.extend(cd);
        }
        format!("<{}>", v.join(", "))
    }
    pub fn where_clause(&self) -> String {
        if self.wheres.is_empty() {
            String::new()
        } else {
            format!(" where {}", self.wheres.join(", "))
        }
    }
    pub fn class(&self) -> &'static str {
        let n = (!self.lts.is_empty()) as u8 + (!self.tys.is_empty()) as u8 + (!self.consts.is_empty()) as u8;
        match (n, !self.lts.is_empty(), !self.tys.is_empty(), !self.consts.is_empty()) {
            (0, ..) => "generics=none",
            (1, true, ..) => "generics=lifetime",
            (1, _, true, _) => "generics=type",
            (1, ..) => "generics=const",
            _ => "generics=mixed",
        }
    }
}

/// A field type and the generic parameters it needs.
#[derive(Clone, Debug, PartialEq)]
pub enum FT {
    U,
    T(String),
    L(String),
    A(String),
    /// types usable only where the derive requires nothing (or only Debug) of its fields
    RefU(String),
    VecT(String),
    ArrU(String),
    OptT(String),
    Tuple(String),
    Assoc,
    FnPtr(String),
    Infallible,
}

impl FT {
    pub fn render(&self) -> String {
        match self {
            FT::U => "U".into(),
            FT::T(t) => t.clone(),
            FT::L(l) => format!("L<{l}>"),
            FT::A(n) => format!("A<{n}>"),
            FT::RefU(l) => format!("&{l} U"),
            FT::VecT(t) => format!("Vec<{t}>"),
            FT::ArrU(n) => format!("[U; {n}]"),
            FT::OptT(t) => format!("Option<{t}>"),
            FT::Tuple(t) => format!("(U, {t})"),
            FT::Assoc => "<U as Tr>::A".into(),
            FT::FnPtr(t) => format!("fn({t}) -> U"),
            FT::Infallible => "core::convert::Infallible".into(),
        }
    }
}

/// field-type pools
#[derive(Clone, Copy, PartialEq)]
pub enum Pool {
    /// fields must implement the derive's trait: U, T, L<'a>, A<N>
    Universal,
    /// additionally no lifetimes (e.g. `'static` requirement)
    UniversalNoLt,
    /// anything that is Debug
    AnyDebug,
    /// anything at all
    Any,
}

pub struct FieldGen {
    pub fields: Vec<FT>,
    pub gens: Gens,
}

pub fn gen_field_types(d: &mut Dice, n: usize, pool: Pool, allow_generics: bool) -> FieldGen {
    gen_field_types_lt(d, n, pool, allow_generics, 2)
}

pub fn gen_field_types_lt(d: &mut Dice, n: usize, pool: Pool, allow_generics: bool, max_lts: usize) -> FieldGen {
    let mut gens = Gens::default();
    let mut fields = vec![];
    let mut lt = |g: &mut Gens, d: &mut Dice| -> String {
        if g.lts.is_empty() || (g.lts.len() == 1 && max_lts > 1 && d.chance(25)) {
            let n = ["'a", "'b"][g.lts.len()].to_string();
            g.lts.push(n.clone());
            n
        } else {
            g.lts[d.pick(g.lts.len())].clone()
        }
    };
    let ty = |g: &mut Gens, d: &mut Dice| -> String {
        if g.tys.is_empty() || (g.tys.len() == 1 && d.chance(30)) {
            let n = ["T", "V"][g.tys.len()].to_string();
            g.tys.push((n.clone(), None, None));
            n
        } else {
            g.tys[d.pick(g.tys.len())].0.clone()
        }
    };
    let cn = |g: &mut Gens, d: &mut Dice| -> String {
        if g.consts.is_empty() || (g.consts.len() == 1 && d.chance(25)) {
            let n = ["N", "M"][g.consts.len()].to_string();
            g.consts.push((n.clone(), None));
            n
        } else {
            g.consts[d.pick(g.consts.len())].0.clone()
        }
    };
    for _ in 0..n {
        let f = if !allow_generics {
            match pool {
                Pool::Any | Pool::AnyDebug if d.chance(20) => FT::Assoc,
                _ => FT::U,
            }
        } else {
            match pool {
                Pool::Universal => match d.weighted(&[3, 4, 2, 2]) {
                    0 => FT::U,
                    1 => FT::T(ty(&mut gens, d)),
                    2 => FT::L(lt(&mut gens, d)),
                    _ => FT::A(cn(&mut gens, d)),
                },
                Pool::UniversalNoLt => match d.weighted(&[3, 4, 2]) {
                    0 => FT::U,
                    1 => FT::T(ty(&mut gens, d)),
                    _ => FT::A(cn(&mut gens, d)),
                },
                Pool::AnyDebug | Pool::Any => match d.weighted(&[2, 3, 2, 2, 2, 2, 2, 1, 1, 1, if pool == Pool::Any { 1 } else { 0 }]) {
                    0 => FT::U,
                    1 => FT::T(ty(&mut gens, d)),
                    2 => FT::L(lt(&mut gens, d)),
                    3 => FT::A(cn(&mut gens, d)),
                    4 => FT::RefU(lt(&mut gens, d)),
                    5 => FT::VecT(ty(&mut gens, d)),
                    6 => FT::ArrU(cn(&mut gens, d)),
                    7 => FT::OptT(ty(&mut gens, d)),
                    8 => FT::Tuple(ty(&mut gens, d)),
                    9 => FT::Assoc,
                    _ => FT::FnPtr(ty(&mut gens, d)),
                },
            }
        };
        fields.push(f);
    }
    decorate_generics(d, &mut gens, allow_generics);
    FieldGen { fields, gens }
}

/// inline bounds, defaults, where-clauses, unused const parameter, parameter order
pub fn decorate_generics(d: &mut Dice, gens: &mut Gens, allow_generics: bool) {
    if !allow_generics {
        return;
    }
    if d.chance(20) {
        // an unused const parameter is legal
        let name = if gens.consts.iter().any(|c| c.0 == "K") { "K2" } else { "K" };
        gens.consts.push((name.to_string(), None));
    }
    for t in gens.tys.iter_mut() {
        if d.chance(35) {
            t.1 = Some(["Clone", "Clone + Default", "core::fmt::Debug", "?Sized + Clone", "'static + Copy"][d.pick(5)].to_string());
        }
    }
    if let Some(last) = gens.tys.last_mut() {
        if d.chance(20) {
            last.2 = Some("U".to_string());
        }
    }
    if let Some(last) = gens.consts.last_mut() {
        if d.chance(20) {
            last.1 = Some("3".to_string());
        }
    }
    if d.chance(35) {
        if let Some(t) = gens.tys.first() {
            let t = t.0.clone();
            gens.wheres.push(match d.pick(4) {
                0 => format!("{t}: Clone"),
                1 => format!("Vec<{t}>: Clone"),
                2 => format!("[{t}; 2]: Sized"),
                _ => format!("for<'z> &'z {t}: Sized"),
            });
        } else if let Some(l) = gens.lts.first() {
            gens.wheres.push(format!("{l}: {l}"));
        } else {
            gens.wheres.push("U: Copy".to_string());
        }
    }
    gens.consts_first = d.chance(30);
}

/// Repaired in /repo (fix: unreachable_code allows): with a field of the never type `!`, `derive(Into)`, `derive(TryInto)` and
/// `derive(Error)` raised `unreachable_code` warnings. The switches stay as documentation of the classes; both are off.
const AVOID_NEVER_TYPE_FIELD_IN_INTO_AND_TRY_INTO: bool = false;
const AVOID_NEVER_TYPE_FIELD_IN_ERROR: bool = false;
/// Not claimed: `derive(Into)` on a struct whose only converted field is `!` does not compile (E0277 `!: From<()>`): the
/// expansion writes `<Ty as From<_>>::from(value.0)` and `_` falls back to `()` for a diverging argument. Naming the source
/// type instead of `_` would break the documented `#[into(ref(str))] struct S(String)` (which relies on deref coercion of the
/// argument), and `!` is not nameable on stable without a projection trick, so this shape is left out of the domain.
const AVOID_NEVER_TYPE_AS_ONLY_CONVERTED_FIELD_OF_INTO: bool = true;

pub const FIELD_NAMES: [&str; 6] = ["a", "b", "c", "x", "r#type", "r#fn"];

pub struct Item {
    /// derive_more derives
    pub dm_derives: Vec<String>,
    /// std derives (kept in the control rendering)
    pub std_derives: Vec<String>,
    /// helper attributes on the container (each `#[..]`), all belonging to derive_more
    pub cont_attrs: Vec<String>,
    pub kw: &'static str,
    pub name: String,
    pub gens: Gens,
    /// struct / union body or enum variants, with `{{ATTR:n}}` markers replaced at render time
    pub body: ItemBody,
}

pub struct FieldDef {
    pub attrs: Vec<String>,
    pub std_attrs: Vec<String>,
    pub name: Option<String>,
    pub ty: String,
}

pub struct VariantDef {
    pub attrs: Vec<String>,
    pub std_attrs: Vec<String>,
    pub name: String,
    pub named: bool,
    pub unit: bool,
    pub fields: Vec<FieldDef>,
    pub discriminant: Option<String>,
}

pub enum ItemBody {
    Unit,
    Tuple(Vec<FieldDef>),
    Named(Vec<FieldDef>),
    Enum(Vec<VariantDef>),
}

thread_local! {
    /// while `Some`, field types are rendered as `$t<K>` macro fragments and collected here (see `render_via_macro`)
    static MACRO_TYS: std::cell::RefCell<Option<Vec<String>>> = const { std::cell::RefCell::new(None) };
}

/// The item as it looks when a declarative macro produces it: every field type is a `$t:ty` fragment, so the derive sees
/// it wrapped in a `None`-delimited group (`syn::Type::Group`).
pub fn render_via_macro(item: &Item, with_dm: bool) -> String {
    MACRO_TYS.with(|m| *m.borrow_mut() = Some(vec![]));
    let body = item.render(with_dm);
    let tys = MACRO_TYS.with(|m| m.borrow_mut().take()).unwrap_or_default();
    let params: Vec<String> = (0..tys.len()).map(|k| format!("$t{k}:ty")).collect();
    format!("macro_rules! __dm_item {{ ({}) => {{ {body} }}; }}\n__dm_item!({});", params.join(", "), tys.join(", "))
}

fn render_fields(fs: &[FieldDef], named: bool, with_dm: bool) -> String {
    let parts: Vec<String> = fs
        .iter()
        .map(|f| {
            let ty = MACRO_TYS.with(|m| match m.borrow_mut().as_mut() {
                Some(v) => {
                    v.push(f.ty.clone());
                    format!("$t{}", v.len() - 1)
                }
                None => f.ty.clone(),
            });
            let f = &FieldDef { ty, attrs: f.attrs.clone(), std_attrs: f.std_attrs.clone(), name: f.name.clone() };
            let mut s = String::new();
            for a in &f.std_attrs {
                s.push_str(a);
                s.push(' ');
            }
            if with_dm {
                for a in &f.attrs {
                    s.push_str(a);
                    s.push(' ');
                }
            }
            if named {
                s.push_str(&format!("pub {}: {}", f.name.as_ref().unwrap(), f.ty));
            } else {
                s.push_str(&format!("pub {}", f.ty));
            }
            s
        })
        .collect();
    if named {
        format!(" {{ {} }}", parts.join(", "))
    } else {
        format!("({})", parts.join(", "))
    }
}

impl Item {
    pub fn render(&self, with_dm: bool) -> String {
        let mut s = String::new();
        let mut derives: Vec<String> = self.std_derives.clone();
        if with_dm {
            derives.extend(self.dm_derives.iter().map(|d| format!("derive_more::{d}")));
        }
        if !derives.is_empty() {
            s.push_str(&format!("#[derive({})]\n", derives.join(", ")));
        }
        if with_dm {
            for a in &self.cont_attrs {
                s.push_str(a);
                s.push('\n');
            }
        } else {
            // std `repr` must stay
            for a in self.cont_attrs.iter().filter(|a| a.starts_with("#[repr")) {
                s.push_str(a);
                s.push('\n');
            }
        }
        let g = self.gens.decl();
        let w = self.gens.where_clause();
        match &self.body {
            ItemBody::Unit => s.push_str(&format!("pub {} {}{g}{w};", self.kw, self.name)),
            ItemBody::Tuple(fs) => s.push_str(&format!("pub {} {}{g}{}{w};", self.kw, self.name, render_fields(fs, false, with_dm))),
            ItemBody::Named(fs) => s.push_str(&format!("pub {} {}{g}{w}{}", self.kw, self.name, render_fields(fs, true, with_dm))),
            ItemBody::Enum(vs) => {
                let parts: Vec<String> = vs
                    .iter()
                    .map(|v| {
                        let mut t = String::new();
                        for a in &v.std_attrs {
                            t.push_str(a);
                            t.push(' ');
                        }
                        if with_dm {
                            for a in &v.attrs {
                                t.push_str(a);
                                t.push(' ');
                            }
                        }
                        t.push_str(&v.name);
                        if !v.unit {
                            t.push_str(&render_fields(&v.fields, v.named, with_dm).replace("pub ", ""));
                        }
                        if let Some(dsc) = &v.discriminant {
                            t.push_str(&format!(" = {dsc}"));
                        }
                        t
                    })
                    .collect();
                s.push_str(&format!("pub enum {}{g}{w} {{\n    {}\n}}", self.name, parts.join(",\n    ")));
            }
        }
        s
    }
}

fn mk_fields(types: &[FT], named: bool, d: &mut Dice) -> Vec<FieldDef> {
    let off = d.pick(3);
    types
        .iter()
        .enumerate()
        .map(|(i, t)| FieldDef { attrs: vec![], std_attrs: vec![], name: if named { Some(FIELD_NAMES[(i + off) % 6].to_string()) } else { None }, ty: t.render() })
        .collect()
}

/// variant shape: 0 unit, 1 tuple, 2 named
fn mk_variant(name: &str, types: &[FT], shape: usize, d: &mut Dice) -> VariantDef {
    VariantDef {
        attrs: vec![],
        std_attrs: vec![],
        name: name.to_string(),
        named: shape == 2,
        unit: shape == 0,
        fields: if shape == 0 { vec![] } else { mk_fields(types, shape == 2, d) },
        discriminant: None,
    }
}

const VNAMES: [&str; 5] = ["Alpha", "BetaGamma", "r#Type", "Delta", "Eps"];

fn fmt_ref(name: &Option<String>, i: usize) -> String {
    match name {
        Some(n) => n.trim_start_matches("r#").to_string(),
        None => format!("_{i}"),
    }
}

/// the "head" of a field type for coherence purposes: two impls `Trait<X> for S<..>` / `From<S<..>> for X` overlap when the
/// heads are equal (`L<'a>` vs `L<'b>`, `A<N>` vs `A<M>`, `<U as Tr>::A` is `U`); a bare type parameter overlaps with everything
fn coherence_head(t: &FT) -> String {
    match t {
        FT::U | FT::Assoc => "U".into(),
        FT::T(_) => "*".into(),
        FT::L(_) => "L".into(),
        FT::A(_) => "A".into(),
        FT::RefU(_) => "&U".into(),
        FT::VecT(_) => "Vec".into(),
        FT::ArrU(_) => "[U]".into(),
        FT::OptT(_) => "Option".into(),
        FT::Tuple(_) => "(U,_)".into(),
        FT::FnPtr(_) => "fn".into(),
        FT::Infallible => "Infallible".into(),
    }
}

/// Field-level `#[into(..)]` attributes (into.md, "Fields"). Every conversion target (kind x type) is generated at most
/// once (coherence) and never is a bare type parameter (orphan rule). Returns false (nothing changed) when no
/// attribute could be placed.
fn into_field_attrs(d: &mut Dice, types: &[FT], fs: &mut [FieldDef], cont_attrs: &mut Vec<String>) -> bool {
    let n = types.len();
    // targets already taken: "<kind>:<head>"
    let mut used: Vec<String> = vec![];
    let mut skipped = vec![false; n];
    let mut placed = false;
    // some field has conversions of its own (then there is no struct-level conversion unless the struct has an attribute)
    let mut any_convs = false;
    for i in 0..n {
        if !d.chance(55) {
            continue;
        }
        let bare = matches!(types[i], FT::T(_));
        let head = coherence_head(&types[i]);
        let is_u = types[i] == FT::U;
        // (attribute text, targets, skip)
        let form: (String, Vec<String>, bool) = match d.pick(8) {
            0 => ("#[into]".into(), vec![format!("owned:{head}")], false),
            1 => ("#[into(skip)]".into(), vec![], true),
            2 => ("#[into(ignore)]".into(), vec![], true),
            3 => ("#[into(ref)]".into(), vec![format!("ref:{head}")], false),
            4 => ("#[into(owned, ref_mut)]".into(), vec![format!("owned:{head}"), format!("mut:{head}")], false),
            5 => ("#[into(ref)] #[into(skip)]".into(), vec![format!("ref:{head}")], true),
            6 if is_u => ("#[into(i64)]".into(), vec!["owned:i64".into()], false),
            7 if is_u => ("#[into(owned(i64), ref)]".into(), vec!["owned:i64".into(), format!("ref:{head}")], false),
            _ => ("#[into]".into(), vec![format!("owned:{head}")], false),
        };
        if !form.1.is_empty() && (bare || form.1.iter().any(|t| used.contains(t))) {
            continue;
        }
        used.extend(form.1.iter().cloned());
        any_convs |= !form.1.is_empty();
        skipped[i] = form.2;
        fs[i].attrs.push(form.0);
        placed = true;
    }
    if !placed {
        return false;
    }
    // the struct-level conversion goes over the non-skipped fields: a tuple, or the field type itself if one is left
    let kept: Vec<usize> = (0..n).filter(|i| !skipped[*i]).collect();
    let cont = ["", "#[into]", "#[into(owned, ref)]", "#[into(ref_mut)]"][d.pick(4)];
    // kinds of the struct-level conversion: explicit, or the default owned one when no field has conversions of its own
    let kinds: Vec<&str> = match cont {
        "#[into]" => vec!["owned"],
        "#[into(owned, ref)]" => vec!["owned", "ref"],
        "#[into(ref_mut)]" => vec!["mut"],
        _ if !any_convs => vec!["owned"],
        _ => vec![],
    };
    let mut ok = true;
    if kept.len() == 1 {
        let k = kept[0];
        let head = coherence_head(&types[k]);
        if matches!(types[k], FT::T(_)) && !kinds.is_empty() {
            ok = false;
        }
        if kinds.iter().any(|kd| used.contains(&format!("{kd}:{head}"))) {
            ok = false;
        }
    }
    // a two-field tuple `(U, X)` is also what a marked field of type `(U, T)` converts into
    if kept.len() == 2 && kinds.iter().any(|kd| used.contains(&format!("{kd}:(U,_)"))) {
        ok = false;
    }
    if !ok {
        for f in fs.iter_mut() {
            f.attrs.retain(|a| !a.starts_with("#[into"));
        }
        return false;
    }
    if !cont.is_empty() {
        cont_attrs.push(cont.to_string());
    }
    true
}

/// Builds one case. Returns (item, labels).
fn build_item(d: &mut Dice) -> (Item, Vec<String>, Vec<String>) {
    let classes = [
        "AddLike", "AddAssignLike", "MulLike", "MulAssignLike", "NotLike", "SumLike", "Constructor", "AsRef", "Debug", "DisplayLike", "Deref", "Index",
        "IntoIterator", "Error", "From", "FromStr", "Into", "Accessors", "TryInto", "TryFrom",
    ];
    let cls = classes[d.pick(classes.len())];
    let allow_generics = d.chance(80);
    let mut labels = vec![format!("class={cls}")];
    let mut extra_items: Vec<String> = vec![];
    let mut item = Item { dm_derives: vec![], std_derives: vec![], cont_attrs: vec![], kw: "struct", name: "S".into(), gens: Gens::default(), body: ItemBody::Unit };
    let pick_names = |d: &mut Dice, names: &[&str]| names[d.pick(names.len())].to_string();
    match cls {
        "AddLike" | "NotLike" => {
            let names: &[&str] = if cls == "AddLike" { &["Add", "Sub", "BitAnd", "BitOr", "BitXor"] } else { &["Not", "Neg"] };
            if cls == "AddLike" && d.chance(18) {
                // mul.md: the Mul family with `forward` follows the Add-like rules, enums included
                let dn = pick_names(d, &["Mul", "Div", "Rem", "Shr", "Shl"]);
                let attr = super::dm::Derive::by_name(&dn).unwrap().info().attr.unwrap();
                item.cont_attrs.push(format!("#[{attr}(forward)]"));
                labels.push("attr=forward".into());
                labels.push("mul_forward_add_like_shape".into());
                item.dm_derives.push(dn);
            } else {
                item.dm_derives.push(pick_names(d, names));
            }
            if d.chance(55) {
                let n = d.range(1, 4);
                let fg = gen_field_types(d, n, Pool::Universal, allow_generics);
                let named = d.chance(50);
                item.gens = fg.gens;
                let fs = mk_fields(&fg.fields, named, d);
                item.body = if named { ItemBody::Named(fs) } else { ItemBody::Tuple(fs) };
            } else {
                let nv = d.range(1, 4);
                let shapes: Vec<usize> = (0..nv).map(|_| d.pick(3)).collect();
                let counts: Vec<usize> = shapes.iter().map(|s| if *s == 0 { 0 } else { d.range(1, 3) }).collect();
                let total: usize = counts.iter().sum();
                let fg = gen_field_types(d, total, Pool::Universal, allow_generics);
                item.gens = fg.gens;
                let mut k = 0;
                let vs = (0..nv)
                    .map(|i| {
                        let v = mk_variant(VNAMES[i], &fg.fields[k..k + counts[i]], shapes[i], d);
                        k += counts[i];
                        v
                    })
                    .collect();
                item.kw = "enum";
                item.name = "E".into();
                item.body = ItemBody::Enum(vs);
            }
        }
        "AddAssignLike" | "MulLike" | "MulAssignLike" => {
            let names: &[&str] = match cls {
                "AddAssignLike" => &["AddAssign", "SubAssign", "BitAndAssign", "BitOrAssign", "BitXorAssign"],
                "MulLike" => &["Mul", "Div", "Rem", "Shr", "Shl"],
                _ => &["MulAssign", "DivAssign", "RemAssign", "ShrAssign", "ShlAssign"],
            };
            let dn = pick_names(d, names);
            let n = d.range(1, 4);
            // one lifetime only: the scalar form bounds every distinct field type (`L<'a>: Mul<__RhsT, Output = L<'a>>`,
            // `L<'b>: ..`), and predicates differing only in lifetimes make rustc's selection ambiguous (E0284) for any
            // impl written that way — a language limit, not something the property promises
            let fg = gen_field_types_lt(d, n, Pool::Universal, allow_generics, 1);
            let named = d.chance(50);
            item.gens = fg.gens;
            let fs = mk_fields(&fg.fields, named, d);
            item.body = if named { ItemBody::Named(fs) } else { ItemBody::Tuple(fs) };
            if cls != "AddAssignLike" && d.chance(35) {
                let attr = super::dm::Derive::by_name(&dn).unwrap().info().attr.unwrap();
                item.cont_attrs.push(format!("#[{attr}(forward)]"));
                labels.push("attr=forward".into());
            }
            item.dm_derives.push(dn);
        }
        "SumLike" => {
            let n = d.range(1, 3);
            let fg = gen_field_types(d, n, Pool::Universal, allow_generics);
            let named = d.chance(50);
            item.gens = fg.gens;
            let fs = mk_fields(&fg.fields, named, d);
            item.body = if named { ItemBody::Named(fs) } else { ItemBody::Tuple(fs) };
            if d.chance(50) {
                item.dm_derives.extend(["Add".to_string(), "Sum".to_string()]);
            } else {
                item.dm_derives.extend(["Mul".to_string(), "Product".to_string()]);
                item.cont_attrs.push("#[mul(forward)]".into());
            }
        }
        "Constructor" | "Into" => {
            item.dm_derives.push(cls.to_string());
            let n = d.range(0, 4);
            let mut fg = gen_field_types(d, n, Pool::Any, allow_generics);
            if cls == "Into" && n == 1 {
                // `impl<T> From<S<T>> for T` is rejected by Rust's orphan rule (E0210) whatever a derive does:
                // a lone bare type parameter is outside what any Into derive can support
                if let FT::T(t) = fg.fields[0].clone() {
                    fg.fields[0] = FT::VecT(t);
                }
            }
            item.gens = fg.gens;
            let named = d.chance(50);
            let mut fs = mk_fields(&fg.fields, named, d);
            let all_u = n > 0 && fg.fields.iter().all(|f| *f == FT::U);
            let mut field_mode = false;
            if cls == "Into" && n > 0 && d.chance(35) {
                // into.md "Fields": `#[into]`, `#[into(<types>)]`, reference kinds and `#[into(skip)]` on fields, with or
                // without a struct attribute
                field_mode = into_field_attrs(d, &fg.fields, &mut fs, &mut item.cont_attrs);
                if field_mode {
                    labels.push("attr=into_field_level".into());
                }
            }
            if n == 0 {
                // the three ways to write a field-less struct
                item.body = match d.pick(3) {
                    0 => ItemBody::Unit,
                    1 => {
                        labels.push("empty_shape=tuple".into());
                        ItemBody::Tuple(vec![])
                    }
                    _ => {
                        labels.push("empty_shape=braces".into());
                        ItemBody::Named(vec![])
                    }
                };
            } else {
                item.body = if named { ItemBody::Named(fs) } else { ItemBody::Tuple(fs) };
            }
            if field_mode {
                // (the struct attribute, if any, was chosen together with the field attributes)
            } else if cls == "Into" && all_u && d.chance(35) {
                // into.md: listed types (`i64: From<U>` holds for the universal type); a tuple type for several fields
                let ty = if n == 1 { "i64".to_string() } else { format!("({})", vec!["i64"; n].join(", ")) };
                item.cont_attrs.push(
                    // (no `ref({ty})`: it needs `&i64: From<&U>`, which the universal field types do not implement)
                    [format!("#[into({ty})]"), format!("#[into(owned({ty}), ref)]"), format!("#[into({ty})]\n#[into(ref_mut)]")][d.pick(3)].clone(),
                );
                labels.push("attr=types".into());
            } else if cls == "Into" && d.chance(40) {
                item.cont_attrs.push(["#[into(owned, ref, ref_mut)]", "#[into(ref)]", "#[into(owned)]", "#[into(ref_mut)]"][d.pick(4)].to_string());
                labels.push("attr=into_kinds".into());
            }
        }
        "AsRef" => {
            item.dm_derives.push(pick_names(d, &["AsRef", "AsMut"]));
            let attr = if item.dm_derives[0] == "AsRef" { "as_ref" } else { "as_mut" };
            let n = d.range(1, 3);
            let fg = gen_field_types(d, n, Pool::Universal, allow_generics);
            let named = d.chance(50);
            item.gens = fg.gens;
            let mut fs = mk_fields(&fg.fields, named, d);
            let heads: Vec<String> = fg.fields.iter().map(coherence_head).collect();
            // fields whose own `AsRef<FieldTy>` impls cannot overlap: pairwise different heads, a bare parameter only alone
            let exposable = |set: &[usize]| -> bool {
                set.len() <= 1 || (set.iter().all(|i| heads[*i] != "*") && (0..set.len()).all(|a| (a + 1..set.len()).all(|b| heads[set[a]] != heads[set[b]])))
            };
            if n == 1 {
                let is_param = matches!(fg.fields[0], FT::T(_));
                match d.pick(7) {
                    0 => {}
                    1 => {
                        item.cont_attrs.push(format!("#[{attr}(forward)]"));
                        labels.push("attr=forward".into());
                    }
                    2 => {
                        // as_ref.md: `#[as_ref(i32)] struct Generic<T>(T)` generates `impl<T: AsRef<i32>> AsRef<i32> for Generic<T>`
                        item.cont_attrs.push(format!("#[{attr}(i64)]"));
                        labels.push("attr=types".into());
                        if is_param {
                            labels.push("asref=types_on_generic_field".into());
                        }
                    }
                    3 => fs[0].attrs.push(format!("#[{attr}]")),
                    4 => {
                        // the field's own type among the listed ones ("These types can include both the type of the field itself, ..")
                        let own = fg.fields[0].render();
                        if is_param {
                            // `#[as_ref(T)] struct Transparent<T>(T)`
                            item.cont_attrs.push(format!("#[{attr}({own})]"));
                        } else {
                            item.cont_attrs.push([format!("#[{attr}(i64, {own})]"), format!("#[{attr}({own})]\n#[{attr}(i64)]")][d.pick(2)].clone());
                        }
                        labels.push("attr=types".into());
                        labels.push("asref=types_include_field_type".into());
                    }
                    5 => {
                        fs[0].attrs.push(format!("#[{attr}(forward)]"));
                        labels.push("attr=forward".into());
                        labels.push("asref=field_level_forward".into());
                    }
                    _ => {
                        fs[0].attrs.push(format!("#[{attr}(i64)]"));
                        labels.push("attr=types".into());
                        labels.push("asref=field_level_types".into());
                    }
                }
            } else {
                match d.pick(5) {
                    1 => {
                        // as_ref.md "Skipping": impls for the fields that are *not* marked `skip`/`ignore`
                        let keep: Vec<usize> = {
                            let k0 = d.pick(n);
                            let mut v = vec![k0];
                            for i in 0..n {
                                if i != k0 && d.chance(50) {
                                    let mut w = v.clone();
                                    w.push(i);
                                    if exposable(&w) {
                                        v = w;
                                    }
                                }
                            }
                            // ("you must also mark one or more fields": at least one field is skipped)
                            if v.len() == n {
                                v.pop();
                            }
                            v
                        };
                        for (i, f) in fs.iter_mut().enumerate() {
                            if !keep.contains(&i) {
                                f.attrs.push(format!("#[{attr}({})]", ["skip", "ignore"][d.pick(2)]));
                            }
                        }
                        labels.push("asref=skip_mode".into());
                    }
                    2 => {
                        // several marked fields of different types
                        let mut marked: Vec<usize> = vec![];
                        for i in 0..n {
                            let mut w = marked.clone();
                            w.push(i);
                            if exposable(&w) {
                                marked = w;
                            }
                        }
                        for i in &marked {
                            fs[*i].attrs.push(format!("#[{attr}]"));
                        }
                        if marked.len() > 1 {
                            labels.push("asref=several_marked_fields".into());
                        }
                        labels.push("attr=field_marker".into());
                    }
                    3 => {
                        // "if some field is annotated with `#[as_ref(forward)]`, no other field can be marked"
                        let k = d.pick(n);
                        fs[k].attrs.push(format!("#[{attr}(forward)]"));
                        labels.push("attr=forward".into());
                        labels.push("asref=field_level_forward".into());
                    }
                    4 => {
                        // `#[as_ref(<types>)]` on a field, next to a plainly marked one (`AsRef<i64>` / `AsRef<FieldTy>`)
                        let k = d.pick(n);
                        fs[k].attrs.push(format!("#[{attr}(i64)]"));
                        let other = (k + 1) % n;
                        if heads[other] != "*" && d.chance(50) {
                            fs[other].attrs.push(format!("#[{attr}]"));
                        }
                        labels.push("attr=types".into());
                        labels.push("asref=field_level_types".into());
                    }
                    _ => {
                        let k = d.pick(n);
                        fs[k].attrs.push(format!("#[{attr}]"));
                        labels.push("attr=field_marker".into());
                    }
                }
            }
            item.body = if named { ItemBody::Named(fs) } else { ItemBody::Tuple(fs) };
        }
        "Debug" => {
            item.dm_derives.push("Debug".into());
            let as_enum = d.chance(45);
            let mk = |d: &mut Dice, fs: &mut Vec<FieldDef>| {
                for (i, f) in fs.iter_mut().enumerate() {
                    match d.pick(6) {
                        0 => f.attrs.push("#[debug(skip)]".into()),
                        1 => f.attrs.push("#[debug(ignore)]".into()),
                        2 => f.attrs.push(format!("#[debug(\"{{:?}}\", {})]", f.name.clone().unwrap_or(format!("_{i}")))),
                        _ => {}
                    }
                }
            };
            // debug.md: `#[debug("...", args...)]` "for the whole struct or enum variant" (then no field may carry a format of
            // its own), and `#[debug(bound(...))]` on the item
            let container_lit = |d: &mut Dice, fs: &mut Vec<FieldDef>| -> String {
                for f in fs.iter_mut() {
                    f.attrs.retain(|a| !a.starts_with("#[debug(\""));
                }
                let parts: Vec<String> = fs.iter().enumerate().map(|(i, f)| format!("{{{}:?}}", fmt_ref(&f.name, i))).collect();
                if d.chance(50) || fs.is_empty() {
                    format!("#[debug(\"lit {}\")]", parts.join(" "))
                } else {
                    format!("#[debug(\"lit {{:?}}\", {})]", fs[0].name.clone().unwrap_or("_0".to_string()))
                }
            };
            if !as_enum {
                let n = d.range(0, 4);
                let fg = gen_field_types(d, n, Pool::AnyDebug, allow_generics);
                item.gens = fg.gens;
                let named = d.chance(50);
                let mut fs = mk_fields(&fg.fields, named, d);
                mk(d, &mut fs);
                if d.chance(20) {
                    let a = container_lit(d, &mut fs);
                    item.cont_attrs.push(a);
                    labels.push("debug_container_literal".into());
                }
                item.body = if n == 0 && d.chance(50) { ItemBody::Unit } else if named { ItemBody::Named(fs) } else { ItemBody::Tuple(fs) };
            } else {
                let nv = d.range(1, 4);
                let shapes: Vec<usize> = (0..nv).map(|_| d.pick(3)).collect();
                let counts: Vec<usize> = shapes.iter().map(|s| if *s == 0 { 0 } else { d.range(0, 3) }).collect();
                let total: usize = counts.iter().sum();
                let fg = gen_field_types(d, total, Pool::AnyDebug, allow_generics);
                item.gens = fg.gens;
                let mut k = 0;
                let mut vs = vec![];
                for i in 0..nv {
                    let mut v = mk_variant(VNAMES[i], &fg.fields[k..k + counts[i]], shapes[i], d);
                    mk(d, &mut v.fields);
                    if d.chance(20) {
                        let a = container_lit(d, &mut v.fields);
                        v.attrs.push(a);
                        labels.push("debug_container_literal".into());
                    }
                    k += counts[i];
                    vs.push(v);
                }
                item.kw = "enum";
                item.name = "E".into();
                item.body = ItemBody::Enum(vs);
            }
            if d.chance(15) {
                // a user bound that every instantiation meets anyway
                let p = item.gens.tys.first().map(|t| t.0.clone());
                item.cont_attrs.push(match p {
                    Some(p) => format!("#[debug(bound({p}: ::core::marker::Sized, u8: ::core::marker::Copy))]"),
                    None => "#[debug(bounds(u8: ::core::marker::Copy))]".to_string(),
                });
                labels.push("fmt_user_bound".into());
            }
        }
        "DisplayLike" => {
            let (tr, attr, ty) = super::p02::FMT_TRAITS[[0usize, 0, 2, 3, 4, 5, 6, 7, 8][d.pick(9)]];
            item.dm_derives.push(tr.to_string());
            let lit_for = |fs: &[FieldDef]| -> String {
                let parts: Vec<String> = fs.iter().enumerate().map(|(i, f)| format!("{{{}:{ty}}}", fmt_ref(&f.name, i))).collect();
                format!("#[{attr}(\"{}\")]", parts.join(" "))
            };
            let lit_args = |fs: &[FieldDef]| -> String {
                let ph: Vec<String> = fs.iter().map(|_| format!("{{:{ty}}}")).collect();
                let args: Vec<String> = fs.iter().enumerate().map(|(i, f)| f.name.clone().unwrap_or(format!("_{i}"))).collect();
                format!("#[{attr}(\"{}\", {})]", ph.join("-"), args.join(", "))
            };
            match d.weighted(&[5, 4, 1]) {
                0 => {
                    let n = d.range(0, 3);
                    let fg = gen_field_types(d, n, Pool::Universal, allow_generics);
                    item.gens = fg.gens;
                    let named = d.chance(50);
                    let fs = mk_fields(&fg.fields, named, d);
                    if n == 0 {
                        if d.chance(30) {
                            // a field-less struct prints its name, converted by `rename_all`
                            item.cont_attrs.push(format!("#[{attr}(rename_all = \"snake_case\")]"));
                            labels.push("fmt_rename_all".into());
                        } else {
                            item.cont_attrs.push(format!("#[{attr}(\"unit\")]"));
                        }
                    } else if n > 1 || d.chance(40) {
                        item.cont_attrs.push(if d.chance(50) { lit_for(&fs) } else { lit_args(&fs) });
                        labels.push("attr=literal".into());
                    }
                    item.body = if n == 0 { ItemBody::Unit } else if named { ItemBody::Named(fs) } else { ItemBody::Tuple(fs) };
                }
                1 => {
                    let nv = d.range(1, 4);
                    let shapes: Vec<usize> = (0..nv).map(|_| d.pick(3)).collect();
                    let counts: Vec<usize> = shapes.iter().map(|s| if *s == 0 { 0 } else { d.range(1, 3) }).collect();
                    let total: usize = counts.iter().sum();
                    let fg = gen_field_types(d, total, Pool::Universal, allow_generics);
                    item.gens = fg.gens;
                    let mut k = 0;
                    let mut vs = vec![];
                    for i in 0..nv {
                        let mut v = mk_variant(VNAMES[i], &fg.fields[k..k + counts[i]], shapes[i], d);
                        if shapes[i] == 0 {
                            if tr != "Display" || d.chance(30) {
                                v.attrs.push(format!("#[{attr}(\"unit {i}\")]"));
                            }
                        } else if counts[i] > 1 || d.chance(40) {
                            v.attrs.push(if d.chance(50) { lit_for(&v.fields) } else { lit_args(&v.fields) });
                        }
                        k += counts[i];
                        vs.push(v);
                    }
                    // display.md "Shared enum format": a default format, or one wrapping the variant's own output
                    match d.weighted(&[6, 2, 3]) {
                        0 => {}
                        1 => {
                            item.cont_attrs.push(format!("#[{attr}(\"dflt\")]"));
                            labels.push("fmt_enum_level_default".into());
                        }
                        _ => {
                            item.cont_attrs.push([format!("#[{attr}(\"<{{_variant}}>\")]"), format!("#[{attr}(\"<{{}}>\", _variant)]"), format!("#[{attr}(\"{{_variant}}\")]")][d.pick(3)].clone());
                            labels.push("fmt_enum_level_wrapping".into());
                        }
                    }
                    if d.chance(20) {
                        // display.md "The `rename_all` attribute": on the enum and / or on a variant
                        item.cont_attrs.push(format!("#[{attr}(rename_all = \"{}\")]", ["snake_case", "SCREAMING-KEBAB-CASE", "camelCase"][d.pick(3)]));
                        if d.chance(50) {
                            let j = d.pick(vs.len());
                            vs[j].attrs.push(format!("#[{attr}(rename_all = \"lowercase\")]"));
                        }
                        labels.push("fmt_rename_all".into());
                    }
                    item.kw = "enum";
                    item.name = "E".into();
                    item.body = ItemBody::Enum(vs);
                }
                _ => {
                    // union with a literal
                    item.kw = "union";
                    item.name = "Un".into();
                    item.cont_attrs.push(format!("#[{attr}(\"a union\")]"));
                    item.body = ItemBody::Named(vec![
                        FieldDef { attrs: vec![], std_attrs: vec![], name: Some("a".into()), ty: "u32".into() },
                        FieldDef { attrs: vec![], std_attrs: vec![], name: Some("b".into()), ty: "f32".into() },
                    ]);
                    if allow_generics && d.chance(40) {
                        item.gens.consts.push(("K".into(), None));
                    }
                }
            }
            if d.chance(15) {
                // display.md "Custom trait bounds": a user bound that every instantiation meets anyway
                let p = item.gens.tys.first().map(|t| t.0.clone());
                item.cont_attrs.push(match p {
                    Some(p) => format!("#[{attr}(bound({p}: ::core::marker::Sized, u8: ::core::marker::Copy))]"),
                    None => format!("#[{attr}(bounds(u8: ::core::marker::Copy))]"),
                });
                labels.push("fmt_user_bound".into());
            }
        }
        "Deref" | "Index" | "IntoIterator" => {
            let (der, attr): (Vec<&str>, &str) = match cls {
                "Deref" => (if d.chance(50) { vec!["Deref"] } else { vec!["Deref", "DerefMut"] }, "deref"),
                "Index" => (if d.chance(50) { vec!["Index"] } else { vec!["Index", "IndexMut"] }, "index"),
                _ => (vec!["IntoIterator"], "into_iterator"),
            };
            item.dm_derives.extend(der.iter().map(|s| s.to_string()));
            let n = d.range(1, 3);
            let fg = gen_field_types(d, n, Pool::Universal, allow_generics);
            item.gens = fg.gens;
            let named = d.chance(50);
            let mut fs = mk_fields(&fg.fields, named, d);
            let attrs: Vec<&str> = if cls == "Deref" && der.len() == 2 { vec!["deref", "deref_mut"] } else if cls == "Index" && der.len() == 2 { vec!["index", "index_mut"] } else { vec![attr] };
            if n > 1 {
                let k = d.pick(n);
                if d.chance(50) {
                    for a in &attrs {
                        fs[k].attrs.push(format!("#[{a}]"));
                    }
                } else {
                    for (i, f) in fs.iter_mut().enumerate() {
                        if i != k {
                            for a in &attrs {
                                f.attrs.push(format!("#[{a}(ignore)]"));
                            }
                        }
                    }
                }
                labels.push("attr=field_selection".into());
            }
            if cls == "Deref" && d.chance(40) {
                // deref.md: `forward` goes on the struct when it has one field, on the selected field otherwise
                if n == 1 {
                    for a in &attrs {
                        item.cont_attrs.push(format!("#[{a}(forward)]"));
                    }
                } else {
                    for f in fs.iter_mut() {
                        for at in f.attrs.iter_mut() {
                            if !at.contains("ignore") {
                                *at = at.replace("]", "(forward)]");
                            }
                        }
                    }
                    if !fs.iter().any(|f| f.attrs.iter().any(|a| a.contains("forward"))) {
                        // selection was expressed through `ignore` on the others: mark the remaining field
                        for f in fs.iter_mut() {
                            if f.attrs.is_empty() {
                                for a in &attrs {
                                    f.attrs.push(format!("#[{a}(forward)]"));
                                }
                            }
                        }
                    }
                }
                labels.push("attr=forward".into());
            }
            if cls == "IntoIterator" && d.chance(50) {
                let kinds = ["#[into_iterator(owned, ref, ref_mut)]", "#[into_iterator(ref)]", "#[into_iterator(owned, ref_mut)]"][d.pick(3)].to_string();
                // into_iterator.md: on the struct when it has one field, on the selected field otherwise
                if n == 1 {
                    item.cont_attrs.push(kinds);
                } else if let Some(f) = fs.iter_mut().find(|f| f.attrs.iter().any(|a| a == "#[into_iterator]")) {
                    f.attrs = vec![kinds];
                } else if let Some(f) = fs.iter_mut().find(|f| f.attrs.is_empty()) {
                    f.attrs = vec![kinds];
                }
                labels.push("attr=into_kinds".into());
            }
            item.body = if named { ItemBody::Named(fs) } else { ItemBody::Tuple(fs) };
        }
        "Error" => {
            item.std_derives.push("Debug".into());
            item.dm_derives.extend(["Display".to_string(), "Error".to_string()]);
            // error.md: the source may be any error, e.g. a boxed trait object (spelled with absolute paths)
            const BOXED: &str = "::std::boxed::Box<dyn ::std::error::Error + ::core::marker::Send + ::core::marker::Sync + 'static>";
            if d.chance(50) {
                let n = d.range(0, 3);
                let named = d.chance(50);
                let fg = gen_field_types(d, n, Pool::UniversalNoLt, allow_generics);
                item.gens = fg.gens;
                let mut fs = mk_fields(&fg.fields, named, d);
                if named && n > 0 && d.chance(60) {
                    fs[0].name = Some("source".into());
                }
                if n > 1 && !named {
                    let k = d.pick(n);
                    fs[k].attrs.push("#[error(source)]".into());
                } else if n > 0 && d.chance(20) {
                    fs[0].attrs.push(["#[error(not(source))]", "#[error(ignore)]", "#[error(source)]"][d.pick(3)].to_string());
                }
                if allow_generics && n > 0 && d.chance(25) {
                    // the source may be an associated type of a type parameter (`T::Err`-style): the derive bounds the field type
                    let assoc_param = if item.gens.tys.iter().any(|t| t.0 == "Q") { None } else { Some("Q") };
                    let k = fs.iter().position(|f| f.name.as_deref() == Some("source") || f.attrs.iter().any(|a| a == "#[error(source)]")).unwrap_or(0);
                    // (a bare type parameter stays: it may be the only use of that parameter)
                    if let Some(q) = assoc_param.filter(|_| fs[k].ty != "T" && fs[k].ty != "V") {
                        item.gens.tys.push((q.to_string(), Some("Tr".to_string()), None));
                        fs[k].ty = [format!("{q}::A"), format!("<{q} as Tr>::A")][d.pick(2)].clone();
                        // (std's `#[derive(Debug)]` on the item bounds the parameter, not the projection)
                        item.gens.wheres.push(format!("{q}::A: core::fmt::Debug"));
                        labels.push("error_source_is_associated_type".into());
                    }
                } else if n > 0 && d.chance(15) {
                    if let Some(f) = fs.iter_mut().find(|f| f.ty == "U") {
                        f.ty = BOXED.to_string();
                        labels.push("error_field_is_boxed_dyn_error".into());
                    }
                }
                item.cont_attrs.push("#[display(\"err\")]".into());
                item.body = if n == 0 { ItemBody::Unit } else if named { ItemBody::Named(fs) } else { ItemBody::Tuple(fs) };
            } else {
                let nv = d.range(0, 3);
                let shapes: Vec<usize> = (0..nv).map(|_| d.pick(3)).collect();
                // variants with one field, or with two (then the source is picked by name / attribute, or there is none)
                let counts: Vec<usize> = shapes.iter().map(|s| if *s == 0 { 0 } else if d.chance(30) { 2 } else { 1 }).collect();
                let total: usize = counts.iter().sum();
                let fg = gen_field_types(d, total, Pool::UniversalNoLt, allow_generics);
                item.gens = fg.gens;
                let mut k = 0;
                let mut vs = vec![];
                for i in 0..nv {
                    let mut v = mk_variant(VNAMES[i], &fg.fields[k..k + counts[i]], shapes[i], d);
                    if shapes[i] == 2 && d.chance(60) {
                        v.fields[0].name = Some("source".into());
                    }
                    // error.md: `#[error(source)]`, `#[error(not(source))]`, `#[error(ignore)]` on the fields of a variant
                    if counts[i] == 2 {
                        labels.push("error_variant_with_two_fields".into());
                        let has_named_source = v.fields[0].name.as_deref() == Some("source");
                        match d.pick(4) {
                            0 => {}
                            1 if !has_named_source => {
                                let j = d.pick(2);
                                v.fields[j].attrs.push("#[error(source)]".into());
                                labels.push("error_variant_field_attr".into());
                            }
                            2 => {
                                // ignoring the non-source field must not disturb the choice of the source
                                v.fields[1].attrs.push("#[error(ignore)]".into());
                                labels.push("error_variant_field_attr".into());
                            }
                            _ if has_named_source => {
                                v.fields[0].attrs.push("#[error(not(source))]".into());
                                labels.push("error_variant_field_attr".into());
                            }
                            _ => {}
                        }
                    } else if counts[i] == 1 && d.chance(25) {
                        v.fields[0].attrs.push(["#[error(not(source))]", "#[error(ignore)]", "#[error(source)]"][d.pick(3)].to_string());
                        labels.push("error_variant_field_attr".into());
                    }
                    if counts[i] > 0 && d.chance(10) {
                        if let Some(f) = v.fields.iter_mut().find(|f| f.ty == "U") {
                            f.ty = BOXED.to_string();
                            labels.push("error_field_is_boxed_dyn_error".into());
                        }
                    }
                    v.attrs.push(format!("#[display(\"v{i}\")]"));
                    k += counts[i];
                    vs.push(v);
                }
                if nv > 0 && d.chance(35) {
                    // error.md: a whole variant can be ignored
                    let k = d.pick(nv);
                    vs[k].attrs.push("#[error(ignore)]".into());
                    labels.push("attr=error_variant_ignore".into());
                }
                item.kw = "enum";
                item.name = "E".into();
                item.body = ItemBody::Enum(vs);
            }
        }
        "From" => {
            item.dm_derives.push("From".into());
            if d.chance(50) {
                let n = d.range(0, 3);
                let fg = gen_field_types(d, n, Pool::Any, allow_generics);
                item.gens = fg.gens;
                let named = d.chance(50);
                let fs = mk_fields(&fg.fields, named, d);
                // `impl<T, F> From<F> for S<T> where T: From<F>` overlaps with core's `impl<T> From<T> for T` (E0119): a
                // coherence limit of Rust for a lone generic field, so `forward` is only generated otherwise
                let lone_param = n == 1 && matches!(fg.fields[0], FT::T(_));
                if n > 0 && !lone_param && d.chance(25) {
                    item.cont_attrs.push("#[from(forward)]".into());
                    labels.push("attr=forward".into());
                } else if n >= 1 && fg.fields.iter().all(|f| *f == FT::U) && d.chance(40) {
                    let ty = if n == 1 { "i64".to_string() } else { format!("({})", vec!["i64"; n].join(", ")) };
                    item.cont_attrs.push(if d.chance(50) { format!("#[from({ty})]") } else { format!("#[from({ty})]\n#[from({})]", if n == 1 { "U".to_string() } else { format!("({})", vec!["U"; n].join(", ")) }) });
                    labels.push("attr=types".into());
                }
                item.body = if n == 0 {
                    // `struct S;`, `struct S();`, `struct S {}` all convert from `()`
                    match d.pick(3) {
                        0 => ItemBody::Unit,
                        1 => {
                            labels.push("empty_shape=tuple".into());
                            ItemBody::Tuple(vec![])
                        }
                        _ => {
                            labels.push("empty_shape=braces".into());
                            ItemBody::Named(vec![])
                        }
                    }
                } else if named {
                    ItemBody::Named(fs)
                } else {
                    ItemBody::Tuple(fs)
                };
            } else {
                // distinct arities => no overlapping impls whatever the type arguments are
                let mut ar = vec![1usize, 2, 3];
                let nv = d.range(1, 3);
                let mut counts = vec![];
                for _ in 0..nv {
                    counts.push(ar.remove(d.pick(ar.len())));
                }
                let total: usize = counts.iter().sum();
                let mut fg = gen_field_types(d, total, Pool::Any, allow_generics);
                {
                    // `impl From<T> for E<T>` overlaps with every other `impl From<X> for E<T>` (T = X): coherence limit
                    let mut k = 0;
                    for c in &counts {
                        if *c == 1 {
                            if let FT::T(t) | FT::Tuple(t) = fg.fields[k].clone() {
                                fg.fields[k] = FT::VecT(t);
                            }
                        }
                        k += c;
                    }
                }
                item.gens = fg.gens;
                let mut k = 0;
                let mut vs = vec![];
                for i in 0..nv {
                    let shape = 1 + d.pick(2);
                    let v = mk_variant(VNAMES[i], &fg.fields[k..k + counts[i]], shape, d);
                    k += counts[i];
                    vs.push(v);
                }
                if d.chance(40) {
                    vs.push(mk_variant("Unit", &[], 0, d));
                }
                if d.chance(15) {
                    // from.md: "And even specify additional conversions for them": a variant listing the types it converts from
                    // (the variants without an attribute then get no impl, so nothing can overlap)
                    let nf = d.range(1, 2);
                    let (i, u) = if nf == 1 { ("i64".to_string(), "U".to_string()) } else { ("(i64, i64)".to_string(), "(U, U)".to_string()) };
                    let shape = 1 + d.pick(2);
                    let mut v = mk_variant("Uni", &vec![FT::U; nf], shape, d);
                    v.attrs.push([format!("#[from({i})]"), format!("#[from({i}, {u})]"), format!("#[from({u})]\n    #[from({i})]")][d.pick(3)].clone());
                    vs.push(v);
                    labels.push("from_variant_level_types".into());
                    labels.push("attr=variant".into());
                } else if d.chance(40) {
                    // (a variant made of universal fields only can list types: prefer one half of the time)
                    let all_u_variants: Vec<usize> = (0..vs.len()).filter(|i| !vs[*i].unit && vs[*i].fields.iter().all(|f| f.ty == "U")).collect();
                    let k = if !all_u_variants.is_empty() && d.chance(50) { all_u_variants[d.pick(all_u_variants.len())] } else { d.pick(vs.len()) };
                    if !vs[k].unit {
                        // from.md: `#[from(<types>)]` on a variant ("And even specify additional conversions for them"):
                        // for a variant whose fields are all the universal type
                        let all_u = vs[k].fields.iter().all(|f| f.ty == "U");
                        let nf = vs[k].fields.len();
                        let choice = d.pick(if all_u { 6 } else { 4 });
                        let a = match choice {
                            0 => "#[from(skip)]".to_string(),
                            1 => "#[from(ignore)]".to_string(),
                            2 => "#[from(forward)]".to_string(),
                            3 => "#[from]".to_string(),
                            _ => {
                                labels.push("from_variant_level_types".into());
                                let (i, u) = if nf == 1 { ("i64".to_string(), "U".to_string()) } else { (format!("({})", vec!["i64"; nf].join(", ")), format!("({})", vec!["U"; nf].join(", "))) };
                                if choice == 4 { format!("#[from({i})]") } else { format!("#[from({i}, {u})]") }
                            }
                        };
                        vs[k].attrs.push(a);
                        labels.push("attr=variant".into());
                    }
                }
                item.kw = "enum";
                item.name = "E".into();
                item.body = ItemBody::Enum(vs);
            }
        }
        "FromStr" => {
            item.dm_derives.push("FromStr".into());
            if d.chance(55) {
                let fg = gen_field_types(d, 1, Pool::UniversalNoLt, allow_generics);
                item.gens = fg.gens;
                let named = d.chance(50);
                let fs = mk_fields(&fg.fields, named, d);
                item.body = if named { ItemBody::Named(fs) } else { ItemBody::Tuple(fs) };
            } else {
                let nv = d.range(1, 4);
                let mut vs: Vec<VariantDef> = (0..nv).map(|i| mk_variant(VNAMES[i], &[], 0, d)).collect();
                if d.chance(25) {
                    // from_str.md: with `Foo` and `foo` both present the match falls back to exact comparison
                    vs.push(mk_variant("Mb", &[], 0, d));
                    vs.push(mk_variant("MB", &[], 0, d));
                    labels.push("variants_differing_only_in_case".into());
                }
                item.kw = "enum";
                item.name = "E".into();
                item.body = ItemBody::Enum(vs);
                if allow_generics && d.chance(50) {
                    // a field-less enum can only carry (unused) const parameters
                    item.gens.consts.push(("K".into(), if d.chance(30) { Some("3".into()) } else { None }));
                    labels.push("fromstr_generic_enum".into());
                }
            }
        }
        "Accessors" | "TryInto" => {
            let dn = if cls == "TryInto" { "TryInto".to_string() } else { pick_names(d, &["IsVariant", "Unwrap", "TryUnwrap"]) };
            let named_ok = dn == "IsVariant" || dn == "TryInto";
            item.dm_derives.push(dn.clone());
            let mut ar = vec![0usize, 1, 2, 3];
            let nv = d.range(1, 4);
            let mut counts = vec![];
            for _ in 0..nv {
                counts.push(ar.remove(d.pick(ar.len())));
            }
            let total: usize = counts.iter().sum();
            let mut fg = gen_field_types(d, total, Pool::Any, allow_generics);
            if dn == "TryInto" {
                // same orphan-rule limit as for Into: a variant whose only field is a bare type parameter
                let mut k = 0;
                for c in &counts {
                    if *c == 1 {
                        // (a lone `(U, T)` field would likewise overlap with a two-field variant)
                        if let FT::T(t) | FT::Tuple(t) = fg.fields[k].clone() {
                            fg.fields[k] = FT::VecT(t);
                        }
                    }
                    k += c;
                }
            }
            item.gens = fg.gens;
            let mut k = 0;
            let mut vs = vec![];
            for i in 0..nv {
                let shape = if counts[i] == 0 { if d.chance(70) { 0 } else { 1 } } else if named_ok && d.chance(35) { 2 } else { 1 };
                let mut v = mk_variant(VNAMES[i], &fg.fields[k..k + counts[i]], shape, d);
                if shape != 0 && counts[i] == 0 {
                    v.unit = false;
                }
                k += counts[i];
                vs.push(v);
            }
            if dn == "TryInto" && d.chance(35) {
                // try_into.md: variants with the same field types share one impl (`UnsignedOne(__0) | UnsignedTwo(__0)`)
                let k = d.pick(vs.len());
                let mut twin = VariantDef {
                    attrs: vec![],
                    std_attrs: vec![],
                    name: "Twin".into(),
                    named: vs[k].named,
                    unit: vs[k].unit,
                    fields: vs[k].fields.iter().map(|f| FieldDef { attrs: vec![], std_attrs: vec![], name: f.name.clone(), ty: f.ty.clone() }).collect(),
                    discriminant: None,
                };
                if !twin.fields.is_empty() && d.chance(50) {
                    // the other field-bearing shape: tuple <-> struct-like
                    twin.named = !twin.named;
                    for (i, f) in twin.fields.iter_mut().enumerate() {
                        f.name = if twin.named { Some(FIELD_NAMES[i % 6].to_string()) } else { None };
                    }
                }
                vs.push(twin);
                labels.push("tryinto_variants_with_same_types".into());
            }
            let attr = super::dm::Derive::by_name(&dn).unwrap().info().attr.unwrap();
            if d.chance(30) {
                if dn == "IsVariant" {
                    let k = d.pick(vs.len());
                    vs[k].attrs.push(format!("#[{attr}(ignore)]"));
                } else {
                    item.cont_attrs.push(format!("#[{attr}({})]", ["owned, ref, ref_mut", "ref", "ref_mut", "owned"][d.pick(4)]));
                }
                labels.push("attr=accessor".into());
            }
            if dn != "IsVariant" && d.chance(35) {
                // attributes on variants: `ignore` (try_into.md, unwrap.md, try_unwrap.md), the bare marker `#[try_into]`
                // ("With `#[try_into]` or `#[try_into(ignore)]` it's possible to indicate which variants .."), and reference
                // kinds on a variant ("`#[unwrap(ref)]` attribute on the enum declaration or that variant")
                let k = d.pick(vs.len());
                let a = if dn == "TryInto" {
                    [format!("#[{attr}(ignore)]"), format!("#[{attr}]")][d.pick(2)].clone()
                } else {
                    [format!("#[{attr}(ignore)]"), format!("#[{attr}(ref)]"), format!("#[{attr}(ref_mut)]"), format!("#[{attr}(owned, ref)]")][d.pick(4)].clone()
                };
                labels.push(if a.contains("ignore") { "accessor_variant_ignore".to_string() } else if a.ends_with(&format!("#[{attr}]")) { "accessor_variant_marker".to_string() } else { "accessor_variant_ref_kinds".to_string() });
                vs[k].attrs.push(a);
                labels.push("attr=accessor_on_variant".into());
            }
            item.kw = "enum";
            item.name = "E".into();
            item.body = ItemBody::Enum(vs);
        }
        "TryFrom" => {
            item.dm_derives.push("TryFrom".into());
            item.cont_attrs.push("#[try_from(repr)]".into());
            // try_from.md: "By default, a `TryFrom<isize>` is generated"; otherwise the `#[repr(u/i*)]` type
            let repr = ["u8", "i8", "u16", "i32", "u64", "isize", ""][d.pick(7)];
            let signed = repr.starts_with('i') || repr.is_empty();
            let nv = d.range(1, 4);
            let mut vs: Vec<VariantDef> = (0..nv).map(|i| mk_variant(VNAMES[i], &[], 0, d)).collect();
            if d.chance(25) {
                // variant names differing only in case are legal
                vs.push(mk_variant("Mb", &[], 0, d));
                vs.push(mk_variant("MB", &[], 0, d));
                labels.push("variants_differing_only_in_case".into());
            }
            // the documentation's example: `FieldSix(usize)` (never constructed), `EmptySeven{}` (constructed)
            let mut has_non_unit = false;
            if d.chance(30) {
                let mk = |name: &str, named: bool, fields: Vec<FieldDef>| VariantDef { attrs: vec![], std_attrs: vec![], name: name.into(), named, unit: false, discriminant: None, fields };
                let f = |name: Option<&str>| FieldDef { attrs: vec![], std_attrs: vec![], name: name.map(|s| s.to_string()), ty: "usize".into() };
                match d.pick(4) {
                    0 => vs.push(mk("Six", false, vec![f(None)])),
                    1 => vs.push(mk("Seven", true, vec![])),
                    2 => vs.push(mk("Eight", false, vec![])),
                    _ => {
                        vs.insert(0, mk("Nine", true, vec![f(Some("x"))]));
                        vs.push(mk("Seven", true, vec![]));
                    }
                }
                has_non_unit = true;
                labels.push("tryfrom_variants_with_fields_or_empty_braces".into());
            }
            // (explicit discriminants next to non-unit variants need an explicit `#[repr(inttype)]`: E0732)
            if d.chance(40) && !(has_non_unit && repr.is_empty()) {
                let k = d.pick(vs.len());
                // (values far from the implicit ones, so that no two variants share a discriminant)
                let choices: &[&str] = if signed { &["50", "1 << 5", "2 + 40", "-100"] } else { &["50", "1 << 5", "2 + 40"] };
                vs[k].discriminant = Some(choices[d.pick(choices.len())].to_string());
            }
            let mut generic_carrier = false;
            if allow_generics {
                match d.pick(4) {
                    0 => {}
                    1 => {
                        item.gens.consts.push(("K".into(), None));
                    }
                    2 => {
                        item.gens.tys.push(("T".into(), None, None));
                        vs.push(VariantDef { attrs: vec![], std_attrs: vec![], name: "Carrier".into(), named: false, unit: false, fields: vec![FieldDef { attrs: vec![], std_attrs: vec![], name: None, ty: "T".into() }], discriminant: None });
                        generic_carrier = true;
                    }
                    _ => {
                        item.gens.lts.push("'a".into());
                        item.gens.tys.push(("T".into(), Some("'a".into()), None));
                        vs.push(VariantDef { attrs: vec![], std_attrs: vec![], name: "Carrier".into(), named: true, unit: false, fields: vec![FieldDef { attrs: vec![], std_attrs: vec![], name: Some("r".into()), ty: "&'a T".into() }], discriminant: None });
                        generic_carrier = true;
                    }
                }
                if !item.gens.is_empty() {
                    labels.push("tryfrom_generic_enum".into());
                }
            }
            if generic_carrier && repr.is_empty() && vs.iter().any(|v| v.discriminant.is_some()) {
                // (same E0732 rule for the carrier variant)
                for v in vs.iter_mut() {
                    v.discriminant = None;
                }
            }
            if repr.is_empty() {
                labels.push("tryfrom_default_repr_isize".into());
            } else if (has_non_unit || generic_carrier) && vs.iter().any(|v| !v.unit && !v.fields.is_empty()) && d.chance(30) {
                // "possibly among other repr hints": `C` is only meaningful next to variants with fields
                item.cont_attrs.push(format!("#[repr(C, {repr})]"));
                labels.push("tryfrom_repr_among_other_hints".into());
            } else {
                item.cont_attrs.push(format!("#[repr({repr})]"));
            }
            item.kw = "enum";
            item.name = "E".into();
            item.body = ItemBody::Enum(vs);
        }
        _ => unreachable!(),
    }
    // decorations
    if d.chance(15) {
        match &mut item.body {
            ItemBody::Tuple(fs) | ItemBody::Named(fs) if !fs.is_empty() && item.kw == "struct" => {
                let k = d.pick(fs.len());
                fs[k].std_attrs.push("#[deprecated]".into());
                labels.push("decoration=deprecated_field".into());
            }
            ItemBody::Enum(vs) if !vs.is_empty() => {
                let with_fields: Vec<usize> = (0..vs.len()).filter(|i| !vs[*i].fields.is_empty()).collect();
                if !with_fields.is_empty() && d.chance(30) {
                    // a deprecated field inside a variant
                    let k = with_fields[d.pick(with_fields.len())];
                    let j = d.pick(vs[k].fields.len());
                    vs[k].fields[j].std_attrs.push("#[deprecated]".into());
                    labels.push("decoration=deprecated_variant_field".into());
                } else {
                    let k = d.pick(vs.len());
                    vs[k].std_attrs.push("#[deprecated]".into());
                    labels.push("decoration=deprecated_variant".into());
                }
            }
            _ => {}
        }
    }
    // uninhabited field types: where the derive requires nothing of its fields, and where the uninhabited types meet the
    // requirement themselves (`Infallible` and `!` implement Debug, Display and Error)
    let display_only = cls == "DisplayLike" && item.dm_derives.iter().any(|x| x == "Display") && item.kw != "union";
    let no_trait_needed = matches!(cls, "Constructor" | "Into" | "From" | "Accessors" | "TryInto" | "Debug" | "Error") || display_only;
    // (not next to `#[from(i64)]`/`forward`, which require `From<..>` of the field types)
    let converts = labels.iter().any(|l| (l == "attr=types" && cls != "AsRef") || l == "attr=forward")
        || item.cont_attrs.iter().any(|a| a.contains("i64") || a.contains("forward"))
        || matches!(&item.body, ItemBody::Enum(vs) if vs.iter().any(|v| v.attrs.iter().any(|a| a.contains("forward") || a.contains("i64"))));
    if no_trait_needed && !converts && d.chance(15) {
        // `Infallible`, or the never type itself (nameable on stable through a projection of `fn() -> !`)
        let converted = match &item.body {
            // (a field-level `#[into(..)]` makes that field the only converted one of its own impls)
            ItemBody::Tuple(fs) | ItemBody::Named(fs) if fs.iter().any(|f| f.attrs.iter().any(|a| a.starts_with("#[into") && !a.contains("skip") && !a.contains("ignore"))) => 1,
            ItemBody::Tuple(fs) | ItemBody::Named(fs) => fs.iter().filter(|f| !f.attrs.iter().any(|a| a.contains("skip") || a.contains("ignore"))).count(),
            _ => 2,
        };
        let never = !(AVOID_NEVER_TYPE_FIELD_IN_INTO_AND_TRY_INTO && matches!(cls, "Into" | "TryInto"))
            && !(AVOID_NEVER_TYPE_FIELD_IN_ERROR && cls == "Error")
            && !(AVOID_NEVER_TYPE_AS_ONLY_CONVERTED_FIELD_OF_INTO && cls == "Into" && converted <= 1)
            && d.chance(40);
        let ty = if never { "Never" } else { "core::convert::Infallible" };
        let mut done = false;
        let usable = |f: &FieldDef| f.ty == "U" && !f.attrs.iter().any(|a| a.contains("i64"));
        match &mut item.body {
            ItemBody::Tuple(fs) | ItemBody::Named(fs) if !fs.is_empty() => {
                let k = d.pick(fs.len());
                // keep generic parameters used: only replace concrete fields
                if usable(&fs[k]) {
                    fs[k].ty = ty.into();
                    done = true;
                }
            }
            ItemBody::Enum(vs) => {
                for v in vs.iter_mut() {
                    for f in v.fields.iter_mut() {
                        if usable(f) && !done {
                            f.ty = ty.into();
                            done = true;
                        }
                    }
                }
            }
            _ => {}
        }
        if done {
            labels.push("decoration=uninhabited_field".into());
            if never {
                extra_items.push("pub trait NeverOut { type T; }\nimpl<R> NeverOut for fn() -> R { type T = R; }\npub type Never = <fn() -> ! as NeverOut>::T;".to_string());
                labels.push("decoration=never_type_field".into());
            }
            if matches!(cls, "Error" | "DisplayLike") {
                labels.push("decoration=uninhabited_field_meets_trait".into());
            }
        }
    }
    labels.push(item.gens.class().to_string());
    for dn in &item.dm_derives {
        labels.push(format!("derive={dn}"));
    }
    (item, labels, std::mem::take(&mut extra_items))
}

pub fn build_item_pub(d: &mut Dice) -> (Item, Vec<String>, Vec<String>) {
    build_item(d)
}

fn build(d: &mut Dice) -> GenCase {
    let (item, mut labels, extra) = build_item(d);
    // now and then the whole item comes out of a `macro_rules!` whose `$t:ty` fragments are the field types
    let has_fields = match &item.body {
        ItemBody::Unit => false,
        ItemBody::Tuple(fs) | ItemBody::Named(fs) => !fs.is_empty(),
        ItemBody::Enum(vs) => vs.iter().any(|v| !v.fields.is_empty()),
    };
    let via_macro = has_fields && d.chance(8);
    let (body, control) = if via_macro {
        labels.push("item_from_macro_rules_with_ty_fragments".into());
        (format!("{}\n{}", extra.join("\n"), render_via_macro(&item, true)), format!("{}\n{}", extra.join("\n"), render_via_macro(&item, false)))
    } else {
        (format!("{}\n{}", extra.join("\n"), item.render(true)), format!("{}\n{}", extra.join("\n"), item.render(false)))
    };
    let mut c = GenCase::new(body);
    c.runnable = false;
    c.control = Some(control);
    c.nontrivial = !item.gens.is_empty() || !item.cont_attrs.is_empty() || labels.iter().any(|l| l.starts_with("attr=") || l.starts_with("decoration=")) || c.body.contains("r#");
    c.labels = labels;
    c.meta = json!({"derives": item.dm_derives});
    c
}

/// Deterministic cases: the user's own type parameter carries a name an expansion might want for a generic parameter, an
/// associated type or a binding of its own (`I`, `Rhs`, `Output`, `Item`, `Target`, `Err`, ..). One-parameter newtypes /
/// one-variant enums over that parameter, one derive (set) each; every one must compile, warning-free.
fn fixed() -> Vec<GenCase> {
    const NAMES: [&str; 13] = ["I", "F", "E", "R", "Rhs", "Output", "Item", "Target", "Idx", "Err", "Error", "Iter", "Fmt"];
    // (derive list, item template with `@P` for the parameter)
    const ITEMS: [(&str, &str); 30] = [
        ("Add, Sum", "pub struct S<@P>(pub @P);"),
        ("Mul, Product", "#[mul(forward)] pub struct S<@P>(pub @P);"),
        ("Add, Sub, BitAnd, BitOr, BitXor", "pub struct S<@P>(pub @P, pub @P);"),
        ("Mul, Div, Rem, Shr, Shl", "pub struct S<@P>(pub @P);"),
        ("AddAssign, SubAssign, MulAssign, DivAssign", "pub struct S<@P>(pub @P);"),
        ("Not, Neg", "pub struct S<@P>(pub @P);"),
        ("Add, Not", "pub enum S<@P> { A(@P), B { x: @P }, U }"),
        ("From", "pub struct S<@P>(pub @P, pub u8);"),
        ("From", "#[from(forward)] pub struct S<@P>(pub Vec<@P>);"),
        ("From", "pub enum S<@P> { A(@P), #[from(forward)] B { x: Vec<@P> } }"),
        ("Into", "#[into(owned, ref, ref_mut)] pub struct S<@P>(pub @P, pub u8);"),
        ("Constructor", "pub struct S<@P> { pub a: @P, pub b: u8 }"),
        ("Display", "#[display(\"{_0}\")] pub struct S<@P>(pub @P);"),
        ("Display", "#[display(\"<{_variant}>\")] pub enum S<@P> { A(@P), #[display(\"{x:?}\")] B { x: @P } }"),
        ("Debug", "pub struct S<@P> { pub a: @P, #[debug(skip)] pub b: u8 }"),
        ("FromStr", "pub struct S<@P>(pub @P);"),
        ("AsRef, AsMut", "#[as_ref(forward)] #[as_mut(forward)] pub struct S<@P>(pub @P);"),
        ("AsRef", "pub struct S<@P>(#[as_ref(@P)] pub @P);"),
        ("Deref, DerefMut", "pub struct S<@P>(pub @P);"),
        ("Deref, DerefMut", "#[deref(forward)] #[deref_mut(forward)] pub struct S<@P>(pub Box<@P>);"),
        ("Index, IndexMut", "pub struct S<@P>(pub Vec<@P>);"),
        ("IntoIterator", "pub struct S<@P>(#[into_iterator(owned, ref, ref_mut)] pub Vec<@P>);"),
        ("IsVariant, Unwrap, TryUnwrap", "#[unwrap(ref, ref_mut)] #[try_unwrap(ref, ref_mut)] pub enum S<@P> { A(@P), B(u8, @P), U }"),
        ("TryInto", "#[try_into(owned, ref, ref_mut)] pub enum S<@P> { A(Vec<@P>), B(u8, u16) }"),
        ("TryFrom", "#[try_from(repr)] #[repr(u8)] pub enum S<@P> { A = 1, B(@P) = 2 }"),
        ("Display, Error", "#[display(\"e\")] pub struct S<@P> { pub source: @P }"),
        ("Display, Error", "#[display(\"e\")] pub enum S<@P> { A { source: @P }, B(#[error(not(source))] u8) }"),
        ("Binary, Octal, LowerHex, UpperHex, LowerExp, UpperExp, Pointer", "pub struct S<@P>(pub @P);"),
        ("Sum", "#[derive(derive_more::Add)] pub struct S<@P> { pub a: @P, pub b: @P }"),
        ("Product", "#[derive(derive_more::Mul)] #[mul(forward)] pub struct S<@P> { pub a: @P }"),
    ];
    let mut out = vec![];
    for name in NAMES {
        for (derives, item) in ITEMS {
            let list: Vec<String> = derives.split(", ").map(|d| format!("derive_more::{d}")).collect();
            let item = item.replace("@P", name);
            let body = format!("#[derive({})]\n{item}", list.join(", "));
            // control: the same item without derive_more's derives and helper attributes
            let mut ctl = String::new();
            let mut rest = item.as_str();
            while let Some(r) = rest.strip_prefix("#[") {
                let end = r.find("] ").map(|i| i + 2).unwrap_or(0);
                rest = &r[end..];
            }
            let mut depth = 0i32;
            let mut skip = false;
            let chars: Vec<char> = rest.chars().collect();
            let mut i = 0;
            while i < chars.len() {
                // drop field / variant level `#[..]` attributes as well
                if chars[i] == '#' && chars.get(i + 1) == Some(&'[') {
                    skip = true;
                    depth = 0;
                }
                if skip {
                    if chars[i] == '[' {
                        depth += 1;
                    }
                    if chars[i] == ']' {
                        depth -= 1;
                        if depth == 0 {
                            skip = false;
                            i += 1;
                            continue;
                        }
                    }
                    i += 1;
                    continue;
                }
                ctl.push(chars[i]);
                i += 1;
            }
            let mut c = GenCase::new(body);
            c.runnable = false;
            c.control = Some(ctl);
            c.nontrivial = true;
            c.labels = vec!["fixed=user_parameter_named_like_an_expansion_name".into(), format!("param_name={name}")];
            c.meta = json!({"derives": derives.split(", ").collect::<Vec<_>>()});
            out.push(c);
        }
    }
    out
}

fn classify(c: &GenCase, r: &CaseResult, f: &Finding) -> Option<String> {
    let has = |l: &str| c.labels.iter().any(|x| x == l);
    if !r.compiled {
        let t = r.error_text();
        if has("tryfrom_generic_enum") && (t.contains("E0107") || t.contains("E0109") || t.contains("generic arguments")) {
            return Some("c01-tryfrom-generics-on-repr".into());
        }
        if has("fromstr_generic_enum") && (t.contains("E0107") || t.contains("missing generics")) {
            return Some("c01-fromstr-enum-generics-dropped".into());
        }
    }
    let _ = f;
    None
}

pub fn prop() -> DiceProp {
    DiceProp {
        crate_name: "gen_c01",
        prelude: PRELUDE.to_string(),
        // the shard root brings its own, narrower allow list: naming / unused-variable lints raised inside expansions count
        // (what the control rendering raises as well is subtracted by the driver)
        crate_attrs: "// dmv:own-lints\n#![allow(dead_code, unused_imports)]\n".to_string(),
        nightly: false,
        check_only: true,
        ndice: 200,
        quick: (12000, 1),
        thorough: (6000, 8),
        build,
        fixed,
        classify: classify_with_warnings,
        rule: "derive (all 50, grouped in 20 classes) x item kind (unit/tuple/named struct, enum mixing unit/tuple/named variants, union) x generics (0..2 lifetimes, 0..2 type parameters with inline bounds/defaults, 0..3 const parameters incl. unused and defaulted, where-clauses, consts before types) x field types (universal helper types implementing every required trait, bare type parameters, composites where the derive requires nothing) x raw-identifier field/variant names x documented attributes (incl. field-level `#[into(..)]`, `#[as_ref(skip|forward|<types>)]` on fields and type lists naming the field's own type, variant-level `#[from(<types>)]`, `#[try_into]`/`ignore`/reference kinds on variants, TryInto variants sharing their field types, Error variants with two fields and field attributes, boxed `dyn Error` fields, TryFrom without `#[repr]` / with `#[repr(C, int)]` / with field-bearing and `{}` variants, enum-level and `rename_all` / `bound(..)` fmt attributes, struct/variant-level `#[debug(\"..\")]`, `S()` / `S {}` structs) x decorations (#[deprecated] field / variant / field of a variant, uninhabited field: `Infallible` or the never type through `<fn() -> ! as Tr>::T`, also where they meet the derive's trait requirement: Display, Error); the shard root allows only dead_code and unused_imports, so naming and unused-variable lints raised in expansions count; oracle: rustc (`cargo check`) accepts the case and reports no warning whose primary span lies in a derive expansion; control rendering without derive_more guards generator soundness; non-trivial = has a generic parameter, an attribute, a raw identifier or a decoration; distinct by program text".into(),
        assumptions: vec!["support table of what each derive documents (DESIGN Appendix A) is transcribed correctly".into()],
        floors: super::dm::DERIVES
            .iter()
            .map(|d| (format!("derive={}", d.name), 0.003))
            .chain([
            ("generics=none".into(), 0.1),
            ("generics=lifetime".into(), 0.03),
            ("generics=type".into(), 0.1),
            ("generics=const".into(), 0.05),
            ("generics=mixed".into(), 0.1),
            ("decoration=deprecated_variant".into(), 0.02),
            ("decoration=deprecated_field".into(), 0.02),
            ("decoration=deprecated_variant_field".into(), 0.004),
            ("decoration=never_type_field".into(), 0.002),
            ("attr=into_field_level".into(), 0.005),
            ("tryinto_variants_with_same_types".into(), 0.008),
            ("attr=accessor_on_variant".into(), 0.015),
            ("asref=skip_mode".into(), 0.004),
            ("asref=field_level_types".into(), 0.004),
            ("error_variant_with_two_fields".into(), 0.004),
            ("tryfrom_default_repr_isize".into(), 0.002),
            ("tryfrom_variants_with_fields_or_empty_braces".into(), 0.008),
            ("fmt_enum_level_wrapping".into(), 0.002),
            ("from_variant_level_types".into(), 0.002),
        ])
            .collect(),
        shards: 0,
    }
}

fn classify_with_warnings(c: &GenCase, r: &CaseResult, f: &Finding) -> Option<String> {
    classify(c, r, f)
}

/// warnings attributed to the case (the crate-level allow list of the shard silences dead_code/unused/naming lints;
/// the driver subtracts whatever the control rendering raises as well)
pub fn own_warnings(r: &CaseResult) -> Vec<String> {
    r.warnings.iter().map(|w| format!("{}{}", w.code.as_ref().map(|c| format!("[{c}] ")).unwrap_or_default(), w.message)).collect()
}

pub struct P01(pub DiceProp);

impl ProgProp for P01 {
    type Case = GenCase;
    fn spec(&self, ctx: &Ctx) -> super::proggen::ProgSpec {
        self.0.spec(ctx)
    }
    fn strategy(&self, ctx: &Ctx) -> proptest::strategy::BoxedStrategy<GenCase> {
        self.0.strategy(ctx)
    }
    fn budget(&self, tier: Tier) -> (usize, u32) {
        self.0.budget(tier)
    }
    fn fixed_cases(&self, ctx: &Ctx) -> Vec<GenCase> {
        self.0.fixed_cases(ctx)
    }
    fn canonical(&self, c: &GenCase) -> String {
        self.0.canonical(c)
    }
    fn nontrivial(&self, c: &GenCase) -> bool {
        self.0.nontrivial(c)
    }
    fn labels(&self, c: &GenCase) -> Vec<String> {
        self.0.labels(c)
    }
    fn render(&self, c: &GenCase) -> super::proggen::CaseSrc {
        self.0.render(c)
    }
    fn render_control(&self, c: &GenCase) -> Option<super::proggen::CaseSrc> {
        self.0.render_control(c)
    }
    fn judge(&self, ctx: &Ctx, c: &GenCase, r: &CaseResult) -> Vec<Finding> {
        let mut out = self.0.judge(ctx, c, r);
        if r.compiled {
            let w = own_warnings(r);
            if !w.is_empty() {
                let deprecated = w.iter().any(|x| x.contains("deprecated"));
                out.push(Finding {
                    sig: if deprecated && c.labels.iter().any(|l| l.starts_with("decoration=deprecated")) {
                        Some("c01-deprecated-use-in-expansion".into())
                    } else {
                        None
                    },
                    summary: format!("the expansion raises a compiler warning of its own: {}", w[0]),
                    expected: WARNING_EXPECTED.into(),
                    observed: w.join("\n"),
                    warnings: w.clone(),
                });
            }
        }
        out
    }
    fn floors(&self) -> Vec<(String, f64)> {
        self.0.floors()
    }
    fn sample_json(&self, c: &GenCase) -> serde_json::Value {
        self.0.sample_json(c)
    }
    fn rule(&self) -> String {
        self.0.rule()
    }
    fn assumptions(&self) -> Vec<String> {
        self.0.assumptions()
    }
}

pub fn run(ctx: &Ctx) -> Report {
    super::progprop::run(&P01(prop()), ctx)
}

pub fn replay(ctx: &Ctx, case: &serde_json::Value) -> Report {
    super::progprop::replay(&P01(prop()), ctx, case)
}

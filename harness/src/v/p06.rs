//! C06 — `derive_more::Debug` without attributes is indistinguishable from std `Debug`; `skip`/`ignore`
//! closes like `finish_non_exhaustive`; a field-level `#[debug("..", args)]` replaces only that field's value.
//!
//! Every case is a small family of type definitions (nesting depth <= 3) rendered three times with identical
//! names: `dm` (deriving `derive_more::Debug`), `sd` (the reference twin: std `#[derive(Debug)]` where the
//! definition has no `#[debug]` attribute, otherwise a mechanically generated impl over std's builders with
//! `finish_non_exhaustive()` / `&format_args!(LIT, ARGS..)`), and `md` (the same hand-written impl with two
//! switchable *defect models*). Values of the three twins are formatted under a grid of formatter
//! configurations x nestings (all in the prelude, over `&dyn Debug`) and compared text for text.
use super::progprop::*;
use super::proggen::CaseResult;
use serde_json::json;
use std::fmt::Write as _;

pub const SIG_FLAGS: &str = "c06-debugtuple-pretty-flags";
pub const SIG_RAW: &str = "c06-raw-ident-name";
pub const SIG_BOTH: &str = "c06-debugtuple-pretty-flags+raw-ident-name";

// ------------------------------------------------------------------------------------------------
// formatter configuration grid

const F_FA: [&str; 10] = ["", "<", "^", ">", "*<", "*^", "*>", "0>", "é^", "#<"];
const F_SIGN: [&str; 3] = ["", "+", "-"];
const F_ALT: [&str; 2] = ["", "#"];
const F_ZERO: [&str; 2] = ["", "0"];
const F_WIDTH: [&str; 4] = ["", "1", "8", "20"];
const F_PREC: [&str; 3] = ["", ".0", ".3"];
const F_TY: [&str; 3] = ["?", "x?", "X?"];

fn spec_of(row: &[usize; 7]) -> String {
    let parts = [F_FA[row[0]], F_SIGN[row[1]], F_ALT[row[2]], F_ZERO[row[3]], F_WIDTH[row[4]], F_PREC[row[5]], F_TY[row[6]]];
    format!("{{:{}}}", parts.concat())
}

/// The grid of outer specs: an all-pairs covering array over the seven spec components (greedy, deterministic),
/// the full product of the components that interact inside the builders (`#` x type x zero x width x precision),
/// the configurations named in DESIGN.md and 40 pseudo-random rows (fixed LCG: the grid is a constant table).
pub fn spec_grid() -> Vec<String> {
    let sizes = [F_FA.len(), F_SIGN.len(), F_ALT.len(), F_ZERO.len(), F_WIDTH.len(), F_PREC.len(), F_TY.len()];
    let mut rows: Vec<[usize; 7]> = vec![];
    // explicit ones first
    let explicit: [[usize; 7]; 12] = [
        [0, 0, 0, 0, 0, 0, 0], // {:?}
        [0, 0, 1, 0, 0, 0, 0], // {:#?}
        [0, 0, 0, 0, 0, 0, 1], // {:x?}
        [0, 0, 0, 0, 0, 0, 2], // {:X?}
        [0, 0, 1, 0, 0, 0, 1], // {:#x?}
        [3, 0, 0, 0, 3, 0, 0], // {:>20?}
        [5, 0, 1, 0, 3, 0, 0], // {:*^#20?}
        [0, 0, 0, 0, 2, 2, 0], // {:8.3?}
        [0, 0, 1, 1, 2, 2, 0], // {:#08.3?}
        [0, 1, 0, 0, 0, 0, 0], // {:+?}
        [0, 0, 0, 1, 2, 0, 0], // {:08?}
        [0, 0, 1, 0, 0, 1, 2], // {:#.0X?}
    ];
    rows.extend(explicit);
    // full product of the interacting components
    for alt in 0..2 {
        for ty in 0..3 {
            for zero in 0..2 {
                for w in [0usize, 2] {
                    for p in [0usize, 2] {
                        rows.push([0, 0, alt, zero, w, p, ty]);
                    }
                }
            }
        }
    }
    // greedy all-pairs
    let mut uncovered: std::collections::BTreeSet<(usize, usize, usize, usize)> = Default::default();
    for i in 0..7 {
        for j in i + 1..7 {
            for a in 0..sizes[i] {
                for b in 0..sizes[j] {
                    uncovered.insert((i, a, j, b));
                }
            }
        }
    }
    let cover = |row: &[usize; 7], unc: &mut std::collections::BTreeSet<(usize, usize, usize, usize)>| {
        for i in 0..7 {
            for j in i + 1..7 {
                unc.remove(&(i, row[i], j, row[j]));
            }
        }
    };
    for r in &rows {
        cover(r, &mut uncovered);
    }
    let mut all: Vec<[usize; 7]> = vec![];
    let mut idx = [0usize; 7];
    'outer: loop {
        all.push(idx);
        for k in (0..7).rev() {
            idx[k] += 1;
            if idx[k] < sizes[k] {
                continue 'outer;
            }
            idx[k] = 0;
        }
        break;
    }
    while !uncovered.is_empty() {
        let mut best = (0usize, 0usize);
        for (n, row) in all.iter().enumerate() {
            let mut gain = 0;
            for i in 0..7 {
                for j in i + 1..7 {
                    if uncovered.contains(&(i, row[i], j, row[j])) {
                        gain += 1;
                    }
                }
            }
            if gain > best.0 {
                best = (gain, n);
            }
        }
        let row = all[best.1];
        cover(&row, &mut uncovered);
        rows.push(row);
    }
    // 40 fixed pseudo-random rows
    let mut x: u64 = 0x9E3779B97F4A7C15;
    for _ in 0..40 {
        let mut row = [0usize; 7];
        for k in 0..7 {
            x = x.wrapping_mul(6364136223846793005).wrapping_add(1442695040888963407);
            row[k] = ((x >> 33) as usize) % sizes[k];
        }
        rows.push(row);
    }
    let mut seen = std::collections::HashSet::new();
    rows.iter().map(spec_of).filter(|s| seen.insert(s.clone())).collect()
}

pub const NESTS: [&str; 11] = [
    "v",
    "Some(v)",
    "vec![v, v]",
    "(v, 1)",
    "BTreeMap{1: v}",
    "std-derived Wrap{inner: v, n: 1}",
    "std-derived WrapT(v, 1)",
    "twin-derived Wrap{inner: v, n: 1}",
    "twin-derived WrapT(v, 1)",
    "twin-derived WrapS(v, <skipped>)",
    "Some(twin-derived WrapT(v, 1))",
];

pub fn prelude() -> String {
    let grid = spec_grid();
    let mut s = String::new();
    s.push_str(
        r#"
pub static N0: i32 = 40; pub static N1: i32 = 41; pub static N2: i32 = 42; pub static N3: i32 = 43;
thread_local! { pub static __MODEL: std::cell::Cell<u8> = std::cell::Cell::new(0); }
/// defect model "raw-ident-name" (bit 2): type and variant names keep their `r#` prefix
pub fn __nm(raw: &'static str, plain: &'static str) -> &'static str { if __MODEL.with(|m| m.get()) & 2 != 0 { raw } else { plain } }
/// defect model "debugtuple-pretty-flags" (bit 1): a positional field is rendered with a fresh `{:#?}` in pretty mode
pub struct __TF<'a>(pub &'a dyn std::fmt::Debug);
impl std::fmt::Debug for __TF<'_> {
    fn fmt(&self, f: &mut std::fmt::Formatter<'_>) -> std::fmt::Result {
        if f.alternate() && __MODEL.with(|m| m.get()) & 1 != 0 { f.write_fmt(format_args!("{:#?}", self.0)) } else { self.0.fmt(f) }
    }
}
pub mod __wsd {
    #[derive(Debug)] pub struct Wrap<'a> { pub inner: &'a dyn std::fmt::Debug, pub n: i32 }
    #[derive(Debug)] pub struct WrapT<'a>(pub &'a dyn std::fmt::Debug, pub u8);
    pub struct WrapS<'a>(pub &'a dyn std::fmt::Debug, pub u8);
    impl std::fmt::Debug for WrapS<'_> {
        fn fmt(&self, f: &mut std::fmt::Formatter<'_>) -> std::fmt::Result { f.debug_tuple("WrapS").field(&self.0).finish_non_exhaustive() }
    }
}
pub mod __wdm {
    #[derive(derive_more::Debug)] pub struct Wrap<'a> { pub inner: &'a dyn std::fmt::Debug, pub n: i32 }
    #[derive(derive_more::Debug)] pub struct WrapT<'a>(pub &'a dyn std::fmt::Debug, pub u8);
    #[derive(derive_more::Debug)] pub struct WrapS<'a>(pub &'a dyn std::fmt::Debug, #[debug(skip)] pub u8);
}
pub mod __wmd {
    use crate::__TF;
    pub struct Wrap<'a> { pub inner: &'a dyn std::fmt::Debug, pub n: i32 }
    impl std::fmt::Debug for Wrap<'_> {
        fn fmt(&self, f: &mut std::fmt::Formatter<'_>) -> std::fmt::Result { f.debug_struct("Wrap").field("inner", &self.inner).field("n", &self.n).finish() }
    }
    pub struct WrapT<'a>(pub &'a dyn std::fmt::Debug, pub u8);
    impl std::fmt::Debug for WrapT<'_> {
        fn fmt(&self, f: &mut std::fmt::Formatter<'_>) -> std::fmt::Result { f.debug_tuple("WrapT").field(&__TF(&self.0)).field(&__TF(&self.1)).finish() }
    }
    pub struct WrapS<'a>(pub &'a dyn std::fmt::Debug, pub u8);
    impl std::fmt::Debug for WrapS<'_> {
        fn fmt(&self, f: &mut std::fmt::Formatter<'_>) -> std::fmt::Result { f.debug_tuple("WrapS").field(&__TF(&self.0)).finish_non_exhaustive() }
    }
}
"#,
    );
    let _ = writeln!(s, "pub const __SPECS: [&str; {}] = [{}];", grid.len(), grid.iter().map(|g| format!("{g:?}")).collect::<Vec<_>>().join(", "));
    let _ = writeln!(s, "pub const __NESTS: [&str; {}] = [{}];", NESTS.len(), NESTS.iter().map(|g| format!("{g:?}")).collect::<Vec<_>>().join(", "));
    s.push_str("pub fn __specs(v: &dyn std::fmt::Debug, out: &mut Vec<String>) {\n");
    for g in &grid {
        let _ = writeln!(s, "    out.push(format!({g:?}, v));");
    }
    s.push_str("}\n");
    s.push_str(
        r#"
/// all nestings x all specs of one value; `fam` selects the wrapper family of the twin (0 dm, 1 sd, 2 md)
pub fn __grid(v: &dyn std::fmt::Debug, fam: u8) -> Vec<String> {
    let mut out = Vec::with_capacity(__SPECS.len() * __NESTS.len());
    __specs(v, &mut out);
    __specs(&Some(v), &mut out);
    __specs(&vec![v, v], &mut out);
    __specs(&(v, 1), &mut out);
    __specs(&std::collections::BTreeMap::from([(1u8, v)]), &mut out);
    __specs(&__wsd::Wrap { inner: v, n: 1 }, &mut out);
    __specs(&__wsd::WrapT(v, 1), &mut out);
    match fam {
        0 => { __specs(&__wdm::Wrap { inner: v, n: 1 }, &mut out); __specs(&__wdm::WrapT(v, 1), &mut out); __specs(&__wdm::WrapS(v, 1), &mut out); __specs(&Some(__wdm::WrapT(v, 1)), &mut out); }
        1 => { __specs(&__wsd::Wrap { inner: v, n: 1 }, &mut out); __specs(&__wsd::WrapT(v, 1), &mut out); __specs(&__wsd::WrapS(v, 1), &mut out); __specs(&Some(__wsd::WrapT(v, 1)), &mut out); }
        _ => { __specs(&__wmd::Wrap { inner: v, n: 1 }, &mut out); __specs(&__wmd::WrapT(v, 1), &mut out); __specs(&__wmd::WrapS(v, 1), &mut out); __specs(&Some(__wmd::WrapT(v, 1)), &mut out); }
    }
    out
}
pub struct __Cmp { unknown: Vec<(String, String, String)>, known: Vec<(&'static str, String, String, String)>, compared: u64, differing: u64 }
impl __Cmp {
    pub fn new() -> __Cmp { __Cmp { unknown: Vec::new(), known: Vec::new(), compared: 0, differing: 0 } }
    /// `dmv`: value of the derive_more twin, `sdv`: reference twin, `mdv`: hand-written twin with defect models
    pub fn value(&mut self, idx: usize, dmv: &dyn std::fmt::Debug, sdv: &dyn std::fmt::Debug, mdv: &dyn std::fmt::Debug) {
        let ns = __SPECS.len();
        __MODEL.with(|m| m.set(0));
        let obs = __grid(dmv, 0);
        let exp = __grid(sdv, 1);
        let m0 = __grid(mdv, 2);
        let mut models: Vec<Vec<String>> = Vec::new();
        for k in 0..obs.len() {
            self.compared += 1;
            let what = format!("value #{} nested as `{}` under `{}`", idx, __NESTS[k / ns], __SPECS[k % ns]);
            if m0[k] != exp[k] && self.unknown.len() < 8 {
                self.unknown.push((format!("harness self-check, hand-written std builders must equal the reference twin: {what}"), exp[k].clone(), m0[k].clone()));
            }
            if obs[k] == exp[k] { continue; }
            self.differing += 1;
            if models.is_empty() {
                for bits in 1..4u8 { __MODEL.with(|m| m.set(bits)); models.push(__grid(mdv, 2)); }
                __MODEL.with(|m| m.set(0));
            }
            // the models deviate from the reference only where their defect predicts it (pretty mode + further
            // flags reaching a positional field; a raw-identifier name), so text equality is the whole signature
            let tag = if obs[k] == models[0][k] { Some("c06-debugtuple-pretty-flags") }
                else if obs[k] == models[1][k] { Some("c06-raw-ident-name") }
                else if obs[k] == models[2][k] { Some("c06-debugtuple-pretty-flags+raw-ident-name") }
                else { None };
            match tag {
                Some(t) => { if !self.known.iter().any(|x| x.0 == t) { self.known.push((t, format!("[{t}] {what}"), exp[k].clone(), obs[k].clone())); } }
                None => { if self.unknown.len() < 8 { self.unknown.push((format!("derive_more::Debug differs from the std twin: {what}"), exp[k].clone(), obs[k].clone())); } }
            }
        }
    }
    /// unexplained differences first: a recorded defect must never hide another one
    pub fn finish(self, o: &mut Out) {
        for (w, e, ob) in &self.unknown { o.fail(w, e, ob); }
        for (_, w, e, ob) in &self.known { o.fail(w, e, ob); }
        o.put("compared", &self.compared.to_string());
        o.put("differing", &self.differing.to_string());
    }
}
"#,
    );
    s
}

// ------------------------------------------------------------------------------------------------
// type model

#[derive(Clone, Copy, Debug, PartialEq, Eq)]
enum Leaf {
    I32,
    U8,
    I64,
    Usize,
    F64,
    Str,
    StringT,
    Char,
    Bool,
    Unit,
    RefI32,
}

impl Leaf {
    fn ty(self) -> &'static str {
        match self {
            Leaf::I32 => "i32",
            Leaf::U8 => "u8",
            Leaf::I64 => "i64",
            Leaf::Usize => "usize",
            Leaf::F64 => "f64",
            Leaf::Str => "&'static str",
            Leaf::StringT => "String",
            Leaf::Char => "char",
            Leaf::Bool => "bool",
            Leaf::Unit => "()",
            Leaf::RefI32 => "&'static i32",
        }
    }
    fn value(self, d: &mut Dice) -> String {
        match self {
            Leaf::I32 => ["17", "-4", "0", "255", "1000003", "-2147483648"][d.pick(6)].to_string(),
            Leaf::U8 => ["7", "0", "255"][d.pick(3)].to_string(),
            Leaf::I64 => ["-1", "9007199254740993", "0"][d.pick(3)].to_string(),
            Leaf::Usize => ["3", "0", "11", "4096"][d.pick(4)].to_string(),
            Leaf::F64 => ["1.5", "-0.25", "1234.56789", "0.0", "1e10", "f64::NAN", "-0.0"][d.pick(7)].to_string(),
            Leaf::Str => format!("{:?}", ["s", "héllo wörld", "", "a\nb", "q\"uo'te\\", "line1\nline2\n"][d.pick(6)]),
            Leaf::StringT => format!("String::from({:?})", ["own", "", "two\nlines", "tab\there"][d.pick(4)]),
            Leaf::Char => ["'c'", "'\\n'", "'é'", "'\\''"][d.pick(4)].to_string(),
            Leaf::Bool => ["true", "false"][d.pick(2)].to_string(),
            Leaf::Unit => "()".to_string(),
            Leaf::RefI32 => format!("&N{}", d.pick(4)),
        }
    }
    /// placeholder types usable in a field format for a value of this kind
    fn fmt_tys(self) -> &'static [&'static str] {
        match self {
            Leaf::I32 | Leaf::U8 | Leaf::I64 | Leaf::Usize => &["", "?", "x?", "X?", "o", "x", "X", "b", "e", "E"],
            Leaf::F64 => &["", "?", "e", "E"],
            Leaf::Str | Leaf::StringT => &["", "?", "x?"],
            Leaf::Char | Leaf::Bool => &["", "?"],
            Leaf::Unit => &["?"],
            Leaf::RefI32 => &["", "?", "x"],
        }
    }
    fn is_copy(self) -> bool {
        self != Leaf::StringT
    }
}

const PARAM_LEAVES: [Leaf; 5] = [Leaf::I32, Leaf::U8, Leaf::Str, Leaf::F64, Leaf::Bool];

#[derive(Clone, Debug)]
enum Ty {
    Leaf(Leaf),
    Opt(Box<Ty>),
    VecOf(Box<Ty>),
    Tup(Box<Ty>, Box<Ty>),
    Arr(Box<Ty>, usize),
    BoxOf(Box<Ty>),
    Map,
    Nested(usize),
    Param(usize),
    VecParam(usize),
    RefParam(usize),
    ArrN,
    RefStr,
    Phantom(usize),
    /// `(T, u8)`
    TupParam(usize),
    /// `[T; 2]`
    ArrParam(usize),
    /// `Option<Vec<T>>`
    OptVecParam(usize),
    /// `Box<T>`
    BoxParam(usize),
    /// `*const T` (always null)
    PtrParam(usize),
    /// another generated type, instantiated with this type's first type parameter instead of a concrete type
    NestedGen(usize),
}

#[derive(Clone, Debug)]
struct TP {
    name: &'static str,
    inst: Leaf,
    bound: Option<&'static str>,
}

#[derive(Clone, Debug, Default)]
struct Gen {
    lt: bool,
    tps: Vec<TP>,
    cn: Option<usize>,
    const_first: bool,
    where_style: bool,
    default_last: bool,
    /// container attributes `#[debug(bound(..))]` / `bounds(..)` / `where(..)` (derive_more flavor only)
    dbg_bounds: Vec<String>,
}

impl Gen {
    fn is_empty(&self) -> bool {
        !self.lt && self.tps.is_empty() && self.cn.is_none()
    }
    fn list(&self, lt: &str, tp: impl Fn(&TP) -> String, cn: &str) -> String {
        if self.is_empty() {
            return String::new();
        }
        let mut v: Vec<String> = vec![];
        if self.lt {
            v.push(lt.to_string());
        }
        let tps: Vec<String> = self.tps.iter().map(tp).collect();
        let cns: Vec<String> = self.cn.iter().map(|_| cn.to_string()).collect();
        if self.const_first {
            v.extend(cns);
            v.extend(tps);
        } else {
            v.extend(tps);
            v.extend(cns);
        }
        format!("<{}>", v.join(", "))
    }
    /// declaration on the type definition
    fn decl(&self) -> String {
        let n = self.tps.len();
        let last_overall = !self.tps.is_empty() && (self.cn.is_none() || self.const_first);
        self.list(
            "'a",
            |t| {
                let mut s = t.name.to_string();
                if let (Some(b), false) = (t.bound, self.where_style) {
                    s.push_str(&format!(": {b}"));
                }
                if self.default_last && last_overall && std::ptr::eq(t, &self.tps[n - 1]) {
                    s.push_str(&format!(" = {}", t.inst.ty()));
                }
                s
            },
            "const N: usize",
        )
    }
    fn where_clause(&self) -> String {
        if !self.where_style {
            return String::new();
        }
        let b: Vec<String> = self.tps.iter().filter_map(|t| t.bound.map(|b| format!("{}: {b}", t.name))).collect();
        if b.is_empty() {
            String::new()
        } else {
            format!(" where {}", b.join(", "))
        }
    }
    /// generics of a hand-written `impl Debug`
    fn impl_decl(&self) -> String {
        self.list(
            "'a",
            |t| match t.bound {
                Some(b) => format!("{}: {b} + std::fmt::Debug", t.name),
                None => format!("{}: std::fmt::Debug", t.name),
            },
            "const N: usize",
        )
    }
    fn args(&self) -> String {
        self.list("'a", |t| t.name.to_string(), "N")
    }
    fn inst(&self) -> String {
        let n = self.cn.unwrap_or(0).to_string();
        self.list("'static", |t| t.inst.ty().to_string(), &n)
    }
    /// arguments when used inside a type whose first type parameter is `tp` (and which has `'a` iff `lt`)
    fn inst_with_param(&self, lt: bool, tp: &str) -> String {
        let n = self.cn.unwrap_or(0).to_string();
        self.list(if lt { "'a" } else { "'static" }, |_| tp.to_string(), &n)
    }
}

#[derive(Clone, Debug)]
enum Attr {
    None,
    Skip(&'static str),
    Fmt {
        lit: String,
        args: Vec<String>,
        inline_copy: Vec<String>,
        /// `#[debug("lit", args,)]`
        trailing: bool,
        /// the literal is written as a raw string in the attribute
        raw: bool,
    },
}

#[derive(Clone, Debug)]
struct FieldDef {
    /// identifier as written (`r#in`), empty for positional fields
    name: String,
    ty: Ty,
    attr: Attr,
}

#[derive(Clone, Copy, Debug, PartialEq, Eq)]
enum VKind {
    Unit,
    Tuple,
    Named,
}

#[derive(Clone, Debug)]
struct Variant {
    name: String,
    kind: VKind,
    fields: Vec<FieldDef>,
    /// a variant-level `#[debug("..", args)]` (enum variants only): the whole variant prints as the literal
    own_fmt: Option<Attr>,
}

#[derive(Clone, Debug)]
struct TypeDef {
    name: String,
    is_enum: bool,
    gen: Gen,
    variants: Vec<Variant>,
    /// rustc's inert `#[non_exhaustive]`: bit 0 on the type, bit 1 on every variant of an enum (std's Debug ignores it)
    nonex: u8,
}

#[derive(Clone, Copy, PartialEq, Eq)]
enum Flavor {
    /// `#[derive(derive_more::Debug)]` with the attributes
    Dm,
    /// reference: std derive when the type has no attributes, hand-written std builders otherwise
    Sd,
    /// hand-written std builders with the switchable defect models
    Md,
}

fn plain(name: &str) -> &str {
    name.strip_prefix("r#").unwrap_or(name)
}

fn lit_tok(s: &str) -> String {
    proc_macro2::Literal::string(s).to_string()
}

/// `r#"..."#` (the literals generated here contain neither quotes nor backslashes when `raw` is chosen)
fn raw_lit_tok(s: &str) -> String {
    format!("r#\"{s}\"#")
}

fn attr_text(a: &Attr) -> String {
    match a {
        Attr::None => String::new(),
        Attr::Skip(w) => format!("#[debug({w})] "),
        Attr::Fmt { lit, args, trailing, raw, .. } => {
            let l = if *raw { raw_lit_tok(lit) } else { lit_tok(lit) };
            let tc = if *trailing { "," } else { "" };
            if args.is_empty() {
                format!("#[debug({l}{tc})] ")
            } else {
                format!("#[debug({l}, {}{tc})] ", args.join(", "))
            }
        }
    }
}

fn fmt_call(a: &Attr) -> String {
    let Attr::Fmt { lit, args, inline_copy, .. } = a else { return String::new() };
    let mut v: Vec<String> = args.clone();
    v.extend(inline_copy.iter().map(|n| format!("{n} = *{n}")));
    if v.is_empty() {
        format!("format_args!({})", lit_tok(lit))
    } else {
        format!("format_args!({}, {})", lit_tok(lit), v.join(", "))
    }
}

impl Ty {
    fn render(&self, types: &[TypeDef], g: &Gen) -> String {
        match self {
            Ty::Leaf(l) => l.ty().to_string(),
            Ty::Opt(t) => format!("Option<{}>", t.render(types, g)),
            Ty::VecOf(t) => format!("Vec<{}>", t.render(types, g)),
            Ty::Tup(a, b) => format!("({}, {})", a.render(types, g), b.render(types, g)),
            Ty::Arr(t, n) => format!("[{}; {n}]", t.render(types, g)),
            Ty::BoxOf(t) => format!("Box<{}>", t.render(types, g)),
            Ty::Map => "std::collections::BTreeMap<i32, &'static str>".to_string(),
            Ty::Nested(i) => format!("{}{}", types[*i].name, types[*i].gen.inst()),
            Ty::Param(k) => g.tps[*k].name.to_string(),
            Ty::VecParam(k) => format!("Vec<{}>", g.tps[*k].name),
            Ty::RefParam(k) => format!("&'a {}", g.tps[*k].name),
            Ty::ArrN => "[i32; N]".to_string(),
            Ty::RefStr => "&'a str".to_string(),
            Ty::Phantom(k) => format!("std::marker::PhantomData<{}>", g.tps[*k].name),
            Ty::TupParam(k) => format!("({}, u8)", g.tps[*k].name),
            Ty::ArrParam(k) => format!("[{}; 2]", g.tps[*k].name),
            Ty::OptVecParam(k) => format!("Option<Vec<{}>>", g.tps[*k].name),
            Ty::BoxParam(k) => format!("Box<{}>", g.tps[*k].name),
            Ty::PtrParam(k) => format!("*const {}", g.tps[*k].name),
            Ty::NestedGen(i) => format!("{}{}", types[*i].name, types[*i].gen.inst_with_param(g.lt, g.tps[0].name)),
        }
    }
    fn value(&self, d: &mut Dice, types: &[TypeDef], g: &Gen) -> String {
        match self {
            Ty::Leaf(l) => l.value(d),
            Ty::Opt(t) => {
                if d.chance(25) {
                    "None".to_string()
                } else {
                    format!("Some({})", t.value(d, types, g))
                }
            }
            Ty::VecOf(t) => {
                let n = d.weighted(&[2, 4, 3]);
                format!("vec![{}]", (0..n).map(|_| t.value(d, types, g)).collect::<Vec<_>>().join(", "))
            }
            Ty::Tup(a, b) => format!("({}, {})", a.value(d, types, g), b.value(d, types, g)),
            Ty::Arr(t, n) => format!("[{}]", (0..*n).map(|_| t.value(d, types, g)).collect::<Vec<_>>().join(", ")),
            Ty::BoxOf(t) => format!("Box::new({})", t.value(d, types, g)),
            Ty::Map => ["std::collections::BTreeMap::from([(1, \"one\"), (-2, \"t\\nwo\")])", "std::collections::BTreeMap::new()"][d.pick(2)].to_string(),
            Ty::Nested(i) => {
                let t = &types[*i];
                let v = d.pick(t.variants.len());
                t.value(d, types, v)
            }
            Ty::Param(k) => g.tps[*k].inst.value(d),
            Ty::VecParam(k) => {
                let n = d.weighted(&[2, 4, 3]);
                format!("vec![{}]", (0..n).map(|_| g.tps[*k].inst.value(d)).collect::<Vec<_>>().join(", "))
            }
            Ty::RefParam(k) => match g.tps[*k].inst {
                Leaf::I32 => ["&17", "&0", "&255"][d.pick(3)].to_string(),
                Leaf::U8 => ["&7", "&255"][d.pick(2)].to_string(),
                Leaf::Str => ["&\"rs\"", "&\"a\\nb\""][d.pick(2)].to_string(),
                Leaf::F64 => ["&1.5", "&1234.56789"][d.pick(2)].to_string(),
                _ => ["&true", "&false"][d.pick(2)].to_string(),
            },
            Ty::ArrN => {
                let n = g.cn.unwrap_or(0);
                format!("[{}]", (0..n).map(|i| ["255", "-16", "7"][i % 3].to_string()).collect::<Vec<_>>().join(", "))
            }
            Ty::RefStr => ["\"lt\"", "\"x\\ny\""][d.pick(2)].to_string(),
            Ty::Phantom(_) => "std::marker::PhantomData".to_string(),
            Ty::TupParam(k) => format!("({}, 7)", g.tps[*k].inst.value(d)),
            Ty::ArrParam(k) => format!("[{}, {}]", g.tps[*k].inst.value(d), g.tps[*k].inst.value(d)),
            Ty::OptVecParam(k) => {
                if d.chance(25) {
                    "None".to_string()
                } else {
                    let n = d.weighted(&[2, 4, 3]);
                    format!("Some(vec![{}])", (0..n).map(|_| g.tps[*k].inst.value(d)).collect::<Vec<_>>().join(", "))
                }
            }
            Ty::BoxParam(k) => format!("Box::new({})", g.tps[*k].inst.value(d)),
            Ty::PtrParam(_) => "std::ptr::null()".to_string(),
            Ty::NestedGen(i) => {
                let t = &types[*i];
                let v = d.pick(t.variants.len());
                t.value(d, types, v)
            }
        }
    }
    fn leaf(&self) -> Option<Leaf> {
        match self {
            Ty::Leaf(l) => Some(*l),
            _ => None,
        }
    }
    fn uses_param(&self) -> bool {
        matches!(
            self,
            Ty::Param(_) | Ty::VecParam(_) | Ty::RefParam(_) | Ty::Phantom(_) | Ty::TupParam(_) | Ty::ArrParam(_) | Ty::OptVecParam(_) | Ty::BoxParam(_) | Ty::PtrParam(_) | Ty::NestedGen(_)
        )
    }
    /// the type parameter (index) the type mentions
    fn param_used(&self) -> Option<usize> {
        match self {
            Ty::Param(k) | Ty::VecParam(k) | Ty::RefParam(k) | Ty::Phantom(k) | Ty::TupParam(k) | Ty::ArrParam(k) | Ty::OptVecParam(k) | Ty::BoxParam(k) | Ty::PtrParam(k) => Some(*k),
            Ty::NestedGen(_) => Some(0),
            _ => None,
        }
    }
}

impl TypeDef {
    fn has_attrs(&self) -> bool {
        self.variants.iter().any(|v| v.own_fmt.is_some() || v.fields.iter().any(|f| !matches!(f.attr, Attr::None)))
    }
    fn value(&self, d: &mut Dice, types: &[TypeDef], vi: usize) -> String {
        let v = &self.variants[vi];
        let path = if self.is_enum { format!("{}::{}", self.name, v.name) } else { self.name.clone() };
        match v.kind {
            VKind::Unit => path,
            VKind::Tuple => format!("{path}({})", v.fields.iter().map(|f| f.ty.value(d, types, &self.gen)).collect::<Vec<_>>().join(", ")),
            VKind::Named => {
                if v.fields.is_empty() {
                    format!("{path} {{}}")
                } else {
                    format!("{path} {{ {} }}", v.fields.iter().map(|f| format!("{}: {}", f.name, f.ty.value(d, types, &self.gen))).collect::<Vec<_>>().join(", "))
                }
            }
        }
    }

    fn render_fields(&self, v: &Variant, types: &[TypeDef], flavor: Flavor, vis: &str) -> String {
        let attr = |f: &FieldDef| -> String {
            if flavor != Flavor::Dm {
                return String::new();
            }
            attr_text(&f.attr)
        };
        match v.kind {
            VKind::Unit => String::new(),
            VKind::Tuple => format!("({})", v.fields.iter().map(|f| format!("{}{vis}{}", attr(f), f.ty.render(types, &self.gen))).collect::<Vec<_>>().join(", ")),
            VKind::Named => {
                if v.fields.is_empty() {
                    " {}".to_string()
                } else {
                    format!(
                        " {{\n{}}}",
                        v.fields.iter().map(|f| format!("        {}{vis}{}: {},\n", attr(f), f.name, f.ty.render(types, &self.gen))).collect::<String>()
                    )
                }
            }
        }
    }

    fn render_def(&self, types: &[TypeDef], flavor: Flavor) -> String {
        let derive = match flavor {
            Flavor::Dm => "#[derive(derive_more::Debug)]\n",
            Flavor::Sd if !self.has_attrs() => "#[derive(Debug)]\n",
            _ => "",
        };
        let decl = self.gen.decl();
        let wh = self.gen.where_clause();
        let mut s = String::new();
        let derive = if flavor == Flavor::Dm && !self.gen.dbg_bounds.is_empty() {
            format!("{derive}{}", self.gen.dbg_bounds.iter().map(|b| format!("    {b}\n")).collect::<String>())
        } else {
            derive.to_string()
        };
        let derive = if self.nonex & 1 != 0 { format!("{derive}    #[non_exhaustive]\n") } else { derive };
        let vnonex = if self.nonex & 2 != 0 { "#[non_exhaustive] " } else { "" };
        if self.is_enum {
            let _ = write!(s, "    {derive}    pub enum {}{decl}{wh} {{\n", self.name);
            for v in &self.variants {
                let own = match (&v.own_fmt, flavor) {
                    (Some(a), Flavor::Dm) => attr_text(a),
                    _ => String::new(),
                };
                let _ = write!(s, "        {vnonex}{own}{}{},\n", v.name, self.render_fields(v, types, flavor, ""));
            }
            s.push_str("    }\n");
        } else {
            let v = &self.variants[0];
            let f = self.render_fields(v, types, flavor, "pub ");
            match v.kind {
                VKind::Unit => {
                    let _ = write!(s, "    {derive}    pub struct {}{decl}{wh};\n", self.name);
                }
                VKind::Tuple => {
                    let _ = write!(s, "    {derive}    pub struct {}{decl}{f}{wh};\n", self.name);
                }
                VKind::Named => {
                    let _ = write!(s, "    {derive}    pub struct {}{decl}{wh}{f}\n", self.name);
                }
            }
        }
        let manual = match flavor {
            Flavor::Dm => false,
            Flavor::Sd => self.has_attrs(),
            Flavor::Md => true,
        };
        if manual {
            s.push_str(&self.render_impl(flavor == Flavor::Md));
        }
        s
    }

    /// what std's derive expands to (builders), with `finish_non_exhaustive()` for skipped fields and
    /// `&format_args!(LIT, ARGS..)` for a field format; `model` routes names and positional fields through
    /// the defect-model switches of the prelude.
    fn render_impl(&self, model: bool) -> String {
        let nm = |n: &str| -> String {
            if model {
                format!("__nm({:?}, {:?})", n, plain(n))
            } else {
                format!("{:?}", plain(n))
            }
        };
        let builder = |v: &Variant| -> String {
            if let Some(a) = &v.own_fmt {
                // the documented meaning of a variant-level format: the variant prints as the literal
                return format!("f.write_fmt({})", fmt_call(a));
            }
            let exhaustive = !v.fields.iter().any(|f| matches!(f.attr, Attr::Skip(_)));
            let fin = if exhaustive { ".finish()" } else { ".finish_non_exhaustive()" };
            let mut b = String::new();
            match v.kind {
                VKind::Unit => return format!("f.write_str({})", nm(&v.name)),
                VKind::Tuple => {
                    let _ = write!(b, "f.debug_tuple({})", nm(&v.name));
                }
                VKind::Named => {
                    let _ = write!(b, "f.debug_struct({})", nm(&v.name));
                }
            }
            for (i, f) in v.fields.iter().enumerate() {
                let bind = if v.kind == VKind::Tuple { format!("_{i}") } else { f.name.clone() };
                let val = match &f.attr {
                    Attr::Skip(_) => continue,
                    Attr::None => {
                        if model && v.kind == VKind::Tuple {
                            format!("&__TF({bind})")
                        } else {
                            bind.clone()
                        }
                    }
                    Attr::Fmt { .. } => format!("&{}", fmt_call(&f.attr)),
                };
                match v.kind {
                    VKind::Tuple => {
                        let _ = write!(b, ".field({val})");
                    }
                    _ => {
                        let _ = write!(b, ".field({:?}, {val})", plain(&f.name));
                    }
                }
            }
            b.push_str(fin);
            b
        };
        let mut body = String::new();
        if self.is_enum && self.variants.is_empty() {
            body.push_str("            match *self {}\n");
        } else if self.is_enum {
            body.push_str("            match self {\n");
            for v in &self.variants {
                let pat = match v.kind {
                    VKind::Unit => String::new(),
                    VKind::Tuple => format!("({})", (0..v.fields.len()).map(|i| format!("_{i}")).collect::<Vec<_>>().join(", ")),
                    VKind::Named => format!(" {{ {} }}", v.fields.iter().map(|f| f.name.clone()).collect::<Vec<_>>().join(", ")),
                };
                let _ = write!(body, "                Self::{}{pat} => {},\n", v.name, builder(v));
            }
            body.push_str("            }\n");
        } else {
            let v = &self.variants[0];
            for (i, f) in v.fields.iter().enumerate() {
                if v.kind == VKind::Tuple {
                    let _ = write!(body, "            let _{i} = &self.{i};\n");
                } else {
                    let _ = write!(body, "            let {0} = &self.{0};\n", f.name);
                }
            }
            let _ = write!(body, "            {}\n", builder(v));
        }
        format!(
            "    impl{} std::fmt::Debug for {}{} {{\n        fn fmt(&self, f: &mut std::fmt::Formatter<'_>) -> std::fmt::Result {{\n{body}        }}\n    }}\n",
            self.gen.impl_decl(),
            self.name,
            self.gen.args()
        )
    }
}

// ------------------------------------------------------------------------------------------------
// generator

const TYPE_NAMES: [&str; 10] = ["Foo", "Bar", "FooBar", "Leaf", "Node", "Wrapper", "r#type", "r#fn", "r#match", "r#Raw"];
const VARIANT_NAMES: [&str; 9] = ["A", "Bc", "Unit", "Tup", "Named", "r#loop", "r#while", "r#Var", "Zz"];
// disjoint from the type names: the expansion binds fields by name (`let r#type = &self.r#type;`), which cannot
// shadow a tuple/unit struct of the same name in scope (a scope-hygiene matter that belongs to C15, not C06)
const FIELD_NAMES: [&str; 9] = ["a", "b", "x", "name", "foo_bar", "_x", "r#in", "r#struct", "r#y"];

struct Cx {
    types: Vec<TypeDef>,
    used_names: Vec<String>,
    labels: Vec<String>,
}

impl Cx {
    fn label(&mut self, l: &str) {
        if !self.labels.iter().any(|x| x == l) {
            self.labels.push(l.to_string());
        }
    }
}

fn gen_leaf(d: &mut Dice) -> Leaf {
    [Leaf::I32, Leaf::Str, Leaf::F64, Leaf::U8, Leaf::Bool, Leaf::I64, Leaf::Usize, Leaf::StringT, Leaf::Char, Leaf::Unit, Leaf::RefI32][d.weighted(&[6, 4, 3, 2, 2, 1, 1, 2, 1, 1, 1])]
}

fn gen_ty(d: &mut Dice, depth: usize, cx: &mut Cx, g: &Gen) -> Ty {
    let w_nested = if depth < 2 { 22 } else { 0 };
    let w_gen = if g.is_empty() { 0 } else { 18 };
    match d.weighted(&[45, 15, w_nested, w_gen]) {
        0 => Ty::Leaf(gen_leaf(d)),
        1 => match d.pick(6) {
            0 => Ty::Opt(Box::new(Ty::Leaf(gen_leaf(d)))),
            1 => Ty::VecOf(Box::new(Ty::Leaf(gen_leaf(d)))),
            2 => Ty::Tup(Box::new(Ty::Leaf(gen_leaf(d))), Box::new(Ty::Leaf(gen_leaf(d)))),
            3 => Ty::Arr(Box::new(Ty::Leaf(gen_leaf(d))), d.range(0, 3)),
            4 => Ty::Map,
            _ => Ty::VecOf(Box::new(Ty::Opt(Box::new(Ty::Leaf(gen_leaf(d)))))),
        },
        2 => {
            let i = gen_type(d, depth + 1, cx);
            cx.label(&format!("nesting_depth>={}", depth + 1));
            if !g.tps.is_empty() && !cx.types[i].gen.tps.is_empty() && (g.lt || !cx.types[i].gen.lt) && d.chance(60) {
                // the nested generic type is used as `Inner<T>`, not `Inner<i32>`: its parameters are instantiated like
                // the outer type's first parameter (and carry no bounds the outer parameter would have to repeat)
                let inst = g.tps[0].inst;
                for t in cx.types[i].gen.tps.iter_mut() {
                    t.inst = inst;
                    t.bound = None;
                }
                cx.label("nested_generic_instantiated_with_param");
                return Ty::NestedGen(i);
            }
            match d.weighted(&[5, 2, 2, 1, 1]) {
                0 => Ty::Nested(i),
                1 => Ty::Opt(Box::new(Ty::Nested(i))),
                2 => Ty::VecOf(Box::new(Ty::Nested(i))),
                3 => Ty::BoxOf(Box::new(Ty::Nested(i))),
                _ => Ty::Tup(Box::new(Ty::Nested(i)), Box::new(Ty::Leaf(gen_leaf(d)))),
            }
        }
        _ => gen_generic_use(d, g),
    }
}

fn gen_generic_use(d: &mut Dice, g: &Gen) -> Ty {
    let mut alts: Vec<Ty> = vec![];
    for k in 0..g.tps.len() {
        alts.push(Ty::Param(k));
        alts.push(Ty::VecParam(k));
        if g.lt {
            alts.push(Ty::RefParam(k));
        }
        alts.push(Ty::TupParam(k));
        alts.push(Ty::ArrParam(k));
        alts.push(Ty::OptVecParam(k));
        alts.push(Ty::BoxParam(k));
        alts.push(Ty::PtrParam(k));
    }
    if g.cn.is_some() {
        alts.push(Ty::ArrN);
    }
    if g.lt {
        alts.push(Ty::RefStr);
    }
    if alts.is_empty() {
        return Ty::Leaf(Leaf::I32);
    }
    alts[d.pick(alts.len())].clone()
}

fn gen_generics(d: &mut Dice) -> Gen {
    let mut g = Gen::default();
    g.lt = d.chance(35);
    let ntp = d.weighted(&[3, 5, 2]);
    for k in 0..ntp {
        g.tps.push(TP { name: ["T", "U"][k], inst: PARAM_LEAVES[d.pick(PARAM_LEAVES.len())], bound: if d.chance(30) { Some(*d.choose(&["Clone", "Copy + PartialEq"])) } else { None } });
    }
    if d.chance(35) {
        g.cn = Some(d.range(0, 3));
    }
    if g.is_empty() {
        g.tps.push(TP { name: "T", inst: Leaf::I32, bound: None });
    }
    g.const_first = d.chance(30);
    g.where_style = d.chance(30);
    g.default_last = d.chance(20);
    if !g.tps.is_empty() && d.chance(25) {
        // container-level bounds: they only add predicates (every instantiation here is `Clone + Debug`)
        let n = 1 + d.weighted(&[3, 1]);
        for j in 0..n {
            let kw = ["bound", "bounds", "where"][d.pick(if AVOID_WHERE_BOUND_KEYWORD { 2 } else { 3 })];
            let t = g.tps[d.pick(g.tps.len())].name;
            let pred = [format!("{t}: Clone"), format!("{t}: std::fmt::Debug"), format!("{t}: Clone + std::fmt::Debug"), format!("Vec<{t}>: Clone")][(d.pick(4) + j) % 4].clone();
            let tc = if d.chance(25) { "," } else { "" };
            g.dbg_bounds.push(format!("#[debug({kw}({pred}{tc}))]"));
        }
    }
    g
}

/// a field-level `#[debug("..", args)]` for field `me` of variant `v` (bindings: `_i` / field names, `self` in structs)
fn gen_field_fmt(d: &mut Dice, v: &Variant, me: usize, is_enum: bool, cx: &mut Cx) -> Attr {
    let bind = |i: usize| -> String { if v.kind == VKind::Tuple { format!("_{i}") } else { v.fields[i].name.clone() } };
    let mut lit = String::new();
    let mut pos_args: Vec<String> = vec![];
    let mut named_args: Vec<String> = vec![];
    let mut inline_copy: Vec<String> = vec![];
    let mut implicit_counter = 0usize;
    let mut inlined: Vec<String> = vec![];
    let mut shadowed: Vec<String> = vec![];
    if d.chance(3) {
        // a literal without anything in it: the field's value is the empty text
        cx.label("field_fmt_empty_literal");
        return Attr::Fmt { lit: String::new(), args: vec![], inline_copy: vec![], trailing: d.chance(30), raw: false };
    }
    let npieces = 1 + d.weighted(&[4, 4, 2]);
    let mut any_ph = false;
    for pi in 0..npieces {
        let force_ph = pi == npieces - 1 && !any_ph && d.chance(85);
        if !force_ph && d.chance(30) {
            lit.push_str(["=", " ", "{{", "}}", "é→", "\n", "<", ", ", "x\n"][d.pick(9)]);
            continue;
        }
        any_ph = true;
        let mut ti = if d.chance(65) { me } else { d.pick(v.fields.len()) };
        if ti != me && v.fields[ti].ty.uses_param() {
            // excluded by construction: a format on one field that mentions *another* field of a type-parameter
            // type gets no bound from the derive (bound inference is C04's subject)
            ti = me;
        }
        let b = bind(ti);
        let raw = b.starts_with("r#");
        let leaf = v.fields[ti].ty.leaf();
        // (how the value is referenced, kind of the resulting value or None = Debug only, forced type)
        let mut forced_ty: Option<&str> = None;
        let (arg, kind): (ArgForm, Option<Leaf>) = match leaf {
            None => (if !raw && d.chance(50) { ArgForm::Inline(b.clone()) } else { ArgForm::Expr(b.clone()) }, None),
            Some(Leaf::RefI32) if d.chance(50) => {
                // Pointer: the documented forms `{field:p}` and `{:p}` with `*field` print the address stored in the field
                forced_ty = Some("p");
                cx.label("field_fmt_pointer");
                (if !raw && d.chance(50) { ArgForm::Inline(b.clone()) } else { ArgForm::Expr(format!("*{b}")) }, Some(Leaf::RefI32))
            }
            Some(l) => {
                let mut forms: Vec<(String, Leaf)> = vec![(b.clone(), l)];
                match l {
                    Leaf::I32 => {
                        forms.push((format!("*{b}"), l));
                        forms.push((format!("{b}.wrapping_add(1)"), l));
                        forms.push((format!("(*{b} as i64) * 2"), Leaf::I64));
                        if !is_enum {
                            let member = if v.kind == VKind::Tuple { ti.to_string() } else { v.fields[ti].name.clone() };
                            forms.push((format!("self.{member}"), l));
                        }
                    }
                    Leaf::U8 | Leaf::I64 | Leaf::Usize => forms.push((format!("*{b}"), l)),
                    Leaf::F64 => {
                        forms.push((format!("*{b} * 2.0"), l));
                        forms.push((format!("{b}.floor()"), l));
                    }
                    Leaf::Str | Leaf::StringT => {
                        forms.push((format!("{b}.len()"), Leaf::Usize));
                        forms.push((format!("{b}.to_uppercase()"), Leaf::StringT));
                    }
                    Leaf::Bool => forms.push((format!("!*{b}"), l)),
                    _ => {}
                }
                let inline_ok = !raw;
                let pick = d.pick(forms.len() + if inline_ok { 2 } else { 0 });
                if pick >= forms.len() {
                    (ArgForm::Inline(b.clone()), Some(l))
                } else {
                    let (e, k) = forms[pick].clone();
                    (ArgForm::Expr(e), Some(k))
                }
            }
        };
        // a field name taken by an explicit `name = ..` argument earlier no longer denotes the field inside the literal
        let arg = match arg {
            ArgForm::Inline(n) if shadowed.contains(&n) => ArgForm::Expr(if forced_ty == Some("p") { format!("*{n}") } else { n }),
            a => a,
        };
        // spec
        let ty: String = match (forced_ty, kind) {
            (Some(t), _) => t.to_string(),
            (None, None) => if d.chance(15) { "#?".to_string() } else { "?".to_string() },
            (None, Some(k)) => k.fmt_tys()[d.pick(k.fmt_tys().len())].to_string(),
        };
        let mut spec = String::new();
        if d.chance(40) && ty != "#?" {
            match d.pick(4) {
                0 => {}
                1 => spec.push(*d.choose(&['<', '^', '>'])),
                _ => {
                    spec.push(*d.choose(&['*', '0', ' ', 'é', '#']));
                    spec.push(*d.choose(&['<', '^', '>']));
                }
            }
            if ty != "p" {
                if d.chance(25) {
                    spec.push(*d.choose(&['+', '-']));
                }
                if d.chance(25) {
                    spec.push('#');
                }
                if d.chance(20) {
                    spec.push('0');
                }
            }
            if d.chance(60) {
                spec.push_str(&d.range(0, 12).to_string());
            }
            if ty != "p" && d.chance(35) {
                spec.push_str(&format!(".{}", d.range(0, 5)));
            }
            cx.label("field_fmt_with_flags");
        }
        spec.push_str(&ty);
        let name_part: String = match arg {
            ArgForm::Inline(n) => {
                if v.fields[ti].ty.leaf().is_some_and(|l| l.is_copy()) && !inline_copy.contains(&n) {
                    inline_copy.push(n.clone());
                }
                if !inlined.contains(&n) {
                    inlined.push(n.clone());
                }
                cx.label("field_fmt_names_field_in_literal");
                n
            }
            ArgForm::Expr(e) => {
                if e != b {
                    cx.label("field_fmt_expression_argument");
                }
                if d.chance(25) {
                    // the name of the explicit argument: a fresh one, or (shadowing it) the name of another field
                    let other: Vec<String> = if v.kind == VKind::Named {
                        v.fields
                            .iter()
                            .enumerate()
                            .filter(|(i, f)| *i != ti && !f.name.starts_with("r#") && !f.ty.uses_param() && !inlined.contains(&f.name) && !shadowed.contains(&f.name))
                            .map(|(_, f)| f.name.clone())
                            .collect()
                    } else {
                        vec![]
                    };
                    let alias = if !other.is_empty() && d.chance(35) {
                        let a = other[d.pick(other.len())].clone();
                        shadowed.push(a.clone());
                        cx.label("field_fmt_argument_named_like_a_field");
                        a
                    } else {
                        format!("k{}", named_args.len())
                    };
                    named_args.push(format!("{alias} = {e}"));
                    alias
                } else {
                    let k = pos_args.len();
                    pos_args.push(e);
                    if implicit_counter == k && d.chance(60) {
                        implicit_counter += 1;
                        String::new()
                    } else {
                        k.to_string()
                    }
                }
            }
        };
        if ti != me {
            cx.label("field_fmt_uses_other_field");
        }
        if spec.is_empty() {
            let _ = write!(lit, "{{{name_part}}}");
        } else {
            let _ = write!(lit, "{{{name_part}:{spec}}}");
        }
    }
    if lit.contains('\n') {
        cx.label("field_fmt_multiline");
    }
    let mut args = pos_args;
    args.extend(named_args);
    let trailing = d.chance(15);
    if trailing {
        cx.label("field_fmt_trailing_comma");
    }
    let raw = !lit.contains('"') && !lit.contains('\\') && d.chance(10);
    if raw {
        cx.label("field_fmt_raw_string_literal");
    }
    Attr::Fmt { lit, args, inline_copy, trailing, raw }
}

enum ArgForm {
    Inline(String),
    Expr(String),
}

fn gen_variant(d: &mut Dice, depth: usize, cx: &mut Cx, g: &Gen, name: String, kind: VKind, nf: usize) -> Variant {
    let mut v = Variant { name, kind, fields: vec![], own_fmt: None };
    let mut used: Vec<&str> = vec![];
    for _ in 0..nf {
        let fname = if kind == VKind::Named {
            let mut n = FIELD_NAMES[d.weighted(&[4, 3, 3, 2, 2, 1, 2, 2, 1])];
            if used.contains(&n) {
                n = FIELD_NAMES.iter().copied().find(|x| !used.contains(x)).unwrap_or("zz");
            }
            used.push(n);
            n.to_string()
        } else {
            String::new()
        };
        let ty = gen_ty(d, depth, cx, g);
        v.fields.push(FieldDef { name: fname, ty, attr: Attr::None });
    }
    v
}

/// makes sure every declared generic parameter is used by a field of `v`
fn use_generics(d: &mut Dice, g: &Gen, v: &mut Variant) {
    let uses = |v: &Variant, pred: &dyn Fn(&Ty) -> bool| v.fields.iter().any(|f| pred(&f.ty));
    let mut extra: Vec<Ty> = vec![];
    if g.lt && !uses(v, &|t| matches!(t, Ty::RefParam(_) | Ty::RefStr)) {
        extra.push(if !g.tps.is_empty() && d.chance(50) { Ty::RefParam(0) } else { Ty::RefStr });
    }
    for k in 0..g.tps.len() {
        let used = uses(v, &|t| t.param_used() == Some(k))
            || extra.iter().any(|t| matches!(t, Ty::RefParam(x) if *x == k));
        if !used {
            extra.push(match d.weighted(&[5, 2, 2]) {
                0 => Ty::Param(k),
                1 => Ty::VecParam(k),
                _ => Ty::Phantom(k),
            });
        }
    }
    if g.cn.is_some() && !uses(v, &|t| matches!(t, Ty::ArrN)) && d.chance(70) {
        extra.push(Ty::ArrN);
    }
    for (j, ty) in extra.into_iter().enumerate() {
        let name = if v.kind == VKind::Named { format!("g{j}") } else { String::new() };
        v.fields.push(FieldDef { name, ty, attr: Attr::None });
    }
}

fn gen_attrs(d: &mut Dice, v: &mut Variant, is_enum: bool, cx: &mut Cx) {
    if v.fields.is_empty() {
        return;
    }
    let all_skipped = d.chance(6);
    for i in 0..v.fields.len() {
        let mut choice = if all_skipped { 1 } else { d.weighted(&[55, 25, 20]) };
        if choice == 2 && v.fields[i].ty.uses_param() && v.fields[i].name.starts_with("r#") {
            // excluded by construction: no bound is inferred for a raw-named field passed as a format argument
            // (`#[debug("{:?}", r#struct)] r#struct: T`) — bound inference is C04's subject
            choice = 0;
        }
        match choice {
            0 => {}
            1 => {
                let w = if d.chance(40) { "ignore" } else { "skip" };
                v.fields[i].attr = Attr::Skip(w);
                cx.label("skipped_field");
                if w == "ignore" {
                    cx.label("skip_spelled_ignore");
                }
            }
            _ => {
                let a = gen_field_fmt(d, v, i, is_enum, cx);
                v.fields[i].attr = a;
                cx.label("field_format");
            }
        }
    }
    let n = v.fields.len();
    let nskip = v.fields.iter().filter(|f| matches!(f.attr, Attr::Skip(_))).count();
    if nskip == n {
        cx.label("all_fields_skipped");
    }
    if nskip > 0 && v.kind == VKind::Tuple {
        cx.label("skipped_field_in_tuple");
    }
    if nskip > 0 && matches!(v.fields[n - 1].attr, Attr::None | Attr::Fmt { .. }) {
        cx.label("skipped_field_before_shown_field");
    }
}

/// `#[debug(where(T: Bound))]` — the spelling `where(..)` is listed next to `bound(..)`/`bounds(..)` in the rustdoc of
/// `BoundsAttribute` (impl/src/fmt/mod.rs:27-33) and looked for by the Display parser (display.rs:127), but it is
/// rejected ("expected identifier, found keyword `where`": mod.rs:41 parses a `syn::Path`, which refuses keywords).
/// The user documentation only names `bound(..)`; not generated while this is `true`.
const AVOID_WHERE_BOUND_KEYWORD: bool = true;

/// `#[debug("..", args)]` on an enum variant. The literal always carries text besides its placeholders, so it is never
/// the "trivially substitutable" form whose formatter flags are forwarded (debug.md, Transparency).
fn gen_variant_fmt(d: &mut Dice, v: &mut Variant, cx: &mut Cx) {
    let tag = ["v=", "<", "é ", "V: "][d.pick(4)];
    let a = if v.fields.is_empty() {
        Attr::Fmt { lit: format!("{tag}{}", ["unit", "", "x\ny"][d.pick(3)]), args: vec![], inline_copy: vec![], trailing: d.chance(15), raw: false }
    } else {
        let me = d.pick(v.fields.len());
        match gen_field_fmt(d, v, me, true, cx) {
            Attr::Fmt { lit, args, inline_copy, trailing, raw } => Attr::Fmt { lit: format!("{tag}{lit}"), args, inline_copy, trailing, raw },
            other => other,
        }
    };
    v.own_fmt = Some(a);
}

fn gen_type(d: &mut Dice, depth: usize, cx: &mut Cx) -> usize {
    // shape: 0 unit struct, 1 `S()`, 2 `S{}`, 3 tuple struct, 4 named struct, 5 enum
    let shape = if depth == 0 { d.weighted(&[3, 2, 2, 31, 30, 32, 2]) } else { d.weighted(&[1, 1, 1, 9, 9, 7]) };
    if shape == 6 {
        // an enum without variants: nothing to print, but the derive has to compile (as std's does)
        let mut base = TYPE_NAMES[d.weighted(&[4, 3, 2, 2, 2, 2, 2, 1, 1, 1])].to_string();
        let idx = cx.types.len();
        if cx.used_names.contains(&base) {
            base = format!("{base}{idx}");
        }
        cx.used_names.push(base.clone());
        cx.label("empty_enum");
        cx.types.push(TypeDef { name: base, is_enum: true, gen: Gen::default(), variants: vec![], nonex: 0 });
        return idx;
    }
    let with_attrs = d.chance(62);
    let gen = if shape >= 3 && d.chance(30) { gen_generics(d) } else { Gen::default() };
    let mut base = TYPE_NAMES[d.weighted(&[4, 3, 2, 2, 2, 2, 2, 1, 1, 1])].to_string();
    let mut variants = vec![];
    let is_enum = shape == 5;
    if is_enum {
        let nv = d.range(1, 4);
        let mut used: Vec<&str> = vec![];
        for _ in 0..nv {
            let mut vn = VARIANT_NAMES[d.weighted(&[3, 2, 2, 2, 2, 1, 1, 1, 1])];
            if used.contains(&vn) {
                vn = VARIANT_NAMES.iter().copied().find(|x| !used.contains(x)).unwrap_or("Q");
            }
            used.push(vn);
            let (kind, nf) = match d.weighted(&[3, 5, 5, 1, 1]) {
                0 => (VKind::Unit, 0),
                1 => (VKind::Tuple, d.range(1, 4)),
                2 => (VKind::Named, d.range(1, 4)),
                3 => (VKind::Tuple, 0),
                _ => (VKind::Named, 0),
            };
            let v = gen_variant(d, depth, cx, &gen, vn.to_string(), kind, nf);
            variants.push(v);
        }
        if !gen.is_empty() {
            // the parameters are used by one variant with fields (added if there is none)
            let vi = match variants.iter().position(|v| !v.fields.is_empty()) {
                Some(i) => i,
                None => {
                    variants.push(Variant { name: "Gv".into(), kind: if d.chance(50) { VKind::Tuple } else { VKind::Named }, fields: vec![], own_fmt: None });
                    variants.len() - 1
                }
            };
            use_generics(d, &gen, &mut variants[vi]);
        }
    } else {
        let (kind, nf) = match shape {
            0 => (VKind::Unit, 0),
            1 => (VKind::Tuple, 0),
            2 => (VKind::Named, 0),
            3 => (VKind::Tuple, d.range(1, 4)),
            _ => (VKind::Named, d.range(1, 4)),
        };
        let mut v = gen_variant(d, depth, cx, &gen, String::new(), kind, nf);
        use_generics(d, &gen, &mut v);
        variants.push(v);
    }
    // excluded by construction: a bare `T` field next to a `&'a T` field — the per-field-type bound `&'a T: Debug`
    // then shadows the blanket impl for `&'_ T` and the expansion does not borrow-check (C01/C04's subject)
    for k in 0..gen.tps.len() {
        let has_ref = variants.iter().any(|v| v.fields.iter().any(|f| matches!(f.ty, Ty::RefParam(x) if x == k)));
        if has_ref {
            for v in variants.iter_mut() {
                for f in v.fields.iter_mut() {
                    if matches!(f.ty, Ty::Param(x) if x == k) {
                        f.ty = Ty::VecParam(k);
                    }
                }
            }
        }
    }
    if with_attrs {
        for v in variants.iter_mut() {
            if is_enum && !v.fields.iter().any(|f| f.ty.uses_param()) && d.chance(14) {
                // a variant-level format: this variant prints as the literal, its siblings are not affected
                gen_variant_fmt(d, v, cx);
            } else {
                gen_attrs(d, v, is_enum, cx);
            }
        }
        let own = variants.iter().filter(|v| v.own_fmt.is_some()).count();
        if own > 0 {
            cx.label("variant_level_format");
            if own < variants.len() {
                cx.label("variant_level_format_with_sibling");
            }
            if variants.iter().any(|v| v.own_fmt.is_none() && !v.fields.is_empty()) {
                cx.label("variant_level_format_with_fielded_sibling");
            }
        }
    }
    if !gen.dbg_bounds.is_empty() {
        cx.label("container_bound_attribute");
        if !variants.iter().any(|v| v.own_fmt.is_some() || v.fields.iter().any(|f| !matches!(f.attr, Attr::None))) {
            cx.label("container_bound_attribute_only");
        }
    }
    if variants.iter().any(|v| v.fields.iter().any(|f| matches!(f.ty, Ty::TupParam(_) | Ty::ArrParam(_) | Ty::OptVecParam(_) | Ty::BoxParam(_) | Ty::PtrParam(_)))) {
        cx.label("generic_param_in_composite_type");
    }
    // labels
    for v in &variants {
        match (v.kind, v.fields.len()) {
            (VKind::Unit, _) => cx.label(if is_enum { "unit_variant" } else { "unit_struct" }),
            (VKind::Tuple, 0) => cx.label("empty_parens"),
            (VKind::Named, 0) => cx.label("empty_braces"),
            (VKind::Tuple, _) => cx.label("positional_fields"),
            (VKind::Named, _) => cx.label("named_fields"),
        }
        if v.name.starts_with("r#") {
            cx.label("raw_variant_name");
            cx.label("raw_identifier");
        }
        if v.fields.iter().any(|f| f.name.starts_with("r#")) {
            cx.label("raw_field_name");
            cx.label("raw_identifier");
        }
    }
    if !gen.is_empty() {
        cx.label("generic");
        if gen.lt {
            cx.label("generic_lifetime");
        }
        if !gen.tps.is_empty() {
            cx.label("generic_type_param");
        }
        if gen.cn.is_some() {
            cx.label("generic_const_param");
        }
    }
    let idx = cx.types.len();
    if cx.used_names.contains(&base) {
        base = format!("{base}{idx}");
    }
    cx.used_names.push(base.clone());
    if base.starts_with("r#") {
        cx.label("raw_type_name");
        cx.label("raw_identifier");
    }
    if !is_enum {
        variants[0].name = base.clone();
    }
    let nonex = if d.chance(8) { 1 + d.pick(if is_enum { 3 } else { 1 }) as u8 } else { 0 };
    if nonex != 0 {
        cx.label("non_exhaustive_attribute");
    }
    cx.types.push(TypeDef { name: base, is_enum, gen, variants, nonex });
    idx
}

fn render_case(types: &[TypeDef], top: usize, vals: &[String]) -> (String, String) {
    let t = &types[top];
    let top_ty = format!("{}{}", t.name, t.gen.inst());
    let vals_fn = format!("    pub fn vals() -> Vec<{top_ty}> {{\n        vec![\n{}        ]\n    }}\n", vals.iter().map(|v| format!("            {v},\n")).collect::<String>());
    let module = |name: &str, flavor: Flavor| -> String {
        let mut s = format!("pub mod {name} {{\n    #[allow(unused_imports)] use crate::*;\n");
        for t in types {
            s.push_str(&t.render_def(types, flavor));
        }
        s.push_str(&vals_fn);
        s.push_str("}\n");
        s
    };
    let dm = module("dm", Flavor::Dm);
    let sd = module("sd", Flavor::Sd);
    let md = module("md", Flavor::Md);
    let run = "pub fn run(o: &mut Out) {\n    let (a, b, c) = (dm::vals(), sd::vals(), md::vals());\n    let mut cmp = __Cmp::new();\n    for i in 0..a.len() {\n        cmp.value(i, &a[i], &b[i], &c[i]);\n    }\n    cmp.finish(o);\n}\n";
    (format!("{dm}{sd}{md}{run}"), format!("{sd}{md}"))
}

fn build(d: &mut Dice) -> GenCase {
    let mut cx = Cx { types: vec![], used_names: vec![], labels: vec![] };
    let top = gen_type(d, 0, &mut cx);
    let t = cx.types[top].clone();
    let mut vals = vec![];
    if t.is_enum {
        for vi in 0..t.variants.len() {
            vals.push(t.value(d, &cx.types, vi));
        }
        if let Some(vi) = t.variants.iter().position(|v| !v.fields.is_empty()) {
            vals.push(t.value(d, &cx.types, vi));
        }
    } else {
        vals.push(t.value(d, &cx.types, 0));
        if !t.variants[0].fields.is_empty() {
            vals.push(t.value(d, &cx.types, 0));
        }
    }
    let (body, control) = render_case(&cx.types, top, &vals);
    let mut labels = cx.labels.clone();
    labels.push(format!("kind={}", if t.is_enum { "enum" } else { "struct" }));
    labels.push(format!("types_in_case={}", cx.types.len()));
    let any_attr = cx.types.iter().any(|t| t.has_attrs());
    labels.push(if any_attr { "with_debug_attributes".into() } else { "attribute_less".into() });
    let has_fields = cx.types.iter().any(|t| t.variants.iter().any(|v| !v.fields.is_empty()));
    let mut c = GenCase::new(body);
    c.control = Some(control);
    // every case is evaluated under the whole grid (flags, nestings); the trivial ones are the field-less,
    // attribute-less, plainly named types for which all configurations print just the name
    c.nontrivial = has_fields || labels.iter().any(|l| l == "raw_identifier");
    c.meta = json!({"types": cx.types.len(), "values": vals.len()});
    c.labels = labels;
    c
}

fn fixed_case(types: Vec<TypeDef>, vals: Vec<&str>, label: &str) -> GenCase {
    let top = types.len() - 1;
    let vals: Vec<String> = vals.into_iter().map(String::from).collect();
    let (body, control) = render_case(&types, top, &vals);
    let mut c = GenCase::new(body);
    c.control = Some(control);
    c.labels = vec!["fixed".into(), label.into()];
    c
}

/// A field whose own `Debug` fails after writing part of its text: the text that has reached the sink and the `Err` must be
/// those of std's derive (std's builders stop writing once a field has failed; seed C06-l wrote the closing `)` anyway).
fn failing_field_case() -> GenCase {
    let items = |derive: &str| {
        format!(
            "    use super::Fail;\n    #[derive({derive})] pub struct T(pub i32, pub Fail);\n    #[derive({derive})] pub struct T1(pub Fail);\n    #[derive({derive})] pub struct T3(pub Fail, pub i32, pub Fail);\n    #[derive({derive})] pub struct N {{ pub a: i32, pub b: Fail }}\n    #[derive({derive})] pub enum E {{ V(Fail, i32), W {{ x: Fail, y: i32 }} }}\n"
        )
    };
    let body = format!(
        r#"pub struct Fail(pub bool);
impl std::fmt::Debug for Fail {{
    fn fmt(&self, f: &mut std::fmt::Formatter<'_>) -> std::fmt::Result {{ f.write_str("<part")?; if self.0 {{ Err(std::fmt::Error) }} else {{ Ok(()) }} }}
}}
pub mod d {{
{}}}
pub mod s {{
{}}}
fn probe(v: &dyn std::fmt::Debug) -> String {{
    use std::fmt::Write;
    let mut out = vec![];
    macro_rules! p {{ ($($l:literal),*) => {{ $( {{ let mut s = String::new(); let r = write!(s, $l, v); out.push(format!("{{}} -> ok={{}} sink={{:?}}", $l, r.is_ok(), s)); }} )* }} }}
    p!("{{:?}}", "{{:#?}}", "{{:x?}}", "{{:>9?}}");
    out.join(" | ")
}}
pub fn run(o: &mut Out) {{
    for fail in [true, false] {{
        let what = |n: &str| format!("{{n}} with a field whose Debug {{}}: result and text written to the sink equal std's derive", if fail {{ "fails after writing part of its text" }} else {{ "succeeds" }});
        o.eq(&what("T(i32, Fail)"), &probe(&s::T(7, Fail(fail))), &probe(&d::T(7, Fail(fail))));
        o.eq(&what("T1(Fail)"), &probe(&s::T1(Fail(fail))), &probe(&d::T1(Fail(fail))));
        o.eq(&what("T3(Fail, i32, Fail)"), &probe(&s::T3(Fail(fail), 7, Fail(false))), &probe(&d::T3(Fail(fail), 7, Fail(false))));
        o.eq(&what("N {{ a, b: Fail }}"), &probe(&s::N {{ a: 7, b: Fail(fail) }}), &probe(&d::N {{ a: 7, b: Fail(fail) }}));
        o.eq(&what("E::V(Fail, i32)"), &probe(&s::E::V(Fail(fail), 7)), &probe(&d::E::V(Fail(fail), 7)));
        o.eq(&what("E::W {{ x: Fail, y }}"), &probe(&s::E::W {{ x: Fail(fail), y: 7 }}), &probe(&d::E::W {{ x: Fail(fail), y: 7 }}));
        o.eq(&what("Some(T(i32, Fail))"), &probe(&Some(s::T(7, Fail(fail)))), &probe(&Some(d::T(7, Fail(fail)))));
    }}
}}
"#,
        items("derive_more::Debug"),
        items("Debug")
    );
    let mut c = GenCase::new(body);
    c.labels = vec!["fixed".into(), "fixed_field_whose_debug_fails".into()];
    c.nontrivial = true;
    c
}

/// deterministic regression / corner cases named by the property and the design
fn fixed() -> Vec<GenCase> {
    let f = |name: &str, ty: Ty, attr: Attr| FieldDef { name: name.into(), ty, attr };
    let st = |name: &str, kind: VKind, fields: Vec<FieldDef>| TypeDef {
        name: name.into(),
        is_enum: false,
        gen: Gen::default(),
        variants: vec![Variant { name: name.into(), kind, fields, own_fmt: None }],
        nonex: 0,
    };
    let i = || Ty::Leaf(Leaf::I32);
    vec![
        // DESIGN: format!("{:#x?}", S(255, 16))
        fixed_case(vec![st("S", VKind::Tuple, vec![f("", i(), Attr::None), f("", i(), Attr::None)])], vec!["S(255, 16)"], "fixed_tuple_two_ints"),
        fixed_case(vec![st("S", VKind::Named, vec![f("a", i(), Attr::None), f("b", i(), Attr::None)])], vec!["S { a: 255, b: 16 }"], "fixed_named_two_ints"),
        fixed_case(vec![st("r#type", VKind::Tuple, vec![f("", i(), Attr::None)])], vec!["r#type(1)"], "fixed_raw_tuple"),
        fixed_case(vec![st("r#fn", VKind::Unit, vec![])], vec!["r#fn"], "fixed_raw_unit"),
        fixed_case(vec![st("S", VKind::Tuple, vec![f("", i(), Attr::Skip("skip")), f("", i(), Attr::Skip("ignore"))])], vec!["S(1, 2)"], "fixed_all_skipped_tuple"),
        fixed_case(vec![st("S", VKind::Named, vec![f("a", i(), Attr::Skip("skip"))])], vec!["S { a: 1 }"], "fixed_all_skipped_named"),
        fixed_case(
            vec![st("S", VKind::Tuple, vec![f("", Ty::Leaf(Leaf::Str), Attr::Fmt { lit: "{}\n".into(), args: vec!["_0".into()], inline_copy: vec![], trailing: false, raw: false }), f("", i(), Attr::Skip("skip"))])],
            vec!["S(\"a\\nb\", 2)"],
            "fixed_multiline_field_format",
        ),
        failing_field_case(),
    ]
}

fn classify(_c: &GenCase, _r: &CaseResult, f: &Finding) -> Option<String> {
    let rest = f.summary.strip_prefix("run-time oracle failed: [")?;
    let (sig, _) = rest.split_once(']')?;
    match sig {
        // the in-program model decided; cross-check the part of the model that is textual
        SIG_RAW => (f.observed.replace("r#", "") == f.expected && f.observed != f.expected).then(|| SIG_RAW.to_string()),
        // (the in-program model decides by text equality with the twin that carries only this defect; the output itself may
        // contain the characters `r#` — a `#` fill next to `true` gave `#tr#false` and a false alarm in a thorough run)
        SIG_FLAGS => Some(SIG_FLAGS.to_string()),
        SIG_BOTH => (f.observed.contains("r#")).then(|| SIG_BOTH.to_string()),
        _ => None,
    }
}

pub fn prop() -> DiceProp {
    let ns = spec_grid().len();
    DiceProp {
        crate_name: "gen_c06",
        prelude: prelude(),
        crate_attrs: String::new(),
        nightly: false,
        check_only: false,
        ndice: 420,
        quick: (1500, 1),
        thorough: (3000, 8),
        build,
        fixed,
        classify,
        rule: format!(
            "families of 1..n type definitions (unit / `S()` / `S{{}}` / 1..4+ positional or named fields / enums with mixed variants; lifetime, type and const parameters in both orders with bounds, where-clauses and defaults; raw-identifier type, variant and field names; fields of primitive, string, container, reference types and of other generated derive_more::Debug types to depth 3; every field independently plain / #[debug(skip)] / #[debug(ignore)] / #[debug(\"lit\", args)] incl. trailing comma, raw-string literal, empty literal, an explicit argument named like another field; enum variants with a variant-level #[debug(\"lit\", args)] next to plain siblings; container #[debug(bound(..))]/#[debug(bounds(..))] attributes; type parameters inside tuple/array/Option<Vec<_>>/Box/raw-pointer field types and inside another generated generic type; an enum without variants; a fixed case with a field whose own Debug fails after writing part of its text, where the Result and the text that reached the sink are compared) rendered as three twins with identical names: derive_more::Debug, the reference (std #[derive(Debug)] when attribute-less, otherwise std builders with finish_non_exhaustive() and &format_args!(LIT, ARGS)), and a hand-written twin carrying the recorded defect models; 2+ values per case (every variant of an enum) x {} outer specs (all-pairs over fill/align x sign x # x 0 x width x precision x ?/x?/X?, full product of #/type/0/width/precision, 40 fixed random) x {} nestings (bare, Some, vec!, tuple, BTreeMap, std-derived named/tuple wrappers, derive_more-derived named/tuple/skipping wrappers) compared text for text; non-trivial = the family has at least one field or a raw identifier (flags, nesting and skip can change the text); distinct by program text",
            ns,
            NESTS.len()
        ),
        assumptions: vec![
            "std's #[derive(Debug)] and std's DebugStruct/DebugTuple builders (incl. finish_non_exhaustive) of the installed stable toolchain are the reference".into(),
            "a hand-written impl over std's builders is what std's derive would produce for the non-skipped fields (self-checked in every case: the hand-written twin with all defect models off must equal the reference twin)".into(),
            "excluded by construction because the expansion does not compile there for reasons that belong to other properties (C01/C04/C15): a bare `T` field next to a `&'a T` field of the same parameter; a field format that mentions another field of type-parameter type, or a raw-named field of type-parameter type as argument (no bound inferred); a field whose name equals a tuple/unit struct in scope".into(),
            "`{:p}` in field formats only in the documented forms `{field:p}` / `*field` (the address stored in the field), so that twin values print the same address".into(),
        ],
        floors: vec![
            ("kind=enum".into(), 0.2),
            ("positional_fields".into(), 0.3),
            ("named_fields".into(), 0.3),
            ("skipped_field".into(), 0.25),
            ("all_fields_skipped".into(), 0.03),
            ("field_format".into(), 0.2),
            ("raw_identifier".into(), 0.15),
            ("raw_type_name".into(), 0.05),
            ("raw_variant_name".into(), 0.04),
            ("generic".into(), 0.15),
            ("nesting_depth>=1".into(), 0.25),
            ("nesting_depth>=2".into(), 0.04),
            ("attribute_less".into(), 0.2),
            ("unit_struct".into(), 0.005),
            ("empty_parens".into(), 0.02),
            ("empty_braces".into(), 0.02),
            ("variant_level_format".into(), 0.04),
            ("variant_level_format_with_fielded_sibling".into(), 0.03),
            ("container_bound_attribute".into(), 0.05),
            ("container_bound_attribute_only".into(), 0.02),
            ("field_fmt_trailing_comma".into(), 0.04),
            ("field_fmt_raw_string_literal".into(), 0.03),
            ("field_fmt_empty_literal".into(), 0.01),
            ("generic_param_in_composite_type".into(), 0.06),
            ("nested_generic_instantiated_with_param".into(), 0.01),
            // (no floor for `empty_enum`: the class has only a handful of distinct programs, de-duplication by text makes
            // its share shrink with the size of the run)
        ],
        shards: 0,
    }
}

pub fn run(ctx: &super::core::Ctx) -> super::core::Report {
    super::progprop::run(&prop(), ctx)
}

pub fn replay(ctx: &super::core::Ctx, case: &serde_json::Value) -> super::core::Report {
    super::progprop::replay(&prop(), ctx, case)
}

//! C08 — (stub; to be implemented, see DESIGN.md section 5 and HARNESS.md)
use super::progprop::*;

fn build(_d: &mut Dice) -> GenCase {
    let mut c = GenCase::new("pub fn run(o: &mut Out) { o.check(\"stub\", true); }".to_string());
    c.nontrivial = false;
    c
}

pub fn prop() -> DiceProp {
    DiceProp {
        crate_name: "gen_c08",
        prelude: String::new(),
        crate_attrs: String::new(),
        nightly: false,
        check_only: false,
        ndice: 64,
        quick: (10, 1),
        thorough: (10, 1),
        build,
        fixed: no_fixed,
        classify: no_classify,
        rule: "stub".into(),
        assumptions: vec![],
        floors: vec![],
        shards: 0,
    }
}

pub fn run(ctx: &super::core::Ctx) -> super::core::Report {
    super::progprop::run(&prop(), ctx)
}

pub fn replay(ctx: &super::core::Ctx, case: &serde_json::Value) -> super::core::Report {
    super::progprop::replay(&prop(), ctx, case)
}

//! C08 — From / Into / Constructor preserve field order and invert each other; typed and forwarded
//! conversions apply exactly one `From::from` per field; the set of generated impls is exactly the
//! documented one.
//!
//! Every case is one struct (deriving a non-empty subset of From / Into / Constructor) or one enum
//! (deriving From) whose fields are taken from four *families* of helper types defined in the prelude:
//! `F<i>` is the field type (a non-zero-sized newtype chain `F<i>(R<i>(Q<i>(u32)))`, all at offset 0),
//! `A<i>`/`B<i>` convert *into* `F<i>`, `X<i>`/`Y<i>` are produced *from* `F<i>`, and `&R<i>`/`&Q<i>`
//! (`&mut` likewise) are produced from `&F<i>` by re-borrowing the very same memory.  Every one of these
//! user-level `From` impls pushes an id onto a thread-local log, so "exactly one `From::from` per field"
//! is an equality of sorted id lists.  Field values are pairwise distinct, field types are pairwise
//! distinct / all equal / mixed (labelled), so a permutation is visible either to rustc or in values.
//!
//! The expected impl set is computed here by a model of the rules stated in `impl/doc/from.md`,
//! `into.md`, `constructor.md` (and pinned by `tests/from.rs`, `tests/into.rs`), never read off the
//! expansion.  Presence and absence are decided inside the generated program by the
//! inherent-const-vs-blanket-trait probe `impls!(T, U)`; the in-process expansion (E1) only *nominates*
//! additional `(T, U)` pairs to probe (impl headers the model's candidate list does not contain).
use super::dm;
use super::proggen::CaseResult;
use super::progprop::*;
use super::tok;
use serde_json::json;
use std::collections::BTreeSet;
use std::fmt::Write as _;

// ------------------------------------------------------------------------------------------------
// prelude of every shard

pub const PRELUDE: &str = r#"
thread_local! { pub static LOG: std::cell::RefCell<Vec<u32>> = const { std::cell::RefCell::new(Vec::new()) }; }
pub fn log(id: u32) { LOG.with(|l| l.borrow_mut().push(id)); }
/// sorted ids of the user-level conversions executed since the last call
pub fn take_log() -> String { LOG.with(|l| { let mut v = std::mem::take(&mut *l.borrow_mut()); v.sort(); format!("{:?}", v) }) }
pub trait N { fn n(&self) -> u32; fn set(&mut self, n: u32); }
pub fn addr<T: ?Sized>(r: &T) -> usize { r as *const T as *const () as usize }
/// `<T as Id>::T` is `T`: another way of writing a type in an attribute
pub trait Id { type T: ?Sized; }
impl<T: ?Sized> Id for T { type T = T; }
macro_rules! fam {
    ($id:expr, $F:ident, $R:ident, $Q:ident, $A:ident, $B:ident, $X:ident, $Y:ident) => {
        #[derive(Debug, Clone, PartialEq)] pub struct $Q(pub u32);
        #[derive(Debug, Clone, PartialEq)] #[repr(transparent)] pub struct $R(pub $Q);
        #[derive(Debug, Clone, PartialEq)] #[repr(transparent)] pub struct $F(pub $R);
        #[derive(Debug, Clone, PartialEq)] pub struct $A(pub u32);
        #[derive(Debug, Clone, PartialEq)] pub struct $B(pub u32);
        #[derive(Debug, Clone, PartialEq)] pub struct $X(pub u32);
        #[derive(Debug, Clone, PartialEq)] pub struct $Y(pub u32);
        impl $F { pub fn v(n: u32) -> $F { $F($R($Q(n))) } }
        impl N for $F { fn n(&self) -> u32 { ((self.0).0).0 } fn set(&mut self, n: u32) { ((self.0).0).0 = n; } }
        impl N for $R { fn n(&self) -> u32 { (self.0).0 } fn set(&mut self, n: u32) { (self.0).0 = n; } }
        impl N for $Q { fn n(&self) -> u32 { self.0 } fn set(&mut self, n: u32) { self.0 = n; } }
        impl N for $A { fn n(&self) -> u32 { self.0 } fn set(&mut self, n: u32) { self.0 = n; } }
        impl N for $B { fn n(&self) -> u32 { self.0 } fn set(&mut self, n: u32) { self.0 = n; } }
        impl N for $X { fn n(&self) -> u32 { self.0 } fn set(&mut self, n: u32) { self.0 = n; } }
        impl N for $Y { fn n(&self) -> u32 { self.0 } fn set(&mut self, n: u32) { self.0 = n; } }
        impl From<$A> for $F { fn from(a: $A) -> $F { log($id * 10 + 1); $F::v(a.0) } }
        impl From<$B> for $F { fn from(a: $B) -> $F { log($id * 10 + 2); $F::v(a.0) } }
        impl From<$F> for $X { fn from(f: $F) -> $X { log($id * 10 + 3); $X(f.n()) } }
        impl From<$F> for $Y { fn from(f: $F) -> $Y { log($id * 10 + 4); $Y(f.n()) } }
        impl<'a> From<&'a $F> for &'a $R { fn from(f: &'a $F) -> &'a $R { log($id * 10 + 5); &f.0 } }
        impl<'a> From<&'a $F> for &'a $Q { fn from(f: &'a $F) -> &'a $Q { log($id * 10 + 6); &(f.0).0 } }
        impl<'a> From<&'a mut $F> for &'a mut $R { fn from(f: &'a mut $F) -> &'a mut $R { log($id * 10 + 7); &mut f.0 } }
        impl<'a> From<&'a mut $F> for &'a mut $Q { fn from(f: &'a mut $F) -> &'a mut $Q { log($id * 10 + 8); &mut (f.0).0 } }
        // conversions whose other side is not written as a bare identifier: `&'static A`, `Box<X>`, the unsized `[Q]`
        impl From<&'static $A> for $F { fn from(a: &'static $A) -> $F { log($id * 10 + 9); $F::v(a.0) } }
        impl From<$F> for Box<$X> { fn from(f: $F) -> Box<$X> { log(100 + $id * 10 + 1); Box::new($X(f.n())) } }
        impl<'a> From<&'a $F> for &'a [$Q] { fn from(f: &'a $F) -> &'a [$Q] { log(100 + $id * 10 + 2); std::slice::from_ref(&(f.0).0) } }
        impl<'a> From<&'a mut $F> for &'a mut [$Q] { fn from(f: &'a mut $F) -> &'a mut [$Q] { log(100 + $id * 10 + 3); std::slice::from_mut(&mut (f.0).0) } }
        impl N for [$Q] { fn n(&self) -> u32 { self[0].0 } fn set(&mut self, n: u32) { self[0].0 = n; } }
    };
}
fam!(0, F0, R0, Q0, A0, B0, X0, Y0);
fam!(1, F1, R1, Q1, A1, B1, X1, Y1);
fam!(2, F2, R2, Q2, A2, B2, X2, Y2);
fam!(3, F3, R3, Q3, A3, B3, X3, Y3);
/// family 4: the *field type* is written as a tuple type `(T4, u8)` (conversions from A4/B4/&'static A4, into X4/Y4/Box<X4>)
#[derive(Debug, Clone, PartialEq)] pub struct T4(pub u32);
#[derive(Debug, Clone, PartialEq)] pub struct A4(pub u32);
#[derive(Debug, Clone, PartialEq)] pub struct B4(pub u32);
#[derive(Debug, Clone, PartialEq)] pub struct X4(pub u32);
#[derive(Debug, Clone, PartialEq)] pub struct Y4(pub u32);
pub fn fv4(n: u32) -> (T4, u8) { (T4(n), 4) }
impl N for (T4, u8) { fn n(&self) -> u32 { (self.0).0 } fn set(&mut self, n: u32) { (self.0).0 = n; } }
impl N for A4 { fn n(&self) -> u32 { self.0 } fn set(&mut self, n: u32) { self.0 = n; } }
impl N for B4 { fn n(&self) -> u32 { self.0 } fn set(&mut self, n: u32) { self.0 = n; } }
impl N for X4 { fn n(&self) -> u32 { self.0 } fn set(&mut self, n: u32) { self.0 = n; } }
impl N for Y4 { fn n(&self) -> u32 { self.0 } fn set(&mut self, n: u32) { self.0 = n; } }
impl From<A4> for (T4, u8) { fn from(a: A4) -> (T4, u8) { log(41); fv4(a.0) } }
impl From<B4> for (T4, u8) { fn from(a: B4) -> (T4, u8) { log(42); fv4(a.0) } }
impl From<(T4, u8)> for X4 { fn from(f: (T4, u8)) -> X4 { log(43); X4(f.n()) } }
impl From<(T4, u8)> for Y4 { fn from(f: (T4, u8)) -> Y4 { log(44); Y4(f.n()) } }
impl From<&'static A4> for (T4, u8) { fn from(a: &'static A4) -> (T4, u8) { log(49); fv4(a.0) } }
impl From<(T4, u8)> for Box<X4> { fn from(f: (T4, u8)) -> Box<X4> { log(141); Box::new(X4(f.n())) } }
/// a field type that converts from / into a *tuple* as a whole (one-field structs with a tuple type listed)
#[derive(Debug, Clone, PartialEq)] pub struct W0(pub u32, pub u32);
impl From<(A0, A1)> for W0 { fn from(v: (A0, A1)) -> W0 { log(91); W0((v.0).0, (v.1).0) } }
impl From<W0> for (X0, X1) { fn from(w: W0) -> (X0, X1) { log(92); (X0(w.0), X1(w.1)) } }
/// `impls!(T, U)`: does `T: From<U>` hold?  (inherent associated const wins over the blanket trait const iff
/// its where-clause holds; only meaningful for concrete types)
pub struct Probe<T, U>(core::marker::PhantomData<(T, U)>);
pub trait ProbeFallback { const IMPLS: bool = false; }
impl<T, U> ProbeFallback for Probe<T, U> {}
impl<T: From<U>, U> Probe<T, U> { pub const IMPLS: bool = true; }
macro_rules! impls { ($t:ty, $u:ty) => { <Probe<$t, $u>>::IMPLS }; }
"#;

// ------------------------------------------------------------------------------------------------
// the type universe

#[derive(Clone, Copy, Debug, PartialEq, Eq, PartialOrd, Ord, Hash)]
enum Ty {
    F(u8),
    A(u8),
    B(u8),
    X(u8),
    Y(u8),
    R(u8),
    Q(u8),
    /// `&'static A<i>` (converts into `F<i>`)
    RA(u8),
    /// `Box<X<i>>` (owned target)
    BX(u8),
    /// the unsized `[Q<i>]` (target of the reference kinds)
    SQ(u8),
}

/// family whose field type is written as the tuple type `(T4, u8)`
const TUPLE_FAM: u8 = 4;

impl Ty {
    fn fam(self) -> u8 {
        match self {
            Ty::F(f) | Ty::A(f) | Ty::B(f) | Ty::X(f) | Ty::Y(f) | Ty::R(f) | Ty::Q(f) | Ty::RA(f) | Ty::BX(f) | Ty::SQ(f) => f,
        }
    }
    /// written as one identifier (then it can also be spelled as a path / projection)
    fn is_ident(self) -> bool {
        !matches!(self, Ty::RA(_) | Ty::BX(_) | Ty::SQ(_) | Ty::F(TUPLE_FAM))
    }
    fn name(self) -> String {
        match self {
            Ty::F(TUPLE_FAM) => return "(T4, u8)".to_string(),
            Ty::RA(f) => return format!("&'static A{f}"),
            Ty::BX(f) => return format!("Box<X{f}>"),
            Ty::SQ(f) => return format!("[Q{f}]"),
            _ => {}
        }
        let c = match self {
            Ty::F(_) => 'F',
            Ty::A(_) => 'A',
            Ty::B(_) => 'B',
            Ty::X(_) => 'X',
            Ty::Y(_) => 'Y',
            Ty::R(_) => 'R',
            Ty::Q(_) => 'Q',
            Ty::RA(_) | Ty::BX(_) | Ty::SQ(_) => unreachable!(),
        };
        format!("{c}{}", self.fam())
    }
    fn ctor(self, n: u32) -> String {
        match self {
            Ty::F(TUPLE_FAM) => format!("fv4({n})"),
            Ty::F(f) => format!("F{f}::v({n})"),
            Ty::RA(f) => format!("&A{f}({n})"),
            Ty::BX(f) => format!("Box::new(X{f}({n}))"),
            Ty::SQ(_) => unreachable!("only a reference target"),
            _ => format!("{}({n})", self.name()),
        }
    }
    /// id pushed by the prelude impl that converts between this type and `F<fam>`; `None`: the
    /// conversion is the reflexive `impl From<T> for T` of core (logs nothing).
    /// `kind`: 0 owned, 1 ref, 2 ref_mut (only relevant for R/Q).
    fn log_id(self, kind: usize) -> Option<u32> {
        let k = match (self, kind) {
            (Ty::F(_), _) => return None,
            (Ty::RA(_), _) => 9,
            (Ty::BX(f), _) => return Some(100 + f as u32 * 10 + 1),
            (Ty::SQ(f), 2) => return Some(100 + f as u32 * 10 + 3),
            (Ty::SQ(f), _) => return Some(100 + f as u32 * 10 + 2),
            (Ty::A(_), _) => 1,
            (Ty::B(_), _) => 2,
            (Ty::X(_), _) => 3,
            (Ty::Y(_), _) => 4,
            (Ty::R(_), 2) => 7,
            (Ty::Q(_), 2) => 8,
            (Ty::R(_), _) => 5,
            (Ty::Q(_), _) => 6,
        };
        Some(self.fam() as u32 * 10 + k)
    }
}

fn tup(parts: &[String]) -> String {
    match parts.len() {
        0 => "()".to_string(),
        1 => parts[0].clone(),
        _ => format!("({})", parts.join(", ")),
    }
}

fn tys_str(t: &[Ty]) -> String {
    tup(&t.iter().map(|a| a.name()).collect::<Vec<_>>())
}

/// How the types listed in attributes are *written* (the model is about the types, not their spelling): with
/// `seed == 0` everything is plain; otherwise identifiers may be written as `crate::X0`, `<X0 as Id>::T` or `(X0)`,
/// tuple types and lists may carry a trailing comma.
#[derive(Clone, Debug)]
struct Sp {
    seed: u32,
    n: u32,
    path: bool,
    qself: bool,
    paren: bool,
    trailing: bool,
}

impl Sp {
    fn plain() -> Sp {
        Sp::new(0)
    }
    fn new(seed: u32) -> Sp {
        Sp { seed, n: 0, path: false, qself: false, paren: false, trailing: false }
    }
    fn draw(d: &mut Dice) -> Sp {
        Sp::new(if d.chance(35) { 1 + d.pick(60000) as u32 } else { 0 })
    }
    fn labels(&self, labels: &mut Vec<String>) {
        for (on, l) in [(self.path, "spelled_crate_path"), (self.qself, "spelled_qself_projection"), (self.paren, "spelled_parenthesized"), (self.trailing, "trailing_comma")] {
            if on {
                labels.push(l.to_string());
            }
        }
        if self.path || self.qself || self.paren {
            labels.push("listed_type_respelled".to_string());
        }
    }
    fn next(&mut self, m: u32) -> u32 {
        if self.seed == 0 {
            return 0;
        }
        self.n += 1;
        let x = (self.seed as u64).wrapping_mul(2654435761).wrapping_add((self.n as u64).wrapping_mul(0x9E3779B97F4A7C15));
        ((x >> 17) % m as u64) as u32
    }
    fn atom(&mut self, t: Ty) -> String {
        let name = t.name();
        if !t.is_ident() {
            return name;
        }
        match self.next(9) {
            5 => {
                self.path = true;
                format!("crate::{name}")
            }
            6 => {
                self.qself = true;
                format!("<{name} as Id>::T")
            }
            7 => {
                self.paren = true;
                format!("({name})")
            }
            8 => {
                self.qself = true;
                format!("<{name} as crate::Id>::T")
            }
            _ => name,
        }
    }
    /// one listed type: a single type, or a tuple type of the fields' arity
    fn ty(&mut self, t: &[Ty]) -> String {
        let parts: Vec<String> = t.iter().map(|a| self.atom(*a)).collect();
        match parts.len() {
            0 => "()".to_string(),
            1 => parts[0].clone(),
            _ => {
                let tc = if self.next(6) == 5 {
                    self.trailing = true;
                    ","
                } else {
                    ""
                };
                format!("({}{tc})", parts.join(", "))
            }
        }
    }
    /// a comma-separated list of listed types, possibly with a trailing comma
    fn list(&mut self, tys: &[Vec<Ty>]) -> String {
        let mut s = tys.iter().map(|t| self.ty(t)).collect::<Vec<_>>().join(", ");
        if !tys.is_empty() && self.next(6) == 5 {
            self.trailing = true;
            s.push(',');
        }
        s
    }
}

const KIND_NAME: [&str; 3] = ["owned", "ref", "ref_mut"];
/// reference prefix in type position (probes) / elided (expressions) / value position
const REF_TY_STATIC: [&str; 3] = ["", "&'static ", "&'static mut "];
const REF_TY: [&str; 3] = ["", "&", "&mut "];

fn kind_tys_str(kind: usize, t: &[Ty], stat: bool) -> String {
    let p = if stat { REF_TY_STATIC[kind] } else { REF_TY[kind] };
    tup(&t.iter().map(|a| format!("{p}{}", a.name())).collect::<Vec<_>>())
}

fn log_str(ids: &[u32]) -> String {
    let mut v = ids.to_vec();
    v.sort();
    format!("{v:?}")
}

/// uniformly random permutation of 0..n; all-zero dice give the identity
fn perm(d: &mut Dice, n: usize) -> Vec<usize> {
    let mut v: Vec<usize> = (0..n).collect();
    for i in 0..n {
        let j = i + d.pick(n - i);
        v.swap(i, j);
    }
    v
}

// ------------------------------------------------------------------------------------------------
// item model

#[derive(Clone, Copy, Debug, PartialEq, Eq)]
enum Shape {
    Unit,
    Tuple,
    Named,
}

#[derive(Clone, Debug)]
enum IntoPart {
    /// `#[into(T1, T2)]`
    Plain(Vec<Vec<Ty>>),
    /// `#[into(owned, ref(T1, T2), ref_mut)]`
    Wrapped(Vec<(usize, Option<Vec<Vec<Ty>>>)>),
}

#[derive(Clone, Debug)]
enum IntoAttr {
    /// `#[into]`
    Empty,
    /// one attribute per part
    Parts(Vec<IntoPart>),
}

#[derive(Clone, Debug)]
struct Fld {
    /// `0` / `a`
    member: String,
    fam: u8,
    val: u32,
    into_skip: Option<&'static str>,
    into_attr: Option<IntoAttr>,
    /// the skip attribute is written before the conversion attribute
    skip_first: bool,
}

#[derive(Clone, Debug)]
enum FromAttr {
    None,
    /// `#[from]`
    Empty,
    /// `#[from(skip)]` / `#[from(ignore)]`
    Skip(&'static str),
    /// `#[from(forward)]`
    Forward,
    /// one attribute per group: `#[from(T1, T2)]`, every type a tuple of the fields' arity
    Types(Vec<Vec<Vec<Ty>>>),
}

impl FromAttr {
    fn render(&self, indent: &str, sp: &mut Sp) -> String {
        match self {
            FromAttr::None => String::new(),
            FromAttr::Empty => format!("{indent}#[from]\n"),
            FromAttr::Skip(s) => format!("{indent}#[from({s})]\n"),
            FromAttr::Forward => format!("{indent}#[from(forward)]\n"),
            FromAttr::Types(groups) => groups.iter().map(|g| format!("{indent}#[from({})]\n", sp.list(g))).collect(),
        }
    }
    fn label(&self) -> &'static str {
        match self {
            FromAttr::None => "none",
            FromAttr::Empty => "empty",
            FromAttr::Skip(_) => "skip",
            FromAttr::Forward => "forward",
            FromAttr::Types(_) => "types",
        }
    }
}

impl IntoAttr {
    fn render(&self, sp: &mut Sp) -> Vec<String> {
        match self {
            IntoAttr::Empty => vec!["#[into]".to_string()],
            IntoAttr::Parts(parts) => parts
                .iter()
                .map(|p| match p {
                    IntoPart::Plain(tys) => format!("#[into({})]", sp.list(tys)),
                    IntoPart::Wrapped(es) => {
                        let mut inner = es
                            .iter()
                            .map(|(k, tys)| match tys {
                                None => KIND_NAME[*k].to_string(),
                                Some(tys) => format!("{}({})", KIND_NAME[*k], sp.list(tys)),
                            })
                            .collect::<Vec<_>>()
                            .join(", ");
                        if sp.next(6) == 5 {
                            sp.trailing = true;
                            inner.push(',');
                        }
                        format!("#[into({inner})]")
                    }
                })
                .collect(),
        }
    }
}

fn rich_ty_labels<'a>(tys: impl Iterator<Item = &'a Ty>, labels: &mut Vec<String>) {
    for t in tys {
        match t {
            Ty::RA(_) => labels.push("listed_reference_type".into()),
            Ty::BX(_) => labels.push("listed_generic_path_type".into()),
            Ty::SQ(_) => labels.push("listed_unsized_type".into()),
            _ => continue,
        }
        labels.push("listed_type_not_an_identifier".into());
    }
}

fn into_attr_labels(a: &IntoAttr, labels: &mut Vec<String>) {
    let IntoAttr::Parts(parts) = a else { return };
    let plain = parts.iter().any(|p| matches!(p, IntoPart::Plain(_)));
    let wrapped = parts.iter().any(|p| matches!(p, IntoPart::Wrapped(_)));
    if plain && wrapped {
        labels.push("into_plain_and_wrapped_attrs".into());
    }
    for p in parts {
        match p {
            IntoPart::Plain(tys) => rich_ty_labels(tys.iter().flatten(), labels),
            IntoPart::Wrapped(es) => {
                for (i, (k, tys)) in es.iter().enumerate() {
                    if tys.is_none() && es[..i].iter().any(|(k2, t2)| k2 == k && t2.is_some()) {
                        labels.push("into_kind_typed_then_bare".into());
                    }
                    if let Some(tys) = tys {
                        rich_ty_labels(tys.iter().flatten(), labels);
                    }
                }
            }
        }
    }
}

fn fld_attrs(f: &Fld, sp: &mut Sp) -> String {
    let mut parts: Vec<String> = vec![];
    let skip = f.into_skip.map(|s| format!("#[into({s})]"));
    let conv = f.into_attr.as_ref().map(|a| a.render(sp)).unwrap_or_default();
    if f.skip_first {
        parts.extend(skip.clone());
        parts.extend(conv);
    } else {
        parts.extend(conv);
        parts.extend(skip);
    }
    if parts.is_empty() {
        String::new()
    } else {
        format!("{} ", parts.join(" "))
    }
}

fn decl_fields(shape: Shape, fields: &[Fld], with_attrs: bool) -> String {
    decl_fields_sp(shape, fields, with_attrs, &mut Sp::plain())
}

fn decl_fields_sp(shape: Shape, fields: &[Fld], with_attrs: bool, sp: &mut Sp) -> String {
    let mut one = |f: &Fld| {
        let a = if with_attrs { fld_attrs(f, sp) } else { String::new() };
        match shape {
            Shape::Named => format!("{a}{}: {}", f.member, Ty::F(f.fam).name()),
            _ => format!("{a}{}", Ty::F(f.fam).name()),
        }
    };
    let inner = fields.iter().map(|f| one(f)).collect::<Vec<_>>().join(", ");
    match shape {
        Shape::Unit => String::new(),
        Shape::Tuple => format!("({inner})"),
        Shape::Named => format!("{{ {inner} }}"),
    }
}

/// literal of the struct / variant with the given per-field values
fn literal(path: &str, shape: Shape, fields: &[Fld], vals: &[u32]) -> String {
    let inner = |named: bool| {
        fields
            .iter()
            .zip(vals)
            .map(|(f, v)| if named { format!("{}: {}", f.member, Ty::F(f.fam).ctor(*v)) } else { Ty::F(f.fam).ctor(*v) })
            .collect::<Vec<_>>()
            .join(", ")
    };
    match shape {
        Shape::Unit => path.to_string(),
        Shape::Tuple => format!("{path}({})", inner(false)),
        Shape::Named => format!("{path} {{ {} }}", inner(true)),
    }
}

// ------------------------------------------------------------------------------------------------
// the model of the documented rules

/// Source of one `From<..> for T` impl.
#[derive(Clone, Debug, PartialEq)]
enum Src {
    /// `From<(T0, T1, ..)>`
    Concrete(Vec<Ty>),
    /// `impl<T0, ..> From<(T0, ..)> where F<fam_i>: From<Ti>`
    Forward(Vec<u8>),
}

/// `F<f>: From<atom>` holds in the prelude (reflexive, A, B)
fn conv_ok(atom: Ty, f: u8) -> bool {
    atom.fam() == f && matches!(atom, Ty::F(_) | Ty::A(_) | Ty::B(_) | Ty::RA(_))
}

fn src_matches(s: &Src, u: &[Ty]) -> bool {
    match s {
        Src::Concrete(c) => c.as_slice() == u,
        Src::Forward(fams) => fams.len() == u.len() && fams.iter().zip(u).all(|(f, a)| conv_ok(*a, *f)),
    }
}

/// would rustc report E0119 for two impls with these sources on the same type?
fn srcs_overlap(a: &Src, b: &Src) -> bool {
    match (a, b) {
        (Src::Concrete(x), Src::Concrete(y)) => x == y,
        (Src::Concrete(x), f @ Src::Forward(_)) | (f @ Src::Forward(_), Src::Concrete(x)) => src_matches(f, x),
        // two blanket impls of one arity: the where-clauses are ambiguous for an uninstantiated parameter
        (Src::Forward(x), Src::Forward(y)) => x.len() == y.len(),
    }
}

/// from.md: a struct gets one impl from the tuple of its field types, or one per listed type, or the
/// forwarded blanket impl.  An enum variant is treated "as if it were a struct", except: `skip`/`ignore`
/// gives none; a variant without fields gives none unless annotated; an un-annotated variant gives none
/// once any variant carries `#[from]` / types / forward.
fn from_sources(attr: &FromAttr, fams: &[u8], is_variant: bool, has_explicit: bool) -> Vec<Src> {
    let own = || Src::Concrete(fams.iter().map(|f| Ty::F(*f)).collect());
    match attr {
        FromAttr::Types(groups) => groups.iter().flatten().map(|t| Src::Concrete(t.clone())).collect(),
        FromAttr::Forward => vec![Src::Forward(fams.to_vec())],
        FromAttr::Empty => vec![own()],
        FromAttr::Skip(_) => vec![],
        FromAttr::None => {
            if is_variant && (has_explicit || fams.is_empty()) {
                vec![]
            } else {
                vec![own()]
            }
        }
    }
}

#[derive(Clone, Debug, Default)]
struct Conv {
    fields_ty: bool,
    tys: Vec<Vec<Ty>>,
}

/// into.md: `#[into]` = owned conversion into the field types; plain types = owned conversions into the
/// listed types (and not into the field types); `owned`/`ref`/`ref_mut` bare = that kind into the field
/// types, with a list = that kind into the listed types; repeated attributes add up.
fn fold(a: &IntoAttr) -> [Conv; 3] {
    let mut c: [Conv; 3] = Default::default();
    match a {
        IntoAttr::Empty => c[0].fields_ty = true,
        IntoAttr::Parts(parts) => {
            for p in parts {
                match p {
                    IntoPart::Plain(tys) => c[0].tys.extend(tys.iter().cloned()),
                    IntoPart::Wrapped(es) => {
                        for (k, tys) in es {
                            match tys {
                                None => c[*k].fields_ty = true,
                                Some(tys) => c[*k].tys.extend(tys.iter().cloned()),
                            }
                        }
                    }
                }
            }
        }
    }
    c
}

/// One expected `impl From<[&[mut]] S> for ([&[mut]] target..)`.
#[derive(Clone, Debug, PartialEq, Eq, PartialOrd, Ord)]
struct IntoImpl {
    kind: usize,
    target: Vec<Ty>,
    /// indices of the fields the components are taken from
    fields: Vec<usize>,
    field_level: bool,
}

/// into.md: every field with a conversion attribute gets its own impls; the struct-level tuple conversion
/// (over the non-skipped fields, in declaration order) exists if the struct has an attribute, or if no field
/// has a conversion attribute (then it is the default owned one).
fn into_impls(fields: &[Fld], struct_attr: &Option<IntoAttr>) -> Vec<IntoImpl> {
    let mut out = vec![];
    for (i, f) in fields.iter().enumerate() {
        if let Some(a) = &f.into_attr {
            let c = fold(a);
            for k in 0..3 {
                if c[k].fields_ty {
                    out.push(IntoImpl { kind: k, target: vec![Ty::F(f.fam)], fields: vec![i], field_level: true });
                }
                for t in &c[k].tys {
                    out.push(IntoImpl { kind: k, target: t.clone(), fields: vec![i], field_level: true });
                }
            }
        }
    }
    let convs = match struct_attr {
        Some(a) => Some(fold(a)),
        None if fields.iter().all(|f| f.into_attr.is_none()) => Some(fold(&IntoAttr::Empty)),
        None => None,
    };
    if let Some(c) = convs {
        let idx: Vec<usize> = (0..fields.len()).filter(|i| fields[*i].into_skip.is_none()).collect();
        for k in 0..3 {
            if c[k].fields_ty {
                out.push(IntoImpl { kind: k, target: idx.iter().map(|i| Ty::F(fields[*i].fam)).collect(), fields: idx.clone(), field_level: false });
            }
            for t in &c[k].tys {
                out.push(IntoImpl { kind: k, target: t.clone(), fields: idx.clone(), field_level: false });
            }
        }
    }
    out
}

fn has_dup_into(impls: &[IntoImpl]) -> bool {
    let mut seen = BTreeSet::new();
    impls.iter().any(|i| !seen.insert((i.kind, i.target.clone())))
}

// ------------------------------------------------------------------------------------------------
// generators of attributes

fn gen_from_types(d: &mut Dice, fams: &[u8]) -> Vec<Vec<Vec<Ty>>> {
    let ngroups = if d.chance(30) { 2 } else { 1 };
    let mut seen = BTreeSet::new();
    let mut groups = vec![];
    for _ in 0..ngroups {
        let nt = 1 + d.pick(2);
        let mut tys = vec![];
        for _ in 0..nt {
            let t: Vec<Ty> = fams.iter().map(|f| [Ty::A(*f), Ty::F(*f), Ty::B(*f), Ty::RA(*f)][d.weighted(&[4, 4, 4, 2])]).collect();
            if seen.insert(t.clone()) {
                tys.push(t);
            }
        }
        if !tys.is_empty() {
            groups.push(tys);
        }
    }
    groups
}

fn gen_target(d: &mut Dice, tf: &[u8], kind: usize) -> Vec<Ty> {
    tf.iter()
        .map(|f| {
            let i = d.weighted(&[4, 4, 4, 2]);
            if kind == 0 {
                [Ty::X(*f), Ty::F(*f), Ty::Y(*f), Ty::BX(*f)][i]
            } else if *f == TUPLE_FAM {
                // the tuple-typed field is borrowed as it is (no sub-object with a guaranteed offset)
                Ty::F(*f)
            } else {
                [Ty::R(*f), Ty::F(*f), Ty::Q(*f), Ty::SQ(*f)][i]
            }
        })
        .collect()
}

/// `tf`: families of the fields the conversion ranges over (struct level: the non-skipped ones)
fn gen_into_attr(d: &mut Dice, tf: &[u8]) -> IntoAttr {
    let typed_ok = !tf.is_empty();
    match d.weighted(&[2, 5, if typed_ok { 3 } else { 0 }]) {
        0 => IntoAttr::Empty,
        1 => {
            let nattr = if d.chance(25) { 2 } else { 1 };
            let mut bare = [false; 3];
            let mut seen = BTreeSet::new();
            let mut parts = vec![];
            for _ in 0..nattr {
                let ne = 1 + d.weighted(&[5, 3, 2]);
                let mut used = [false; 3];
                let mut es = vec![];
                for _ in 0..ne {
                    let k = d.pick(3);
                    // a kind may be written again in the same attribute with a (further) type list: the lists add up
                    let again = used[k];
                    // written again in the same attribute: a further type list, or (after a list) the bare kind
                    let again_typed = again && typed_ok && d.chance(60);
                    if again && !again_typed {
                        if !bare[k] && d.chance(50) {
                            bare[k] = true;
                            es.push((k, None));
                        }
                        continue;
                    }
                    if again_typed || (typed_ok && d.chance(40)) {
                        let nt = 1 + d.pick(2);
                        let mut tys = vec![];
                        for _ in 0..nt {
                            let t = gen_target(d, tf, k);
                            if seen.insert((k, t.clone())) {
                                tys.push(t);
                            }
                        }
                        if !tys.is_empty() {
                            used[k] = true;
                            es.push((k, Some(tys)));
                        }
                    } else if !bare[k] {
                        bare[k] = true;
                        used[k] = true;
                        es.push((k, None));
                    }
                }
                // a kind that has a type list so far is also written bare, after the list
                if typed_ok && d.chance(12) {
                    if let Some(k) = (0..3).find(|k| !bare[*k] && es.iter().any(|(k2, t)| k2 == k && t.is_some())) {
                        bare[k] = true;
                        es.push((k, None));
                    }
                }
                if !es.is_empty() {
                    parts.push(IntoPart::Wrapped(es));
                }
            }
            if parts.is_empty() {
                parts.push(IntoPart::Wrapped(vec![(0, None)]));
            }
            // a further attribute with a plain type list (plain and wrapped forms may not share one attribute, but
            // repeated attributes add up)
            if typed_ok && d.chance(15) {
                let t = gen_target(d, tf, 0);
                if seen.insert((0, t.clone())) {
                    let at = d.pick(parts.len() + 1);
                    parts.insert(at, IntoPart::Plain(vec![t]));
                }
            }
            IntoAttr::Parts(parts)
        }
        _ => {
            let nattr = if d.chance(25) { 2 } else { 1 };
            let mut seen = BTreeSet::new();
            let mut parts = vec![];
            for _ in 0..nattr {
                let nt = 1 + d.pick(2);
                let mut tys = vec![];
                for _ in 0..nt {
                    let t = gen_target(d, tf, 0);
                    if seen.insert(t.clone()) {
                        tys.push(t);
                    }
                }
                if !tys.is_empty() {
                    parts.push(IntoPart::Plain(tys));
                }
            }
            if d.chance(15) {
                // a further attribute with wrapped kinds
                let k = d.pick(3);
                let e = if k != 0 && d.chance(50) { Some(vec![gen_target(d, tf, k)]) } else { None };
                let at = d.pick(parts.len() + 1);
                parts.insert(at, IntoPart::Wrapped(vec![(k, e)]));
            }
            IntoAttr::Parts(parts)
        }
    }
}

fn gen_fields(d: &mut Dice, nf: usize, shape: Shape, labels: &mut Vec<String>) -> Vec<Fld> {
    let mode = if nf < 2 { 0 } else { d.weighted(&[5, 3, 2]) };
    let mut fams: Vec<u8> = match mode {
        0 => perm(d, 4).into_iter().take(nf).map(|x| x as u8).collect(),
        1 => {
            let f = d.pick(4) as u8;
            vec![f; nf]
        }
        _ => (0..nf).map(|_| d.pick(2) as u8).collect(),
    };
    // a field whose type is written as a tuple type
    if nf > 0 && d.chance(12) {
        let i = d.pick(nf);
        if mode == 1 {
            fams = vec![TUPLE_FAM; nf];
        } else {
            fams[i] = TUPLE_FAM;
        }
        labels.push("field_of_tuple_type".into());
        if nf == 1 {
            labels.push("sole_field_of_tuple_type".into());
        }
    }
    if nf >= 2 {
        let distinct = fams.iter().collect::<BTreeSet<_>>().len();
        labels.push(
            if distinct == nf {
                "types=pairwise_distinct"
            } else if distinct == 1 {
                "types=all_equal"
            } else {
                "types=some_equal"
            }
            .to_string(),
        );
    }
    // declaration order is deliberately not the alphabetical one
    let pool = if shape == Shape::Named && d.chance(12) {
        labels.push("raw_ident_fields".into());
        ["r#type", "a", "r#fn", "b"]
    } else {
        ["z", "a", "m", "b"]
    };
    let order = perm(d, 4);
    (0..nf)
        .map(|i| Fld {
            member: if shape == Shape::Named { pool[order[i]].to_string() } else { i.to_string() },
            fam: fams[i],
            val: (1 + d.pick(8000) as u32) * 8 + i as u32,
            into_skip: None,
            into_attr: None,
            skip_first: true,
        })
        .collect()
}

// ------------------------------------------------------------------------------------------------
// probes (presence / absence of impls)

#[derive(Clone, Debug)]
struct ProbeC {
    self_ty: String,
    arg: String,
    expected: bool,
}

/// canonical spelling of a type for comparing impl headers: redundant parentheses removed, all lifetimes
/// `'static`, no whitespace
fn canon_ty(t: &syn::Type) -> String {
    match t {
        syn::Type::Paren(p) => canon_ty(&p.elem),
        syn::Type::Group(g) => canon_ty(&g.elem),
        syn::Type::Tuple(t) => {
            if t.elems.len() == 1 {
                format!("({},)", canon_ty(&t.elems[0]))
            } else {
                format!("({})", t.elems.iter().map(canon_ty).collect::<Vec<_>>().join(","))
            }
        }
        syn::Type::Reference(r) => format!("&'static {}{}", if r.mutability.is_some() { "mut " } else { "" }, canon_ty(&r.elem)),
        // the spellings of `Sp::atom`: `<X as Id>::T` and `crate::X` are `X`
        syn::Type::Path(p) if p.qself.is_some() && p.path.segments.len() >= 2 && p.path.segments[p.path.segments.len() - 2].ident == "Id" && p.path.segments.last().is_some_and(|s| s.ident == "T") => {
            canon_ty(&p.qself.as_ref().unwrap().ty)
        }
        syn::Type::Path(p) if p.qself.is_none() && p.path.segments.len() == 2 && p.path.segments[0].ident == "crate" => p.path.segments[1].ident.to_string(),
        other => tok::ts_string(other).replace(' ', ""),
    }
}

fn canon_str(s: &str) -> String {
    syn::parse_str::<syn::Type>(s).map(|t| canon_ty(&t)).unwrap_or_else(|_| s.replace(' ', ""))
}

/// E1 pre-screen: headers `impl From<ARG> for SELF` (without type parameters of their own) of the
/// in-process expansion. Only nominates pairs to probe; the verdict is the probe's.
fn nominate(item_src: &str, derive: &str) -> Vec<(String, String)> {
    let Ok(item) = syn::parse_str::<syn::DeriveInput>(item_src) else { return vec![] };
    let Some(dv) = dm::Derive::by_name(derive) else { return vec![] };
    let dm::Outcome::Ok(ts) = dm::expand(dv, &item) else { return vec![] };
    let Ok(impls) = tok::impls(&ts) else { return vec![] };
    let mut out = vec![];
    for i in impls {
        if tok::impl_trait_name(&i).as_deref() != Some("From") {
            continue;
        }
        if i.generics.type_params().next().is_some() || i.generics.const_params().next().is_some() {
            continue;
        }
        let Some((_, path, _)) = &i.trait_ else { continue };
        let Some(seg) = path.segments.last() else { continue };
        let syn::PathArguments::AngleBracketed(ab) = &seg.arguments else { continue };
        let Some(syn::GenericArgument::Type(arg)) = ab.args.first() else { continue };
        out.push((canon_ty(&i.self_ty), canon_ty(arg)));
    }
    out
}

/// to the text of a `'static`-spelled type usable inside `impls!`
fn canon_to_src(c: &str) -> String {
    c.replace(',', ", ").replace(", )", ",)")
}

struct Probes {
    list: Vec<ProbeC>,
    seen: BTreeSet<(String, String)>,
    /// impl headers listed by the in-process expansion / those of them the model's candidates did not contain
    nominated_total: usize,
    nominated_extra: usize,
}

impl Probes {
    fn new() -> Probes {
        Probes { list: vec![], seen: BTreeSet::new(), nominated_total: 0, nominated_extra: 0 }
    }
    fn add(&mut self, self_ty: String, arg: String, expected: bool) {
        if self.seen.insert((canon_str(&self_ty), canon_str(&arg))) {
            self.list.push(ProbeC { self_ty, arg, expected });
        }
    }
    /// headers the model's candidate list does not contain are probed with expectation "absent": every
    /// impl the model expects is already in the list
    fn add_nominated(&mut self, noms: Vec<(String, String)>) {
        self.nominated_total += noms.len();
        for (s, a) in noms {
            if !self.seen.contains(&(s.clone(), a.clone())) {
                self.nominated_extra += 1;
                self.seen.insert((s.clone(), a.clone()));
                self.list.push(ProbeC { self_ty: canon_to_src(&s), arg: canon_to_src(&a), expected: false });
            }
        }
    }
    fn render(&self, out: &mut String) {
        for p in &self.list {
            let _ = writeln!(
                out,
                "    o.eq(\"impl `{}: From<{}>` exists\", \"{}\", &impls!({}, {}).to_string());",
                p.self_ty, p.arg, p.expected, p.self_ty, p.arg
            );
        }
    }
}

/// candidate source tuples for `T: From<..>` around one struct / variant with field families `fams`
fn from_candidates(d: &mut Dice, fams: &[u8], attr: &FromAttr) -> Vec<Vec<Ty>> {
    let own: Vec<Ty> = fams.iter().map(|f| Ty::F(*f)).collect();
    let mut c = vec![own.clone()];
    if let FromAttr::Types(groups) = attr {
        c.extend(groups.iter().flatten().cloned());
    }
    if !fams.is_empty() {
        // all-A: present only under forward or when listed
        c.push(fams.iter().map(|f| Ty::A(*f)).collect());
        // a random F/A/B substitution
        c.push(fams.iter().map(|f| [Ty::B(*f), Ty::A(*f), Ty::F(*f)][d.pick(3)]).collect());
        // one position moved to another family
        let mut t = own.clone();
        let i = d.pick(t.len());
        t[i] = Ty::A((fams[i] + 1) % 4);
        c.push(t);
        // one field less / one more
        c.push(own[..own.len() - 1].to_vec());
    }
    if fams.len() >= 2 {
        let mut r = own.clone();
        r.reverse();
        c.push(r);
        let mut r: Vec<Ty> = fams.iter().map(|f| Ty::A(*f)).collect();
        r.reverse();
        c.push(r);
    }
    if fams.len() < 4 {
        let mut t = own.clone();
        t.push(Ty::F(3));
        c.push(t);
    }
    c.push(vec![]);
    c
}

// ------------------------------------------------------------------------------------------------
// oracle blocks

/// one `From` conversion into `ty_name` (a struct, or the variant `path` of an enum)
fn from_block(out: &mut String, d: &mut Dice, ty_name: &str, path: &str, shape: Shape, fields: &[Fld], src: &[Ty]) {
    let vals: Vec<u32> = fields.iter().map(|f| f.val).collect();
    let src_ty = tys_str(src);
    let src_val = tup(&src.iter().zip(&vals).map(|(a, v)| a.ctor(*v)).collect::<Vec<_>>());
    let ids: Vec<u32> = src.iter().filter_map(|a| a.log_id(0)).collect();
    let lit = literal(path, shape, fields, &vals);
    let call = if d.chance(30) {
        format!("let v: {ty_name} = ({src_val}).into();")
    } else {
        format!("let v = <{ty_name} as From<{src_ty}>>::from({src_val});")
    };
    let _ = writeln!(
        out,
        "    {{\n        let _ = take_log();\n        {call}\n        o.eq(\"{ty_name}::from({src_ty}) puts the i-th component into the i-th field\", &format!(\"{{:?}}\", {lit}), &format!(\"{{:?}}\", v));\n        o.eq(\"{ty_name}::from({src_ty}) applies exactly one user-level From::from per converted field\", \"{}\", &take_log());\n    }}",
        log_str(&ids)
    );
}

fn access(shape: Shape, f: &Fld) -> String {
    let _ = shape;
    format!("s.{}", f.member)
}

fn into_block(out: &mut String, d: &mut Dice, shape: Shape, fields: &[Fld], im: &IntoImpl, lit_path: &str) {
    let k = im.kind;
    let n = im.target.len();
    let tty = kind_tys_str(k, &im.target, false);
    let comp = |i: usize| if n == 1 { "t".to_string() } else { format!("t.{i}") };
    let vals: Vec<u32> = im.fields.iter().map(|i| fields[*i].val).collect();
    let ids: Vec<u32> = im.target.iter().filter_map(|a| a.log_id(k)).collect();
    let what = format!("<{tty}>::from({}S)", REF_TY[k]);
    let got_vals = format!("vec![{}] as Vec<u32>", (0..n).map(|i| format!("{}.n()", comp(i))).collect::<Vec<_>>().join(", "));
    let got_vals = if n == 0 { "Vec::<u32>::new()".to_string() } else { got_vals };
    let level = if im.field_level { "field-level" } else { "struct-level" };
    match k {
        0 => {
            let call = if d.chance(30) { format!("let t: {tty} = s.into();") } else { format!("let t = <{tty} as From<S>>::from(s);") };
            let unit = if n == 0 { "\n        let () = t;" } else { "" };
            let _ = writeln!(
                out,
                "    {{\n        let s = mk();\n        let _ = take_log();\n        {call}{unit}\n        o.eq(\"{what} ({level}) extracts the non-skipped fields in declaration order\", \"{vals:?}\", &format!(\"{{:?}}\", {got_vals}));\n        o.eq(\"{what} applies exactly one user-level From::from per converted field\", \"{}\", &take_log());\n    }}",
                log_str(&ids)
            );
        }
        1 => {
            let same = (0..n).map(|i| format!("addr({}) == addr(&{})", comp(i), access(shape, &fields[im.fields[i]]))).collect::<Vec<_>>().join(", ");
            let same = if n == 0 { "Vec::<bool>::new()".to_string() } else { format!("vec![{same}] as Vec<bool>") };
            let unit = if n == 0 { "\n        let () = t;" } else { "" };
            let _ = writeln!(
                out,
                "    {{\n        let s = mk();\n        let _ = take_log();\n        let t = <{tty} as From<&S>>::from(&s);{unit}\n        o.eq(\"{what} ({level}) borrows the non-skipped fields in declaration order\", \"{vals:?}\", &format!(\"{{:?}}\", {got_vals}));\n        o.eq(\"{what} yields references to those very fields\", \"{:?}\", &format!(\"{{:?}}\", {same}));\n        o.eq(\"{what} applies exactly one user-level From::from per converted field\", \"{}\", &take_log());\n    }}",
                vec![true; n],
                log_str(&ids)
            );
        }
        _ => {
            let want = (0..n).map(|i| format!("addr(&{})", access(shape, &fields[im.fields[i]]))).collect::<Vec<_>>().join(", ");
            let got = (0..n).map(|i| format!("addr(&*{})", comp(i))).collect::<Vec<_>>().join(", ");
            let (want, got) = if n == 0 { ("Vec::<usize>::new()".to_string(), "Vec::<usize>::new()".to_string()) } else { (format!("vec![{want}] as Vec<usize>"), format!("vec![{got}] as Vec<usize>")) };
            let sets: String = (0..n).map(|i| format!("            {}.set({});\n", comp(i), vals[i] + 1_000_000)).collect();
            let mut after: Vec<u32> = fields.iter().map(|f| f.val).collect();
            for i in &im.fields {
                after[*i] += 1_000_000;
            }
            let lit_after = literal(lit_path, shape, fields, &after);
            let unit = if n == 0 { "\n            let () = t;" } else { "" };
            let _ = writeln!(
                out,
                "    {{\n        let mut s = mk();\n        let _ = take_log();\n        let want = {want};\n        {{\n            let t = <{tty} as From<&mut S>>::from(&mut s);{unit}\n            o.eq(\"{what} ({level}) borrows the non-skipped fields in declaration order\", \"{vals:?}\", &format!(\"{{:?}}\", {got_vals}));\n            o.check(\"{what} yields mutable references to those very fields\", want == {got});\n{sets}        }}\n        o.eq(\"writes through {what} reach exactly the borrowed fields\", &format!(\"{{:?}}\", {lit_after}), &format!(\"{{:?}}\", s));\n        o.eq(\"{what} applies exactly one user-level From::from per converted field\", \"{}\", &take_log());\n    }}",
                log_str(&ids)
            );
        }
    }
}

// ------------------------------------------------------------------------------------------------
// struct cases

fn nf_draw(d: &mut Dice) -> usize {
    [1, 2, 3, 0, 4][d.weighted(&[3, 5, 4, 1, 2])]
}

fn shape_draw(d: &mut Dice, nf: usize) -> Shape {
    if nf == 0 {
        [Shape::Tuple, Shape::Named, Shape::Unit][d.pick(3)]
    } else {
        [Shape::Tuple, Shape::Named][d.pick(2)]
    }
}

fn build_struct(d: &mut Dice) -> GenCase {
    let mut labels = vec!["kind=struct".to_string()];
    let nf = nf_draw(d);
    let shape = shape_draw(d, nf);
    let mut fields = gen_fields(d, nf, shape, &mut labels);
    let fams: Vec<u8> = fields.iter().map(|f| f.fam).collect();
    let mut d_from = d.chance(60);
    let d_into = d.chance(55);
    let d_ctor = d.chance(35);
    if !d_from && !d_into && !d_ctor {
        d_from = true;
    }
    // the "both derived, converting there and back is the identity" clause gets cases of its own: From and
    // Into over all fields (other reference kinds may be added, nothing is skipped)
    let rt = d.chance(10);
    let d_from = d_from || rt;
    let d_into = d_into || rt;
    // ---- From
    let mut from_attr = FromAttr::None;
    if d_from && nf > 0 && !rt {
        match d.weighted(&[4, 4, 2]) {
            0 => {}
            1 => {
                let g = gen_from_types(d, &fams);
                if !g.is_empty() {
                    from_attr = FromAttr::Types(g);
                }
            }
            // a blanket impl bounded by `(T4, u8): From<T>` overlaps with every other impl as far as rustc can tell
            // (a foreign type may get further impls): Rust's coherence, whatever a derive does
            _ if fams.contains(&TUPLE_FAM) => {}
            _ => from_attr = FromAttr::Forward,
        }
    }
    // ---- Into
    let mut into_struct: Option<IntoAttr> = None;
    if d_into && rt {
        into_struct = match d.pick(4) {
            0 => None,
            1 => Some(IntoAttr::Empty),
            2 => Some(IntoAttr::Parts(vec![IntoPart::Wrapped(vec![(0, None), (1, None)])])),
            _ => Some(IntoAttr::Parts(vec![IntoPart::Wrapped(vec![(2, None)]), IntoPart::Wrapped(vec![(0, None)])])),
        };
    } else if d_into {
        let mut tries = 0;
        loop {
            for f in fields.iter_mut() {
                f.into_skip = if d.chance(25) { Some(if d.chance(30) { "ignore" } else { "skip" }) } else { None };
                f.into_attr = if d.chance(22) { Some(gen_into_attr(d, &[f.fam])) } else { None };
                f.skip_first = !d.chance(40);
            }
            let tf: Vec<u8> = fields.iter().filter(|f| f.into_skip.is_none()).map(|f| f.fam).collect();
            into_struct = if d.chance(60) { Some(gen_into_attr(d, &tf)) } else { None };
            if !has_dup_into(&into_impls(&fields, &into_struct)) {
                break;
            }
            tries += 1;
            if tries >= 3 {
                // coherent by construction: no field-level conversions, default struct-level one
                for f in fields.iter_mut() {
                    f.into_attr = None;
                }
                into_struct = None;
                labels.push("into_dedup_fallback".into());
                break;
            }
        }
    }
    let impls = if d_into { into_impls(&fields, &into_struct) } else { vec![] };
    // `#[from(forward)]` on a one-field struct is `impl<T> From<T> for S where F: From<T>`; together with an
    // Into impl `From<S> for F` it would overlap with core's reflexive `From<S> for S`: the combination is
    // incoherent by itself, whatever the derives do
    if matches!(from_attr, FromAttr::Forward) && nf == 1 && impls.iter().any(|i| i.kind == 0 && i.target == vec![Ty::F(fams[0])]) {
        from_attr = FromAttr::None;
        labels.push("forward_vs_into_fixup".into());
    }

    // ---- item text
    let mut derives = vec![];
    if d_from {
        derives.push("derive_more::From");
    }
    if d_into {
        derives.push("derive_more::Into");
    }
    if d_ctor {
        derives.push("derive_more::Constructor");
    }
    let mut attrs = String::new();
    let mut sp = Sp::draw(d);
    if d_from {
        attrs.push_str(&from_attr.render("", &mut sp));
        if let FromAttr::Types(g) = &from_attr {
            rich_ty_labels(g.iter().flatten().flatten(), &mut labels);
        }
    }
    if let (true, Some(a)) = (d_into, &into_struct) {
        for l in a.render(&mut sp) {
            attrs.push_str(&l);
            attrs.push('\n');
        }
        into_attr_labels(a, &mut labels);
    }
    if d_into {
        for f in &fields {
            if let Some(a) = &f.into_attr {
                into_attr_labels(a, &mut labels);
            }
        }
    }
    // the same struct with an (unused) const parameter, used through the alias `S`: the impls carry the parameter
    let generic = d.chance(12);
    let (sname, gdecl, alias, lit_path) = if generic {
        labels.push("const_generic_struct".into());
        ("SG", "<const CN: usize>", "\npub type S = SG<7>;", "SG::<7>")
    } else {
        ("S", "", "", "S")
    };
    let semi = if shape == Shape::Named { "" } else { ";" };
    let item = format!(
        "#[derive(Debug, Clone, PartialEq, {})]\n{attrs}pub struct {sname}{gdecl}{}{semi}",
        derives.join(", "),
        decl_fields_sp(shape, &fields, d_into, &mut sp)
    );
    sp.labels(&mut labels);
    let control = format!("#[derive(Debug, Clone, PartialEq)]\npub struct {sname}{gdecl}{}{semi}{alias}", decl_fields(shape, &fields, false));
    let vals: Vec<u32> = fields.iter().map(|f| f.val).collect();
    let mut run = String::new();
    let mut probes = Probes::new();

    // ---- From oracle
    let mut roundtrip = false;
    if d_from {
        let srcs = from_sources(&from_attr, &fams, false, false);
        for s in &srcs {
            match s {
                Src::Concrete(t) => from_block(&mut run, d, "S", lit_path, shape, &fields, t),
                Src::Forward(fams) => {
                    // the all-A instantiation and a random one
                    let a: Vec<Ty> = fams.iter().map(|f| Ty::A(*f)).collect();
                    from_block(&mut run, d, "S", lit_path, shape, &fields, &a);
                    let r: Vec<Ty> = fams.iter().map(|f| [Ty::B(*f), Ty::F(*f), Ty::A(*f)][d.pick(3)]).collect();
                    if r != a {
                        from_block(&mut run, d, "S", lit_path, shape, &fields, &r);
                    }
                }
            }
        }
        for u in from_candidates(d, &fams, &from_attr) {
            let exp = srcs.iter().any(|s| src_matches(s, &u));
            probes.add("S".into(), tys_str(&u), exp);
        }
        probes.add_nominated(nominate(&item, "From"));
        labels.push("derive=From".into());
        labels.push(format!("from_attr={}", from_attr.label()));
        if let FromAttr::Types(g) = &from_attr {
            if g.len() > 1 {
                labels.push("from_repeated_attr".into());
            }
            if nf >= 2 {
                labels.push("from_tuple_types".into());
            }
        }
        if matches!(from_attr, FromAttr::Forward | FromAttr::Types(_)) && nf >= 2 {
            labels.push("from_converting_multi_field".into());
        }
    }
    // ---- Into oracle
    if d_into {
        for im in &impls {
            into_block(&mut run, d, shape, &fields, im, lit_path);
        }
        // candidates
        let key = |k: usize, t: &[Ty]| impls.iter().any(|i| i.kind == k && i.target == t);
        let mut cands: Vec<(usize, Vec<Ty>)> = impls.iter().map(|i| (i.kind, i.target.clone())).collect();
        let all: Vec<Ty> = fams.iter().map(|f| Ty::F(*f)).collect();
        let nonskipped: Vec<Ty> = fields.iter().filter(|f| f.into_skip.is_none()).map(|f| Ty::F(f.fam)).collect();
        for k in 0..3 {
            cands.push((k, all.clone()));
            cands.push((k, nonskipped.clone()));
            let mut r = nonskipped.clone();
            r.reverse();
            cands.push((k, r));
            for f in &fields {
                cands.push((k, vec![Ty::F(f.fam)]));
            }
        }
        for i in &impls {
            for k in 0..3 {
                if k != i.kind {
                    // the same target under another reference kind (only spellings that are types the prelude knows)
                    cands.push((k, i.target.clone()));
                }
            }
        }
        for (k, t) in cands {
            if k == 0 && t.iter().any(|a| matches!(a, Ty::SQ(_))) {
                continue; // `[Q]` by value is not a type a conversion can produce
            }
            probes.add(kind_tys_str(k, &t, true), format!("{}S", REF_TY_STATIC[k]), key(k, &t));
        }
        probes.add_nominated(nominate(&item, "Into"));
        labels.push("derive=Into".into());
        if item.contains("#[into(") && item.lines().filter(|l| l.contains("#[into(")).any(|l| {
            l.split("#[into(").skip(1).any(|a| ["owned(", "ref(", "ref_mut("].iter().any(|k| a.match_indices(k).filter(|(i, _)| *i == 0 || !a.as_bytes()[i - 1].is_ascii_alphanumeric() && a.as_bytes()[i - 1] != b'_').count() >= 2))
        }) {
            labels.push("into_kind_repeated_in_one_attribute".into());
        }
        for im in &impls {
            labels.push(format!("into_kind={}", KIND_NAME[im.kind]));
            if im.target.iter().any(|a| a.log_id(im.kind).is_some()) {
                labels.push(format!("into_typed_{}", KIND_NAME[im.kind]));
                if im.target.len() >= 2 {
                    labels.push("into_tuple_types".into());
                }
            }
            if im.field_level {
                labels.push("into_field_level".into());
            }
        }
        let skipped_before = fields.iter().enumerate().any(|(i, f)| f.into_skip.is_some() && fields[i + 1..].iter().any(|g| g.into_skip.is_none()));
        if fields.iter().any(|f| f.into_skip.is_some()) {
            labels.push("into_skip".into());
        }
        if skipped_before {
            labels.push("into_skip_before_kept_field".into());
        }
        if fields.iter().any(|f| f.into_skip.is_some() && f.into_attr.is_some()) {
            labels.push("into_skip_and_field_conversion".into());
        }
        if fields.iter().any(|f| f.into_attr.is_some()) && into_struct.is_none() {
            labels.push("into_field_attr_suppresses_struct_level".into());
        }
        let reps = |a: &Option<IntoAttr>| matches!(a, Some(IntoAttr::Parts(p)) if p.len() > 1);
        if reps(&into_struct) || fields.iter().any(|f| reps(&f.into_attr)) {
            labels.push("into_repeated_attr".into());
        }
        labels.push(format!(
            "into_struct_attr={}",
            match &into_struct {
                None => "none",
                Some(IntoAttr::Empty) => "empty",
                Some(IntoAttr::Parts(p)) if matches!(p.first(), Some(IntoPart::Plain(_))) => "types",
                Some(_) => "kinds",
            }
        ));
        if impls.is_empty() {
            labels.push("into_no_impl".into());
        }
        roundtrip = d_from && matches!(from_attr, FromAttr::None) && impls.iter().any(|i| i.kind == 0 && !i.field_level && i.target == all);
    }
    if roundtrip {
        let tty = tys_str(&fams.iter().map(|f| Ty::F(*f)).collect::<Vec<_>>());
        let _ = writeln!(
            run,
            "    {{\n        let s = mk();\n        let t = <{tty} as From<S>>::from(s.clone());\n        o.eq(\"S -> tuple -> S is the identity\", &format!(\"{{:?}}\", s), &format!(\"{{:?}}\", <S as From<{tty}>>::from(t.clone())));\n        o.eq(\"tuple -> S -> tuple is the identity\", &format!(\"{{:?}}\", t), &format!(\"{{:?}}\", <{tty} as From<S>>::from(<S as From<{tty}>>::from(t.clone()))));\n    }}"
        );
        labels.push("roundtrip".into());
    }
    // ---- Constructor oracle
    if d_ctor {
        let args = fields.iter().map(|f| Ty::F(f.fam).ctor(f.val)).collect::<Vec<_>>().join(", ");
        let _ = writeln!(
            run,
            "    o.eq(\"S::new(a0, a1, ..) puts the i-th argument into the i-th field\", &format!(\"{{:?}}\", mk()), &format!(\"{{:?}}\", S::new({args})));"
        );
        if d_from && matches!(from_attr, FromAttr::None) {
            let tty = tys_str(&fams.iter().map(|f| Ty::F(*f)).collect::<Vec<_>>());
            let tv = tup(&fields.iter().map(|f| Ty::F(f.fam).ctor(f.val)).collect::<Vec<_>>());
            let _ = writeln!(run, "    o.check(\"S::new(..) == S::from((..))\", S::new({args}) == <S as From<{tty}>>::from({tv}));");
        }
        labels.push("derive=Constructor".into());
    }
    probes.render(&mut run);
    if probes.nominated_extra > 0 {
        labels.push("nominated_extra_header".into());
    }
    if probes.nominated_total > 0 {
        labels.push("e1_headers_listed".into());
    }
    labels.push(format!("shape={}", ["unit", "tuple", "named"][shape as usize]));
    labels.push(format!("nfields={nf}"));
    let body = format!("{item}{alias}\nfn mk() -> S {{ {} }}\npub fn run(o: &mut Out) {{\n{run}}}", literal(lit_path, shape, &fields, &vals));
    let has_attr = !matches!(from_attr, FromAttr::None) || into_struct.is_some() || fields.iter().any(|f| f.into_skip.is_some() || f.into_attr.is_some());
    finish(body, control, labels, nf >= 2 || has_attr, json!({"kind": "struct", "nfields": nf}))
}

fn finish(body: String, control: String, mut labels: Vec<String>, nontrivial: bool, meta: serde_json::Value) -> GenCase {
    labels.sort();
    labels.dedup();
    let mut c = GenCase::new(body);
    c.control = Some(control);
    c.labels = labels;
    c.nontrivial = nontrivial;
    c.meta = meta;
    c
}

// ------------------------------------------------------------------------------------------------
// enum cases

struct Var {
    name: &'static str,
    shape: Shape,
    fields: Vec<Fld>,
    attr: FromAttr,
}

fn build_enum(d: &mut Dice) -> GenCase {
    let mut labels = vec!["kind=enum".to_string(), "derive=From".to_string()];
    let nv = [2, 1, 3, 4][d.weighted(&[4, 2, 4, 3])];
    let names = ["Va", "Vb", "Vc", "Vd"];
    let mut vars: Vec<Var> = vec![];
    for name in names.iter().take(nv) {
        let nf = [1, 2, 0, 3][d.weighted(&[4, 4, 2, 2])];
        let shape = shape_draw(d, nf);
        let mut l = vec![];
        let fields = gen_fields(d, nf, shape, &mut l);
        labels.extend(l);
        let fams: Vec<u8> = fields.iter().map(|f| f.fam).collect();
        let attr = if nf == 0 {
            match d.weighted(&[5, 3, 2]) {
                0 => FromAttr::None,
                1 => FromAttr::Empty,
                _ => FromAttr::Skip(if d.chance(30) { "ignore" } else { "skip" }),
            }
        } else {
            match d.weighted(&[8, 3, 3, 3, 3]) {
                0 => FromAttr::None,
                1 => FromAttr::Empty,
                2 => FromAttr::Skip(if d.chance(30) { "ignore" } else { "skip" }),
                3 => {
                    let g = gen_from_types(d, &fams);
                    if g.is_empty() {
                        FromAttr::None
                    } else {
                        FromAttr::Types(g)
                    }
                }
                _ if fams.contains(&TUPLE_FAM) => FromAttr::None,
                _ => FromAttr::Forward,
            }
        };
        vars.push(Var { name, shape, fields, attr });
    }
    // coherence: a variant whose impls would overlap with an earlier variant's is skipped explicitly
    let mut fixups = 0;
    let (has_explicit, var_srcs) = loop {
        let has_explicit = vars.iter().any(|v| matches!(v.attr, FromAttr::Empty | FromAttr::Types(_) | FromAttr::Forward));
        let mut all: Vec<Src> = vec![];
        let mut per: Vec<Vec<Src>> = vec![];
        let mut clash = None;
        for (i, v) in vars.iter().enumerate() {
            let fams: Vec<u8> = v.fields.iter().map(|f| f.fam).collect();
            let s = from_sources(&v.attr, &fams, true, has_explicit);
            if s.iter().any(|a| all.iter().any(|b| srcs_overlap(a, b))) {
                clash = Some(i);
                break;
            }
            all.extend(s.iter().cloned());
            per.push(s);
        }
        match clash {
            Some(i) => {
                vars[i].attr = FromAttr::Skip("skip");
                fixups += 1;
            }
            None => break (has_explicit, per),
        }
    };
    if fixups > 0 {
        labels.push("enum_coherence_fixup".into());
    }
    let all_srcs: Vec<Src> = var_srcs.iter().flatten().cloned().collect();

    let mut sp = Sp::draw(d);
    let generic = d.chance(12);
    let (ename, alias) = if generic {
        labels.push("const_generic_enum".into());
        ("EG<const CN: usize>", "\npub type E = EG<7>;")
    } else {
        ("E", "")
    };
    let mut item = format!("#[derive(Debug, Clone, PartialEq, derive_more::From)]\npub enum {ename} {{\n");
    let mut control = format!("#[derive(Debug, Clone, PartialEq)]\npub enum {ename} {{\n");
    for v in &vars {
        item.push_str(&v.attr.render("    ", &mut sp));
        if let FromAttr::Types(g) = &v.attr {
            rich_ty_labels(g.iter().flatten().flatten(), &mut labels);
        }
        let _ = writeln!(item, "    {}{},", v.name, decl_fields(v.shape, &v.fields, false));
        let _ = writeln!(control, "    {}{},", v.name, decl_fields(v.shape, &v.fields, false));
    }
    item.push('}');
    control.push('}');
    control.push_str(alias);
    sp.labels(&mut labels);

    let mut run = String::new();
    let mut probes = Probes::new();
    for (v, srcs) in vars.iter().zip(&var_srcs) {
        let path = format!("E::{}", v.name);
        for s in srcs {
            match s {
                Src::Concrete(t) => from_block(&mut run, d, "E", &path, v.shape, &v.fields, t),
                Src::Forward(fams) => {
                    let a: Vec<Ty> = fams.iter().map(|f| Ty::A(*f)).collect();
                    from_block(&mut run, d, "E", &path, v.shape, &v.fields, &a);
                    let r: Vec<Ty> = fams.iter().map(|f| [Ty::B(*f), Ty::F(*f), Ty::A(*f)][d.pick(3)]).collect();
                    // the reflexive instantiation may belong to another variant's concrete impl: only use the
                    // instantiation if the model attributes it to this variant alone
                    if r != a && all_srcs.iter().filter(|s| src_matches(s, &r)).count() == 1 {
                        from_block(&mut run, d, "E", &path, v.shape, &v.fields, &r);
                    }
                }
            }
        }
        let fams: Vec<u8> = v.fields.iter().map(|f| f.fam).collect();
        for u in from_candidates(d, &fams, &v.attr) {
            let exp = all_srcs.iter().any(|s| src_matches(s, &u));
            probes.add("E".into(), tys_str(&u), exp);
        }
        labels.push(format!("from_attr={}", v.attr.label()));
        if let FromAttr::Types(g) = &v.attr {
            if g.len() > 1 {
                labels.push("from_repeated_attr".into());
            }
            if v.fields.len() >= 2 {
                labels.push("from_tuple_types".into());
            }
        }
        if matches!(v.attr, FromAttr::Forward | FromAttr::Types(_)) && v.fields.len() >= 2 {
            labels.push("from_converting_multi_field".into());
        }
        if v.fields.is_empty() {
            labels.push(match v.attr {
                FromAttr::Empty => "fieldless_variant_with_from",
                _ => "fieldless_variant_without_impl",
            }
            .into());
        }
        if matches!(v.attr, FromAttr::None) && has_explicit && !v.fields.is_empty() {
            labels.push("unannotated_variant_in_explicit_mode".into());
            if !vars.iter().any(|w| matches!(w.attr, FromAttr::Empty)) {
                labels.push("explicit_mode_by_types_or_forward_only".into());
            }
        }
    }
    probes.add_nominated(nominate(&item, "From"));
    probes.render(&mut run);
    if probes.nominated_extra > 0 {
        labels.push("nominated_extra_header".into());
    }
    if probes.nominated_total > 0 {
        labels.push("e1_headers_listed".into());
    }
    labels.push(format!("nvariants={nv}"));
    if all_srcs.is_empty() {
        labels.push("enum_without_impl".into());
    }
    let body = format!("{item}{alias}\npub fn run(o: &mut Out) {{\n{run}}}");
    let has_attr = vars.iter().any(|v| !matches!(v.attr, FromAttr::None));
    let maxf = vars.iter().map(|v| v.fields.len()).max().unwrap_or(0);
    finish(body, control, labels, nv >= 2 || has_attr || maxf >= 2, json!({"kind": "enum", "nvariants": nv}))
}

// ------------------------------------------------------------------------------------------------
// inputs that must be rejected

fn build_negative(d: &mut Dice) -> GenCase {
    let mut labels = vec!["negative".to_string()];
    let which = d.pick(6);
    let nf = 2 + d.pick(2);
    let shape = shape_draw(d, nf);
    let mut l = vec![];
    let fields = gen_fields(d, nf, shape, &mut l);
    let fams: Vec<u8> = fields.iter().map(|f| f.fam).collect();
    let semi = if shape == Shape::Named { "" } else { ";" };
    let decl = decl_fields(shape, &fields, false);
    // a listed type of the wrong arity: one component too many / too few (one left: not a tuple at all)
    let wrong = |d: &mut Dice, letter: fn(u8) -> Ty| -> String {
        let mut t: Vec<Ty> = fams.iter().map(|f| letter(*f)).collect();
        if d.chance(50) {
            t.push(letter(3));
        } else {
            t.pop();
        }
        tys_str(&t)
    };
    let (body, what) = match which {
        0 => (format!("#[derive(derive_more::From)]\n#[from({})]\npub struct S{decl}{semi}", wrong(d, Ty::A)), "from_types_wrong_arity_struct"),
        1 => (
            format!("#[derive(derive_more::From)]\npub enum E {{\n    #[from({})]\n    Va{decl},\n    Vb,\n}}", wrong(d, Ty::A)),
            "from_types_wrong_arity_variant",
        ),
        2 => (format!("#[derive(derive_more::Into)]\n#[into({})]\npub struct S{decl}{semi}", wrong(d, Ty::X)), "into_types_wrong_arity"),
        3 => {
            let k = 1 + d.pick(2);
            (format!("#[derive(derive_more::Into)]\n#[into({}({}))]\npub struct S{decl}{semi}", KIND_NAME[k], wrong(d, Ty::R)), "into_ref_types_wrong_arity")
        }
        4 => (format!("#[derive(derive_more::Into)]\npub enum E {{\n    Va{decl},\n}}"), "into_on_enum"),
        _ => (format!("#[derive(derive_more::Constructor)]\npub enum E {{\n    Va{decl},\n}}"), "constructor_on_enum"),
    };
    labels.push(format!("negative={what}"));
    let control = body.lines().filter(|l| !l.trim_start().starts_with("#[")).collect::<Vec<_>>().join("\n");
    let mut c = finish(body, control, labels, true, json!({"kind": "negative", "what": what}));
    c.expect_compile = false;
    c.runnable = false;
    c
}

const NDICE: usize = 260;

fn build(d: &mut Dice) -> GenCase {
    let mut c = match d.weighted(&[60, 34, 6]) {
        0 => build_struct(d),
        1 => build_enum(d),
        _ => build_negative(d),
    };
    if d.used() > NDICE {
        // choices beyond the dice vector are all "first alternative": measured, must stay rare
        c.labels.push("dice_exhausted".into());
    }
    c
}

// ------------------------------------------------------------------------------------------------
// fixed cases: a one-field struct / variant / field with a *tuple* type listed. The documentation promises
// one impl per listed type ("specify concrete types"); the field type `W0` converts from / into the tuple
// as a whole.

fn fixed() -> Vec<GenCase> {
    let mk = |item: &str, run: &str, control: &str, what: &str, bound: &str| {
        let body = format!("{item}\npub fn run(o: &mut Out) {{\n{run}}}");
        let mut c = finish(
            body,
            control.to_string(),
            vec!["single_field_tuple_type".into(), format!("single_field_tuple_type={what}")],
            true,
            json!({"kind": "single_field_tuple_type", "what": what, "predicted_unsatisfied_bound": bound}),
        );
        c.nontrivial = true;
        c
    };
    let from_run = |ty: &str, lit: &str| {
        format!(
            "    let _ = take_log();\n    let v = <{ty} as From<(A0, A1)>>::from((A0(11), A1(22)));\n    o.eq(\"{ty}::from((A0, A1)) converts the listed tuple as a whole\", &format!(\"{{:?}}\", {lit}), &format!(\"{{:?}}\", v));\n    o.eq(\"exactly one user-level From::from\", \"[91]\", &take_log());\n    o.eq(\"impl `{ty}: From<W0>` exists\", \"false\", &impls!({ty}, W0).to_string());\n"
        )
    };
    let into_run = "    let _ = take_log();\n    let t = <(X0, X1) as From<S>>::from(S(W0(11, 22)));\n    o.eq(\"<(X0, X1)>::from(S) converts the field as a whole\", \"(X0(11), X1(22))\", &format!(\"{:?}\", t));\n    o.eq(\"exactly one user-level From::from\", \"[92]\", &take_log());\n    o.eq(\"impl `W0: From<S>` exists\", \"false\", &impls!(W0, S).to_string());\n";
    vec![
        mk(
            "#[derive(Debug, Clone, PartialEq, derive_more::From)]\n#[from((A0, A1))]\npub struct S(W0);",
            &from_run("S", "S(W0(11, 22))"),
            "pub struct S(W0);",
            "from_struct",
            "W0: From<A0>",
        ),
        mk(
            "#[derive(Debug, Clone, PartialEq, derive_more::From)]\npub enum E {\n    #[from((A0, A1))]\n    Va { z: W0 },\n    Vb(F1),\n}",
            &from_run("E", "E::Va { z: W0(11, 22) }"),
            "pub enum E { Va { z: W0 }, Vb(F1) }",
            "from_variant",
            "W0: From<A0>",
        ),
        mk(
            "#[derive(Debug, Clone, PartialEq, derive_more::Into)]\n#[into((X0, X1))]\npub struct S(W0);",
            into_run,
            "pub struct S(W0);",
            "into_struct",
            "X0: From<W0>",
        ),
        mk(
            "#[derive(Debug, Clone, PartialEq, derive_more::Into)]\npub struct S(#[into((X0, X1))] W0, F1);",
            &into_run.replace("S(W0(11, 22))", "S(W0(11, 22), F1::v(5))"),
            "pub struct S(W0, F1);",
            "into_field",
            "X0: From<W0>",
        ),
    ]
}

/// Defect model `c08-single-field-tuple-type`: with exactly one field, a listed *tuple* type is split into
/// its components (`FieldsExt::validate_type` returns the tuple's elements whatever the number of fields), so
/// the impl for the listed tuple converts the whole value with `From<first component>` and rustc rejects the
/// expansion with exactly that unsatisfied bound (plus the mismatched-types error it entails).
fn classify(c: &GenCase, r: &CaseResult, f: &Finding) -> Option<String> {
    if c.meta["kind"] == "single_field_tuple_type" && !r.compiled && f.expected == "compiles" {
        let bound = c.meta["predicted_unsatisfied_bound"].as_str()?;
        let only_expected_codes = r.errors.iter().all(|e| matches!(e.code.as_deref(), Some("E0277") | Some("E0308")));
        let names_bound = r.errors.iter().any(|e| e.code.as_deref() == Some("E0277") && e.message.contains(&format!("`{bound}`")));
        if only_expected_codes && names_bound {
            return Some("c08-single-field-tuple-type".into());
        }
    }
    None
}

pub fn prop() -> DiceProp {
    DiceProp {
        crate_name: "gen_c08",
        prelude: PRELUDE.to_string(),
        crate_attrs: String::new(),
        nightly: false,
        check_only: false,
        ndice: NDICE,
        quick: (4000, 1),
        thorough: (6000, 5),
        build,
        fixed,
        classify,
        rule: "one struct deriving a non-empty subset of From/Into/Constructor (unit, tuple, named; 0..4 fields) or one enum deriving From (1..4 variants with 0..3 fields), field types pairwise distinct / all equal / partly equal newtypes with pairwise distinct values and non-alphabetical declaration order; attributes: none, #[from], #[from(skip|ignore)], #[from(T..)] incl. tuple types and repeated attributes, #[from(forward)] on struct and variant; listed types also written as `&'static A`, `Box<X>`, the unsized `[Q]` (reference kinds), `crate::X`, `<X as Id>::T`, `(X)`, with trailing commas in tuple types and lists; a field whose type is written as a tuple type `(T4, u8)`; raw-identifier field names; an unused const parameter on the struct/enum (used through a type alias); plain-list and wrapped-kind #[into] attributes on one item, a kind written bare after its type list; #[into], #[into(T..)], #[into(owned|ref|ref_mut[(T..)])], repeated, field-level conversions, skip/ignore, skip together with a field conversion; plus inputs that must be rejected (listed type of wrong arity, Into/Constructor on an enum). Oracle inside the program: converted value == literal with the i-th component in the i-th field; Into components == the non-skipped fields in declaration order, ref/ref_mut components have the fields' addresses and writes through them reach exactly those fields; round trips are the identity; the sorted log of user-level From impls executed == one per converted field; `T: From<U>` holds exactly for the pairs the documented rules give, over the listed types and systematic near misses (own tuple, all-A tuple, F/A/B substitutions, other family, reversed, one field less/more, unit, other reference kind, per-field) plus the impl headers nominated by the in-process expansion. non-trivial = >=2 fields, or an attribute, or an enum with >=2 variants; distinct by program text".into(),
        assumptions: vec![
            "the inherent-const-vs-blanket-trait probe decides `T: From<U>` for concrete types (verified against present and absent impls)".into(),
            "field types are local newtypes without generics; generic parameters are C01's domain".into(),
        ],
        floors: vec![
            ("kind=enum".into(), 0.2),
            ("derive=Into".into(), 0.25),
            ("derive=Constructor".into(), 0.12),
            ("types=all_equal".into(), 0.1),
            ("types=pairwise_distinct".into(), 0.25),
            ("from_attr=types".into(), 0.15),
            ("from_attr=forward".into(), 0.1),
            ("from_attr=skip".into(), 0.08),
            ("from_attr=empty".into(), 0.08),
            ("from_tuple_types".into(), 0.06),
            ("from_repeated_attr".into(), 0.03),
            ("from_converting_multi_field".into(), 0.1),
            ("unannotated_variant_in_explicit_mode".into(), 0.08),
            ("explicit_mode_by_types_or_forward_only".into(), 0.03),
            ("fieldless_variant_without_impl".into(), 0.04),
            ("into_kind=ref".into(), 0.05),
            ("into_kind=ref_mut".into(), 0.05),
            ("into_typed_owned".into(), 0.05),
            ("into_typed_ref".into(), 0.01),
            ("into_typed_ref_mut".into(), 0.01),
            ("into_tuple_types".into(), 0.025),
            ("into_skip".into(), 0.08),
            ("into_skip_before_kept_field".into(), 0.04),
            ("into_field_level".into(), 0.06),
            ("into_field_attr_suppresses_struct_level".into(), 0.025),
            ("into_skip_and_field_conversion".into(), 0.01),
            ("into_repeated_attr".into(), 0.025),
            ("roundtrip".into(), 0.05),
            ("negative".into(), 0.02),
            ("listed_type_not_an_identifier".into(), 0.08),
            ("listed_reference_type".into(), 0.05),
            ("listed_generic_path_type".into(), 0.02),
            ("listed_unsized_type".into(), 0.008),
            ("listed_type_respelled".into(), 0.04),
            ("trailing_comma".into(), 0.03),
            ("into_plain_and_wrapped_attrs".into(), 0.015),
            ("into_kind_typed_then_bare".into(), 0.004),
            ("field_of_tuple_type".into(), 0.07),
            ("sole_field_of_tuple_type".into(), 0.02),
            ("raw_ident_fields".into(), 0.04),
            ("const_generic_struct".into(), 0.03),
        ],
        shards: 0,
    }
}

/// The inputs that must be rejected are additionally expanded in-process: the rejection has to come from the derive
/// itself (a diagnostic, or its explicit "only structs" panic), not from an accident of the generated program.
fn confirm_negatives_inproc(p: &DiceProp, ctx: &super::core::Ctx, rep: &mut super::core::Report) {
    use proptest::strategy::ValueTree;
    let strat = ProgProp::strategy(p, ctx);
    let (n, _) = ProgProp::budget(p, ctx.tier);
    let mut runner = ctx.runner(0);
    let mut confirmed = 0u64;
    for t in super::core::draw(&mut runner, &strat, n) {
        let c = t.current();
        if c.expect_compile || c.meta["kind"] != "negative" {
            continue;
        }
        let Some(derive) = ["From", "Into", "Constructor"].iter().find(|n| c.body.contains(&format!("derive(derive_more::{n})"))).and_then(|n| dm::Derive::by_name(n)) else { continue };
        match dm::expand_src(derive, &c.body) {
            Ok(dm::Outcome::Err(_)) => confirmed += 1,
            Ok(dm::Outcome::Panic(pi)) if dm::is_deliberate(&pi) => confirmed += 1,
            Ok(o) => rep.violations.push(super::core::Violation {
                sig: None,
                summary: format!("an input the documentation excludes ({}) is not rejected by the derive itself ({})", c.meta["what"].as_str().unwrap_or("?"), o.kind()),
                case: json!({"inproc_item": c.body}),
                expected: "a diagnostic from the derive".into(),
                observed: o.kind().into(),
            }),
            Err(e) => rep.infra_errors.push(format!("negative item does not parse: {e}: {}", c.body)),
        }
    }
    rep.evidence.add("negatives_confirmed_inproc", confirmed);
}

pub fn run(ctx: &super::core::Ctx) -> super::core::Report {
    let p = prop();
    let mut rep = super::progprop::run(&p, ctx);
    confirm_negatives_inproc(&p, ctx, &mut rep);
    rep
}

pub fn replay(ctx: &super::core::Ctx, case: &serde_json::Value) -> super::core::Report {
    super::progprop::replay(&prop(), ctx, case)
}

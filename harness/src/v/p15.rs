//! C15 — expansions depend on no name from the caller's scope.
//!
//! Metamorphic: every case is emitted twice into the same program — `mod friendly` (normal prelude) and
//! `#[no_implicit_prelude] mod hostile { use ::derive_more; <shadow set> <same items, user tokens absolute> }`.
//! The hostile copy must compile iff the friendly one does and the observations of both must be equal.
//! (A) generated items: the C01 item generator (all 50 derives, all shapes/generics/attributes), compile-level;
//! (B) behaviour templates per derive family executed in both modules (panics, error texts, sources, parses).
use super::core::*;
use super::p01;
use super::proggen::CaseResult;
use super::progprop::*;
use proc_macro2::{Delimiter, TokenStream, TokenTree};
use serde_json::json;

pub const PRELUDE: &str = include_str!("../../support/universal.rs");

/// (name, text) of the shadow sets. Every shadow turns a captured name into a compile error or a visibly
/// different behaviour; user tokens never mention these names (they are written with absolute paths).
pub const SHADOWS: [(&str, &str); 7] = [
    ("none", ""),
    (
        "types",
        "pub struct Result; pub struct Option; pub struct String; pub struct Vec; pub struct Box; pub struct Formatter; pub struct Request; pub struct Self_;",
    ),
    (
        "values",
        "#[allow(non_snake_case)] pub fn Ok() {} #[allow(non_snake_case)] pub fn Err() {} #[allow(non_snake_case)] pub fn Some() {} #[allow(non_upper_case_globals)] pub const None: u8 = 0;",
    ),
    (
        "traits",
        "pub trait Debug {} pub trait Display {} pub trait From {} pub trait Into {} pub trait Error {} pub trait Iterator {} pub trait IntoIterator {} pub trait Default {} pub trait Clone {} pub trait Copy {} pub trait Sized {} pub trait Send {} pub trait Sync {} pub trait FromStr {} pub trait TryFrom {} pub trait TryInto {} pub trait AsRef {} pub trait AsMut {} pub trait Deref {} pub trait DerefMut {} pub trait Add {} pub trait Mul {} pub trait Not {} pub trait Neg {} pub trait Sum {} pub trait Product {} pub trait Index {} pub trait IndexMut {} pub trait Fn {} pub trait ToString {}",
    ),
    (
        "macros",
        "macro_rules! panic { ($($t:tt)*) => { ::core::compile_error!(\"captured local panic!\") } } macro_rules! write { ($($t:tt)*) => { ::core::compile_error!(\"captured local write!\") } } macro_rules! format_args { ($($t:tt)*) => { ::core::compile_error!(\"captured local format_args!\") } } macro_rules! matches { ($($t:tt)*) => { ::core::compile_error!(\"captured local matches!\") } } macro_rules! stringify { ($($t:tt)*) => { ::core::compile_error!(\"captured local stringify!\") } } macro_rules! unreachable { ($($t:tt)*) => { ::core::compile_error!(\"captured local unreachable!\") } } macro_rules! assert { ($($t:tt)*) => { ::core::compile_error!(\"captured local assert!\") } } macro_rules! format { ($($t:tt)*) => { ::core::compile_error!(\"captured local format!\") } } macro_rules! concat { ($($t:tt)*) => { ::core::compile_error!(\"captured local concat!\") } }",
    ),
    (
        "silent_macros",
        // captures that still compile: a captured `panic!` no longer panics, a captured `stringify!` yields another text
        "macro_rules! panic { ($($t:tt)*) => { ::core::panic!(\"captured local panic!\") } } macro_rules! stringify { ($($t:tt)*) => { \"captured\" } }",
    ),
    (
        "variants",
        "pub enum Shadow { Ok, Err, Some, None, Result, Option } pub use self::Shadow::*;",
    ),
];

/// Rewrites user tokens so that they resolve without any prelude.
pub fn absolutize(src: &str) -> String {
    let ts: TokenStream = match src.parse() {
        Ok(t) => t,
        Err(_) => return src.to_string(),
    };
    fn map_ident(s: &str) -> Option<&'static str> {
        Some(match s {
            "U" => "crate::uni::U",
            "L" => "crate::uni::L",
            "A" => "crate::uni::A",
            "Tr" => "crate::uni::Tr",
            "Vec" => "::std::vec::Vec",
            "Option" => "::core::option::Option",
            "Clone" => "::core::clone::Clone",
            "Default" => "::core::default::Default",
            "Copy" => "::core::marker::Copy",
            "Sized" => "::core::marker::Sized",
            "Debug" => "::core::fmt::Debug",
            "core" => "::core",
            "derive_more" => "::derive_more",
            _ => return None,
        })
    }
    fn walk(ts: TokenStream, out: &mut String) {
        let tts: Vec<TokenTree> = ts.into_iter().collect();
        let mut prev_pathsep = false;
        let mut i = 0;
        while i < tts.len() {
            match &tts[i] {
                TokenTree::Group(g) => {
                    let (o, c) = match g.delimiter() {
                        Delimiter::Parenthesis => ("(", ")"),
                        Delimiter::Brace => ("{", "}"),
                        Delimiter::Bracket => ("[", "]"),
                        Delimiter::None => ("", ""),
                    };
                    out.push_str(o);
                    walk(g.stream(), out);
                    out.push_str(c);
                    out.push(' ');
                    prev_pathsep = false;
                }
                TokenTree::Ident(id) => {
                    let s = id.to_string();
                    match map_ident(&s) {
                        Some(r) if !prev_pathsep => out.push_str(r),
                        _ => out.push_str(&s),
                    }
                    out.push(' ');
                    prev_pathsep = false;
                }
                TokenTree::Punct(p) => {
                    out.push(p.as_char());
                    if p.spacing() == proc_macro2::Spacing::Alone {
                        out.push(' ');
                    }
                    // `::` = ':' Joint followed by ':'
                    if p.as_char() == ':' && i > 0 {
                        if let TokenTree::Punct(pp) = &tts[i - 1] {
                            if pp.as_char() == ':' && pp.spacing() == proc_macro2::Spacing::Joint {
                                prev_pathsep = true;
                                i += 1;
                                continue;
                            }
                        }
                    }
                    if !(p.as_char() == ':' && p.spacing() == proc_macro2::Spacing::Joint) {
                        prev_pathsep = false;
                    }
                }
                TokenTree::Literal(l) => {
                    out.push_str(&l.to_string());
                    out.push(' ');
                    prev_pathsep = false;
                }
            }
            i += 1;
        }
    }
    let mut out = String::new();
    walk(ts, &mut out);
    out
}

fn hostile_mod(shadow: &str, items: &str, name: &str) -> String {
    format!("#[no_implicit_prelude]\npub mod {name} {{\n    use ::derive_more;\n    {shadow}\n    {}\n}}\n", absolutize(items))
}

// ------------------------------------------------------------------------------------------------
// (B) behaviour templates: (label, items, driver macro body using `$m::`), the driver returns a String

pub const TEMPLATES: [(&str, &str, &str); 23] = [
    ("Mul_forward_enum", "#[derive(derive_more::Mul, Debug)] #[mul(forward)] pub enum E { Alpha(U), Beta { a: U }, Gamma }",
     "{ let r = |a: $m::E, b: $m::E| format!(\"{:?}\", (a * b).map_err(|e| e.to_string())); format!(\"{}|{}|{}\", r($m::E::Alpha(U(2)), $m::E::Alpha(U(3))), r($m::E::Alpha(U(1)), $m::E::Beta { a: U(2) }), r($m::E::Gamma, $m::E::Gamma)) }"),
    ("Unwrap", "#[derive(derive_more::Unwrap, Debug)] #[unwrap(owned, ref, ref_mut)] pub enum E { Alpha(U), Beta, r#Type(U, U) }",
     "{ let a = format!(\"{:?}\", crate::__catch(|| $m::E::Beta.unwrap_alpha())); let b = format!(\"{:?}\", crate::__catch(|| $m::E::Alpha(U(1)).unwrap_alpha())); let c = format!(\"{:?}\", crate::__catch(|| { let mut v = $m::E::Beta; let _ = v.unwrap_type_mut(); })); format!(\"{a}|{b}|{c}\") }"),
    ("TryUnwrap", "#[derive(derive_more::TryUnwrap, Debug)] #[try_unwrap(owned, ref, ref_mut)] pub enum E { Alpha(U), Beta, r#Type(U, U) }",
     "{ let a = match $m::E::Beta.try_unwrap_alpha() { Ok(_) => \"ok\".to_string(), Err(e) => format!(\"{e}\") }; let b = format!(\"{:?}\", $m::E::Alpha(U(1)).try_unwrap_alpha().map_err(|e| e.to_string())); let c = match $m::E::Beta.try_unwrap_type_ref() { Ok(_) => \"ok\".to_string(), Err(e) => format!(\"{e}\") }; format!(\"{a}|{b}|{c}\") }"),
    ("IsVariant", "#[derive(derive_more::IsVariant)] pub enum E { Alpha(U), BetaGamma, Delta { a: U } }",
     "{ format!(\"{} {} {}\", $m::E::Alpha(U(1)).is_alpha(), $m::E::BetaGamma.is_alpha(), $m::E::Delta { a: U(2) }.is_delta()) }"),
    ("TryInto", "#[derive(derive_more::TryInto, Debug)] #[try_into(owned, ref, ref_mut)] pub enum E { Alpha(i64), Beta(&'static str), Gamma }",
     "{ let a: Result<i64, _> = $m::E::Alpha(3).try_into(); let b: Result<i64, _> = $m::E::Gamma.try_into(); let v = $m::E::Alpha(4); let c: Result<&i64, _> = (&v).try_into(); format!(\"{:?}|{}|{:?}\", a.map_err(|e| e.to_string()), b.map(|_| ()).map_err(|e| e.to_string()).unwrap_err(), c.map_err(|e| e.to_string())) }"),
    ("TryFrom", "#[derive(derive_more::TryFrom, Debug)] #[try_from(repr)] #[repr(u8)] pub enum E { Alpha = 1, Beta, Gamma = 9 }",
     "{ format!(\"{:?}|{:?}|{}\", $m::E::try_from(2u8).map_err(|e| e.to_string()), $m::E::try_from(9u8).map_err(|e| e.to_string()), $m::E::try_from(7u8).unwrap_err()) }"),
    ("FromStr_enum", "#[derive(derive_more::FromStr, Debug)] pub enum E { Alpha, ALPHA, Beta }",
     "{ format!(\"{:?}|{:?}|{}\", \"beta\".parse::<$m::E>().map_err(|e| e.to_string()), \"Alpha\".parse::<$m::E>().map_err(|e| e.to_string()), \"alpha\".parse::<$m::E>().unwrap_err()) }"),
    ("FromStr_struct", "#[derive(derive_more::FromStr, Debug)] pub struct S(pub U);",
     "{ format!(\"{:?}|{:?}\", \"42\".parse::<$m::S>(), \"x\".parse::<$m::S>()) }"),
    ("Error_struct", "#[derive(Debug, derive_more::Display, derive_more::Error)] #[display(\"outer\")] pub struct S { pub source: U, pub other: U }",
     "{ let e = $m::S { source: U(5), other: U(6) }; format!(\"{:?}\", ::std::error::Error::source(&e).map(|s| s.to_string())) }"),
    ("Error_enum", "#[derive(Debug, derive_more::Display, derive_more::Error)] pub enum E { #[display(\"a\")] Alpha(U), #[display(\"b\")] Beta { #[error(not(source))] source: U }, #[display(\"c\")] Gamma, #[display(\"d\")] Delta(#[error(source)] U, U) }",
     "{ let s = |e: $m::E| format!(\"{:?}\", ::std::error::Error::source(&e).map(|s| s.to_string())); format!(\"{}|{}|{}|{}\", s($m::E::Alpha(U(1))), s($m::E::Beta { source: U(2) }), s($m::E::Gamma), s($m::E::Delta(U(3), U(4)))) }"),
    ("Add_enum", "#[derive(derive_more::Add, Debug)] pub enum E { Alpha(U), Beta { a: U }, Gamma }",
     "{ let r = |a: $m::E, b: $m::E| format!(\"{:?}\", (a + b).map_err(|e| e.to_string())); format!(\"{}|{}|{}\", r($m::E::Alpha(U(1)), $m::E::Alpha(U(2))), r($m::E::Alpha(U(1)), $m::E::Beta { a: U(2) }), r($m::E::Gamma, $m::E::Gamma)) }"),
    ("Not_enum", "#[derive(derive_more::Not, Debug)] pub enum E { Alpha(U), Gamma }",
     "{ format!(\"{:?}|{:?}\", (!$m::E::Alpha(U(1))).map_err(|e| e.to_string()), (!$m::E::Gamma).map_err(|e| e.to_string())) }"),
    ("Mul_struct", "#[derive(derive_more::Mul, derive_more::MulAssign, Debug, Clone, Copy)] pub struct S(pub U, pub U);",
     "{ let mut s = $m::S(U(2), U(3)); let t = s * 5i32; s *= 7i32; format!(\"{:?}|{:?}\", t, s) }"),
    ("Sum", "#[derive(derive_more::Add, derive_more::Sum, Debug)] pub struct S(pub U, pub U);",
     "{ let v = vec![$m::S(U(1), U(2)), $m::S(U(3), U(4))]; format!(\"{:?}\", v.into_iter().sum::<$m::S>()) }"),
    ("Display_enum", "#[derive(derive_more::Display)] #[display(rename_all = \"snake_case\")] pub enum E { AlphaBeta, #[display(\"g={_0} {}\", _1)] Gamma(U, U), Delta(U) }",
     "{ format!(\"{}|{}|{:>6}\", $m::E::AlphaBeta, $m::E::Gamma(U(1), U(2)), $m::E::Delta(U(3))) }"),
    ("Display_shared", "#[derive(derive_more::Display)] #[display(\"<{_variant}>\")] pub enum E { Alpha, #[display(\"b{_0}\")] Beta(U), Gamma(U) }",
     "{ format!(\"{}|{}|{}\", $m::E::Alpha, $m::E::Beta(U(1)), $m::E::Gamma(U(2))) }"),
    ("Debug", "#[derive(derive_more::Debug)] pub struct S { pub a: U, #[debug(skip)] pub b: U, #[debug(\"{:x}\", c.0)] pub c: U } #[derive(derive_more::Debug)] pub enum E { Alpha(U, #[debug(ignore)] U), Beta }",
     "{ format!(\"{:?}|{:#?}|{:?}|{:?}\", $m::S { a: U(1), b: U(2), c: U(255) }, $m::S { a: U(1), b: U(2), c: U(255) }, $m::E::Alpha(U(1), U(2)), $m::E::Beta) }"),
    ("From_Into", "#[derive(derive_more::From, derive_more::Into, Debug)] #[into(owned, ref, ref_mut)] pub struct S(pub U, pub L<'static>); #[derive(derive_more::From, Debug)] pub enum E { #[from(forward)] Alpha(U), Beta(U, U) }",
     "{ let s: $m::S = (U(1), L(&crate::uni::ZERO, 2)).into(); let (a, b): (U, L<'static>) = s.into(); let e: $m::E = 5i64.into(); format!(\"{:?} {:?} {:?}\", a, b, e) }"),
    ("Constructor", "#[derive(derive_more::Constructor, Debug)] pub struct S { a: U, b: L<'static> }",
     "{ format!(\"{:?}\", $m::S::new(U(1), L(&crate::uni::ZERO, 2))) }"),
    ("Deref_Index_Iter", "#[derive(derive_more::Deref, derive_more::DerefMut, derive_more::Index, derive_more::IndexMut, derive_more::IntoIterator, Debug)] #[deref(forward)] #[deref_mut(forward)] #[into_iterator(owned, ref, ref_mut)] pub struct S(pub U);",
     "{ let mut s = $m::S(U(4)); *s += 1; s[0] += 1; let r: Vec<&i64> = (&s).into_iter().collect(); let r = format!(\"{:?}\", r); let d0: i64 = *s; format!(\"{} {} {:?}\", d0, r, s.into_iter().collect::<Vec<i64>>()) }"),
    ("AsRef", "#[derive(derive_more::AsRef, derive_more::AsMut)] #[as_ref(forward)] #[as_mut(forward)] pub struct S(pub U); #[derive(derive_more::AsRef)] pub struct S2 { #[as_ref] pub a: U, pub b: L<'static> } #[derive(derive_more::AsRef)] #[as_ref(i64, U)] pub struct S3(pub U);",
     "{ let mut s = $m::S(U(4)); *AsMut::<i64>::as_mut(&mut s) += 1; let a: &i64 = s.as_ref(); let s2 = $m::S2 { a: U(7), b: L(&crate::uni::ZERO, 1) }; let u: &U = s2.as_ref(); let s3 = $m::S3(U(9)); let x: &i64 = s3.as_ref(); let y: &U = s3.as_ref(); format!(\"{a} {u:?} {x} {y:?}\") }"),
    ("AddAssign", "#[derive(derive_more::AddAssign, derive_more::Neg, Debug)] pub struct S { pub a: U, pub b: U }",
     "{ let mut s = $m::S { a: U(1), b: U(2) }; s += $m::S { a: U(3), b: U(4) }; format!(\"{:?} {:?}\", -$m::S { a: U(1), b: U(2) }, s) }"),
    ("Pointer_fmt", "#[derive(derive_more::LowerHex, derive_more::Binary, derive_more::UpperExp)] #[lower_hex(\"{_0:x}!\")] #[binary(\"{:b}\", _0)] pub struct S(pub U);",
     "{ format!(\"{:x}|{:b}|{:E}\", $m::S(U(255)), $m::S(U(5)), $m::S(U(1200))) }"),
];

fn build(d: &mut Dice) -> GenCase {
    let si = d.pick(SHADOWS.len());
    let (sname, shadow) = SHADOWS[si];
    if d.chance(25) {
        // (B) behaviour template
        let (label, items, driver) = TEMPLATES[d.pick(TEMPLATES.len())];
        let friendly = format!("pub mod friendly {{\n    #[allow(unused_imports)] use crate::*;\n    {items}\n}}\n");
        // std `Debug`/`Clone`/`Copy` derives are user tokens: made absolute by `absolutize` where needed
        let hostile = hostile_mod(shadow, &items.replace("Clone, Copy", "::core::clone::Clone, ::core::marker::Copy"), "hostile");
        let body = format!(
            "{friendly}{hostile}macro_rules! drive {{ ($m:ident) => {{ {driver} }} }}\npub fn run(o: &mut Out) {{\n    let f: String = drive!(friendly);\n    let h: String = drive!(hostile);\n    o.put(\"friendly\", &f);\n    o.eq(\"hostile scope behaves like the friendly scope\", &f, &h);\n}}"
        );
        let mut c = GenCase::new(body);
        c.control = Some(format!("{friendly}macro_rules! drive {{ ($m:ident) => {{ {driver} }} }}\npub fn run(o: &mut Out) {{ let f: String = drive!(friendly); o.put(\"friendly\", &f); }}"));
        c.labels = vec![format!("shadow={sname}"), "kind=behaviour".into(), format!("template={label}")];
        c.nontrivial = true;
        c.meta = json!({"shadow": sname, "template": label});
        return c;
    }
    // (A) generated item from the C01 generator
    let (item, mut labels, extra) = p01::build_item_pub(d);
    let items = format!("{}\n{}", extra.join("\n"), item.render(true));
    let friendly = format!("pub mod friendly {{\n    #[allow(unused_imports)] use crate::*;\n    {items}\n}}\n");
    let hostile = hostile_mod(shadow, &items, "hostile");
    let mut c = GenCase::new(format!("{friendly}{hostile}"));
    c.runnable = false;
    c.control = Some(friendly);
    labels.retain(|l| l.starts_with("class=") || l.starts_with("derive="));
    labels.push(format!("shadow={sname}"));
    labels.push("kind=generated".into());
    for l in labels.clone() {
        if let Some(cl) = l.strip_prefix("class=") {
            labels.push(format!("cell={cl}/{sname}"));
        }
    }
    c.labels = labels;
    c.nontrivial = true;
    c.meta = json!({"shadow": sname});
    c
}

fn classify(_c: &GenCase, r: &CaseResult, _f: &Finding) -> Option<String> {
    let t = r.error_text();
    // defect models of recorded findings (used only when listed): unqualified names in specific expansions
    if t.contains("derive_more::Error") || t.contains("derive macro `derive_more::Error`") {
        if t.contains("`Option`") || t.contains("`Some`") || t.contains("`None`") {
            return Some("c15-error-bare-option".into());
        }
    }
    None
}

fn fixed() -> Vec<GenCase> {
    // every behaviour template under every shadow set
    let mut v = vec![];
    for (ti, _) in TEMPLATES.iter().enumerate() {
        for (si, _) in SHADOWS.iter().enumerate() {
            // dice that select: shadow si, behaviour branch, template ti
            let n = SHADOWS.len();
            let s = (((si * 65536) / n) + 65536 / (2 * n)) as u16;
            let t = (((ti * 65536) / TEMPLATES.len()) + 65536 / (2 * TEMPLATES.len())) as u16;
            v.push(build(&mut Dice::new(vec![s, 65535, t])));
        }
    }
    v
}

pub fn prop() -> DiceProp {
    DiceProp {
        crate_name: "gen_c15",
        prelude: PRELUDE.to_string(),
        crate_attrs: String::new(),
        nightly: false,
        check_only: false,
        ndice: 210,
        quick: (6000, 1),
        thorough: (5000, 8),
        build,
        fixed,
        classify,
        rule: "pairs (friendly module, `#[no_implicit_prelude]` hostile module with a shadow set) of (A) items from the C01 generator (all 50 derives x shapes x generics x documented attributes) and (B) 23 behaviour templates per derive family x 7 shadow sets (none = pure no-prelude; local types Result/Option/String/Vec/Box; local fns/consts Ok/Err/Some/None; local traits Debug/Display/From/...; local macro_rules panic/write/format_args/matches/stringify/... that turn a capture into a compile error; silently capturing macros; glob-imported enum variants named Ok/Err/Some/None); oracle: the hostile copy compiles whenever the friendly one does and the driver's observation string (formatting results, panics, error texts, sources, parses) is identical in both; non-trivial = every case (the hostile scope always lacks the prelude); distinct by program text".into(),
        assumptions: vec!["user tokens of the generated items are written with absolute paths in the hostile module (token-level rewrite), so only tokens produced by the expansion can depend on the scope".into()],
        // behaviour templates are a fixed set of 22 x 7 programs (all of them run in round 0), so their share shrinks with the tier
        floors: vec![("kind=behaviour".into(), 0.003), ("shadow=macros".into(), 0.08), ("shadow=none".into(), 0.08), ("shadow=types".into(), 0.08), ("shadow=values".into(), 0.08), ("shadow=traits".into(), 0.08)],
        shards: 0,
    }
}

pub fn run(ctx: &Ctx) -> Report {
    super::progprop::run(&prop(), ctx)
}

pub fn replay(ctx: &Ctx, case: &serde_json::Value) -> Report {
    super::progprop::replay(&prop(), ctx, case)
}

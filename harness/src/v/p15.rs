//! C15 — expansions depend on no name from the caller's scope.
//!
//! Metamorphic: every case is emitted twice into the same program — `mod friendly` (normal prelude) and
//! `#[no_implicit_prelude] mod hostile { use ::derive_more; <shadow set> <same items, user tokens absolute> }`.
//! The hostile copy must compile iff the friendly one does and the observations of both must be equal.
//! (A) generated items: the C01 item generator (all 50 derives, all shapes/generics/attributes), compile-level;
//! (B) behaviour templates per derive family executed in both modules (panics, error texts, sources, parses).
use super::core::*;
use super::p01;
use super::proggen::CaseResult;
use super::progprop::*;
use proc_macro2::{Delimiter, TokenStream, TokenTree};
use serde_json::json;

pub const PRELUDE: &str = include_str!("../../support/universal.rs");

/// (name, text) of the shadow sets. Every shadow turns a captured name into a compile error or a visibly
/// different behaviour; user tokens never mention these names (they are written with absolute paths).
pub const SHADOWS: [(&str, &str); 7] = [
    ("none", ""),
    (
        "types",
        "pub struct Result; pub struct Option; pub struct String; pub struct Vec; pub struct Box; pub struct Formatter; pub struct Request; pub struct Self_;",
    ),
    (
        "values",
        "#[allow(non_snake_case)] pub fn Ok() {} #[allow(non_snake_case)] pub fn Err() {} #[allow(non_snake_case)] pub fn Some() {} #[allow(non_upper_case_globals)] pub const None: u8 = 0;",
    ),
    (
        "traits",
        "pub trait Debug {} pub trait Display {} pub trait From {} pub trait Into {} pub trait Error {} pub trait Iterator {} pub trait IntoIterator {} pub trait Default {} pub trait Clone {} pub trait Copy {} pub trait Sized {} pub trait Send {} pub trait Sync {} pub trait FromStr {} pub trait TryFrom {} pub trait TryInto {} pub trait AsRef {} pub trait AsMut {} pub trait Deref {} pub trait DerefMut {} pub trait Add {} pub trait Mul {} pub trait Not {} pub trait Neg {} pub trait Sum {} pub trait Product {} pub trait Index {} pub trait IndexMut {} pub trait Fn {} pub trait ToString {}",
    ),
    (
        "macros",
        "macro_rules! panic { ($($t:tt)*) => { ::core::compile_error!(\"captured local panic!\") } } macro_rules! write { ($($t:tt)*) => { ::core::compile_error!(\"captured local write!\") } } macro_rules! format_args { ($($t:tt)*) => { ::core::compile_error!(\"captured local format_args!\") } } macro_rules! matches { ($($t:tt)*) => { ::core::compile_error!(\"captured local matches!\") } } macro_rules! stringify { ($($t:tt)*) => { ::core::compile_error!(\"captured local stringify!\") } } macro_rules! unreachable { ($($t:tt)*) => { ::core::compile_error!(\"captured local unreachable!\") } } macro_rules! assert { ($($t:tt)*) => { ::core::compile_error!(\"captured local assert!\") } } macro_rules! format { ($($t:tt)*) => { ::core::compile_error!(\"captured local format!\") } } macro_rules! concat { ($($t:tt)*) => { ::core::compile_error!(\"captured local concat!\") } }",
    ),
    (
        "silent_macros",
        // captures that still compile: a captured `panic!` no longer panics, a captured `stringify!` yields another text
        "macro_rules! panic { ($($t:tt)*) => { ::core::panic!(\"captured local panic!\") } } macro_rules! stringify { ($($t:tt)*) => { \"captured\" } }",
    ),
    (
        "variants",
        "pub enum Shadow { Ok, Err, Some, None, Result, Option } pub use self::Shadow::*;",
    ),
];

/// Rewrites user tokens so that they resolve without any prelude.
pub fn absolutize(src: &str) -> String {
    let ts: TokenStream = match src.parse() {
        Ok(t) => t,
        Err(_) => return src.to_string(),
    };
    fn map_ident(s: &str) -> Option<&'static str> {
        Some(match s {
            "U" => "crate::uni::U",
            "L" => "crate::uni::L",
            "A" => "crate::uni::A",
            "Tr" => "crate::uni::Tr",
            "Vec" => "::std::vec::Vec",
            "Option" => "::core::option::Option",
            "Clone" => "::core::clone::Clone",
            "Default" => "::core::default::Default",
            "Copy" => "::core::marker::Copy",
            "Sized" => "::core::marker::Sized",
            "Debug" => "::core::fmt::Debug",
            "core" => "::core",
            "derive_more" => "::derive_more",
            _ => return None,
        })
    }
    fn walk(ts: TokenStream, out: &mut String) {
        let tts: Vec<TokenTree> = ts.into_iter().collect();
        let mut prev_pathsep = false;
        let mut i = 0;
        while i < tts.len() {
            match &tts[i] {
                TokenTree::Group(g) => {
                    let (o, c) = match g.delimiter() {
                        Delimiter::Parenthesis => ("(", ")"),
                        Delimiter::Brace => ("{", "}"),
                        Delimiter::Bracket => ("[", "]"),
                        Delimiter::None => ("", ""),
                    };
                    out.push_str(o);
                    walk(g.stream(), out);
                    out.push_str(c);
                    out.push(' ');
                    prev_pathsep = false;
                }
                TokenTree::Ident(id) => {
                    let s = id.to_string();
                    match map_ident(&s) {
                        Some(r) if !prev_pathsep => out.push_str(r),
                        _ => out.push_str(&s),
                    }
                    out.push(' ');
                    prev_pathsep = false;
                }
                TokenTree::Punct(p) => {
                    out.push(p.as_char());
                    if p.spacing() == proc_macro2::Spacing::Alone {
                        out.push(' ');
                    }
                    // `::` = ':' Joint followed by ':'
                    if p.as_char() == ':' && i > 0 {
                        if let TokenTree::Punct(pp) = &tts[i - 1] {
                            if pp.as_char() == ':' && pp.spacing() == proc_macro2::Spacing::Joint {
                                prev_pathsep = true;
                                i += 1;
                                continue;
                            }
                        }
                    }
                    if !(p.as_char() == ':' && p.spacing() == proc_macro2::Spacing::Joint) {
                        prev_pathsep = false;
                    }
                }
                TokenTree::Literal(l) => {
                    out.push_str(&l.to_string());
                    out.push(' ');
                    prev_pathsep = false;
                }
            }
            i += 1;
        }
    }
    let mut out = String::new();
    walk(ts, &mut out);
    out
}

fn hostile_mod(shadow: &str, items: &str, name: &str) -> String {
    format!("#[no_implicit_prelude]\npub mod {name} {{\n    use ::derive_more;\n    {shadow}\n    {}\n}}\n", absolutize(items))
}

// ------------------------------------------------------------------------------------------------
// (B) behaviour templates: (label, items, driver macro body using `$m::`), the driver returns a String

pub const TEMPLATES: [(&str, &str, &str); 23] = [
    ("Mul_forward_enum", "#[derive(derive_more::Mul, Debug)] #[mul(forward)] pub enum E { Alpha(U), Beta { a: U }, Gamma }",
     "{ let r = |a: $m::E, b: $m::E| format!(\"{:?}\", (a * b).map_err(|e| e.to_string())); format!(\"{}|{}|{}\", r($m::E::Alpha(U(2)), $m::E::Alpha(U(3))), r($m::E::Alpha(U(1)), $m::E::Beta { a: U(2) }), r($m::E::Gamma, $m::E::Gamma)) }"),
    ("Unwrap", "#[derive(derive_more::Unwrap, Debug)] #[unwrap(owned, ref, ref_mut)] pub enum E { Alpha(U), Beta, r#Type(U, U) }",
     "{ let a = format!(\"{:?}\", crate::__catch(|| $m::E::Beta.unwrap_alpha())); let b = format!(\"{:?}\", crate::__catch(|| $m::E::Alpha(U(1)).unwrap_alpha())); let c = format!(\"{:?}\", crate::__catch(|| { let mut v = $m::E::Beta; let _ = v.unwrap_type_mut(); })); format!(\"{a}|{b}|{c}\") }"),
    ("TryUnwrap", "#[derive(derive_more::TryUnwrap, Debug)] #[try_unwrap(owned, ref, ref_mut)] pub enum E { Alpha(U), Beta, r#Type(U, U) }",
     "{ let a = match $m::E::Beta.try_unwrap_alpha() { Ok(_) => \"ok\".to_string(), Err(e) => format!(\"{e}\") }; let b = format!(\"{:?}\", $m::E::Alpha(U(1)).try_unwrap_alpha().map_err(|e| e.to_string())); let c = match $m::E::Beta.try_unwrap_type_ref() { Ok(_) => \"ok\".to_string(), Err(e) => format!(\"{e}\") }; format!(\"{a}|{b}|{c}\") }"),
    ("IsVariant", "#[derive(derive_more::IsVariant)] pub enum E { Alpha(U), BetaGamma, Delta { a: U } }",
     "{ format!(\"{} {} {}\", $m::E::Alpha(U(1)).is_alpha(), $m::E::BetaGamma.is_alpha(), $m::E::Delta { a: U(2) }.is_delta()) }"),
    ("TryInto", "#[derive(derive_more::TryInto, Debug)] #[try_into(owned, ref, ref_mut)] pub enum E { Alpha(i64), Beta(&'static str), Gamma }",
     "{ let a: Result<i64, _> = $m::E::Alpha(3).try_into(); let b: Result<i64, _> = $m::E::Gamma.try_into(); let v = $m::E::Alpha(4); let c: Result<&i64, _> = (&v).try_into(); format!(\"{:?}|{}|{:?}\", a.map_err(|e| e.to_string()), b.map(|_| ()).map_err(|e| e.to_string()).unwrap_err(), c.map_err(|e| e.to_string())) }"),
    ("TryFrom", "#[derive(derive_more::TryFrom, Debug)] #[try_from(repr)] #[repr(u8)] pub enum E { Alpha = 1, Beta, Gamma = 9 }",
     "{ format!(\"{:?}|{:?}|{}\", $m::E::try_from(2u8).map_err(|e| e.to_string()), $m::E::try_from(9u8).map_err(|e| e.to_string()), $m::E::try_from(7u8).unwrap_err()) }"),
    ("FromStr_enum", "#[derive(derive_more::FromStr, Debug)] pub enum E { Alpha, ALPHA, Beta }",
     "{ format!(\"{:?}|{:?}|{}\", \"beta\".parse::<$m::E>().map_err(|e| e.to_string()), \"Alpha\".parse::<$m::E>().map_err(|e| e.to_string()), \"alpha\".parse::<$m::E>().unwrap_err()) }"),
    ("FromStr_struct", "#[derive(derive_more::FromStr, Debug)] pub struct S(pub U);",
     "{ format!(\"{:?}|{:?}\", \"42\".parse::<$m::S>(), \"x\".parse::<$m::S>()) }"),
    ("Error_struct", "#[derive(Debug, derive_more::Display, derive_more::Error)] #[display(\"outer\")] pub struct S { pub source: U, pub other: U }",
     "{ let e = $m::S { source: U(5), other: U(6) }; format!(\"{:?}\", ::std::error::Error::source(&e).map(|s| s.to_string())) }"),
    ("Error_enum", "#[derive(Debug, derive_more::Display, derive_more::Error)] pub enum E { #[display(\"a\")] Alpha(U), #[display(\"b\")] Beta { #[error(not(source))] source: U }, #[display(\"c\")] Gamma, #[display(\"d\")] Delta(#[error(source)] U, U) }",
     "{ let s = |e: $m::E| format!(\"{:?}\", ::std::error::Error::source(&e).map(|s| s.to_string())); format!(\"{}|{}|{}|{}\", s($m::E::Alpha(U(1))), s($m::E::Beta { source: U(2) }), s($m::E::Gamma), s($m::E::Delta(U(3), U(4)))) }"),
    ("Add_enum", "#[derive(derive_more::Add, Debug)] pub enum E { Alpha(U), Beta { a: U }, Gamma }",
     "{ let r = |a: $m::E, b: $m::E| format!(\"{:?}\", (a + b).map_err(|e| e.to_string())); format!(\"{}|{}|{}\", r($m::E::Alpha(U(1)), $m::E::Alpha(U(2))), r($m::E::Alpha(U(1)), $m::E::Beta { a: U(2) }), r($m::E::Gamma, $m::E::Gamma)) }"),
    ("Not_enum", "#[derive(derive_more::Not, Debug)] pub enum E { Alpha(U), Gamma }",
     "{ format!(\"{:?}|{:?}\", (!$m::E::Alpha(U(1))).map_err(|e| e.to_string()), (!$m::E::Gamma).map_err(|e| e.to_string())) }"),
    ("Mul_struct", "#[derive(derive_more::Mul, derive_more::MulAssign, Debug, Clone, Copy)] pub struct S(pub U, pub U);",
     "{ let mut s = $m::S(U(2), U(3)); let t = s * 5i32; s *= 7i32; format!(\"{:?}|{:?}\", t, s) }"),
    ("Sum", "#[derive(derive_more::Add, derive_more::Sum, Debug)] pub struct S(pub U, pub U);",
     "{ let v = vec![$m::S(U(1), U(2)), $m::S(U(3), U(4))]; format!(\"{:?}\", v.into_iter().sum::<$m::S>()) }"),
    ("Display_enum", "#[derive(derive_more::Display)] #[display(rename_all = \"snake_case\")] pub enum E { AlphaBeta, #[display(\"g={_0} {}\", _1)] Gamma(U, U), Delta(U) }",
     "{ format!(\"{}|{}|{:>6}\", $m::E::AlphaBeta, $m::E::Gamma(U(1), U(2)), $m::E::Delta(U(3))) }"),
    ("Display_shared", "#[derive(derive_more::Display)] #[display(\"<{_variant}>\")] pub enum E { Alpha, #[display(\"b{_0}\")] Beta(U), Gamma(U) }",
     "{ format!(\"{}|{}|{}\", $m::E::Alpha, $m::E::Beta(U(1)), $m::E::Gamma(U(2))) }"),
    ("Debug", "#[derive(derive_more::Debug)] pub struct S { pub a: U, #[debug(skip)] pub b: U, #[debug(\"{:x}\", c.0)] pub c: U } #[derive(derive_more::Debug)] pub enum E { Alpha(U, #[debug(ignore)] U), Beta }",
     "{ format!(\"{:?}|{:#?}|{:?}|{:?}\", $m::S { a: U(1), b: U(2), c: U(255) }, $m::S { a: U(1), b: U(2), c: U(255) }, $m::E::Alpha(U(1), U(2)), $m::E::Beta) }"),
    ("From_Into", "#[derive(derive_more::From, derive_more::Into, Debug)] #[into(owned, ref, ref_mut)] pub struct S(pub U, pub L<'static>); #[derive(derive_more::From, Debug)] pub enum E { #[from(forward)] Alpha(U), Beta(U, U) }",
     "{ let s: $m::S = (U(1), L(&crate::uni::ZERO, 2)).into(); let (a, b): (U, L<'static>) = s.into(); let e: $m::E = 5i64.into(); format!(\"{:?} {:?} {:?}\", a, b, e) }"),
    ("Constructor", "#[derive(derive_more::Constructor, Debug)] pub struct S { a: U, b: L<'static> }",
     "{ format!(\"{:?}\", $m::S::new(U(1), L(&crate::uni::ZERO, 2))) }"),
    ("Deref_Index_Iter", "#[derive(derive_more::Deref, derive_more::DerefMut, derive_more::Index, derive_more::IndexMut, derive_more::IntoIterator, Debug)] #[deref(forward)] #[deref_mut(forward)] #[into_iterator(owned, ref, ref_mut)] pub struct S(pub U);",
     "{ let mut s = $m::S(U(4)); *s += 1; s[0] += 1; let r: Vec<&i64> = (&s).into_iter().collect(); let r = format!(\"{:?}\", r); let d0: i64 = *s; format!(\"{} {} {:?}\", d0, r, s.into_iter().collect::<Vec<i64>>()) }"),
    ("AsRef", "#[derive(derive_more::AsRef, derive_more::AsMut)] #[as_ref(forward)] #[as_mut(forward)] pub struct S(pub U); #[derive(derive_more::AsRef)] pub struct S2 { #[as_ref] pub a: U, pub b: L<'static> } #[derive(derive_more::AsRef)] #[as_ref(i64, U)] pub struct S3(pub U);",
     "{ let mut s = $m::S(U(4)); *AsMut::<i64>::as_mut(&mut s) += 1; let a: &i64 = s.as_ref(); let s2 = $m::S2 { a: U(7), b: L(&crate::uni::ZERO, 1) }; let u: &U = s2.as_ref(); let s3 = $m::S3(U(9)); let x: &i64 = s3.as_ref(); let y: &U = s3.as_ref(); format!(\"{a} {u:?} {x} {y:?}\") }"),
    ("AddAssign", "#[derive(derive_more::AddAssign, derive_more::Neg, Debug)] pub struct S { pub a: U, pub b: U }",
     "{ let mut s = $m::S { a: U(1), b: U(2) }; s += $m::S { a: U(3), b: U(4) }; format!(\"{:?} {:?}\", -$m::S { a: U(1), b: U(2) }, s) }"),
    ("Pointer_fmt", "#[derive(derive_more::LowerHex, derive_more::Binary, derive_more::UpperExp)] #[lower_hex(\"{_0:x}!\")] #[binary(\"{:b}\", _0)] pub struct S(pub U);",
     "{ format!(\"{:x}|{:b}|{:E}\", $m::S(U(255)), $m::S(U(5)), $m::S(U(1200))) }"),
];


// ------------------------------------------------------------------------------------------------
// additions: further shadow sets, container-level `#[debug("..")]` templates, nightly Error/backtrace templates

/// Candidate defect (reported, not repaired yet): `derive(Error)` calls `<field>.as_dyn_error()` with method-call
/// syntax after a local `use derive_more::__private::AsDynError` (impl/src/error.rs `render_some`); a trait of the
/// caller's scope that offers a method of that name for every type makes the call ambiguous (E0034).
/// While `true`, the shadow set with such a trait is not produced.
const AVOID_METHOD_SYNTAX_CAPTURE_AS_DYN_ERROR: bool = true;
/// Candidate defect / known limit of call-site hygiene (reported): expansions bind plain identifiers (`val`, `value`,
/// `src`, `source`, `__derive_more_f`, ..) that resolve to a constant of the same name in the caller's scope
/// (E0530 / E0308). While `true`, the shadow set with such constants is not produced.
const AVOID_BINDING_NAMES_SHADOWED_BY_CONSTS: bool = true;

/// A trait in scope that offers, for every type, methods named like the ones expansions call with method-call syntax
/// on values whose inherent method must win (`str::to_lowercase`, `String::as_str`, `Formatter::write_str`).
const SHADOW_METHODS: (&str, &str) = (
    "method_traits",
    "pub trait Hijack { fn to_lowercase(&self) -> u8 { 0 } fn as_str(&self) -> u8 { 0 } fn write_str(&self, _: &str) -> u8 { 0 } fn default() -> u8 { 0 } } impl<T: ?::core::marker::Sized> Hijack for T {}",
);
const SHADOW_METHOD_AS_DYN_ERROR: (&str, &str) = (
    "method_trait_as_dyn_error",
    "pub trait Hijack2 { fn as_dyn_error(&self) -> u8 { 0 } } impl<T: ?::core::marker::Sized> Hijack2 for T {}",
);
const SHADOW_BINDING_CONSTS: (&str, &str) = (
    "binding_consts",
    "pub const val: u8 = 0; pub const value: u8 = 0; pub const src: u8 = 0; pub const source: u8 = 0; pub const rhs: u8 = 0; pub const idx: u8 = 0; pub const iter: u8 = 0; pub const request: u8 = 0; pub const backtrace: u8 = 0; pub const field_0: u8 = 0; pub const __0: u8 = 0; pub const _0: u8 = 0; pub const conv: u8 = 0; pub const __derive_more_f: u8 = 0;",
);

/// all shadow sets in use
pub fn shadows() -> Vec<(&'static str, &'static str)> {
    let mut v: Vec<(&str, &str)> = SHADOWS.to_vec();
    v.push(SHADOW_METHODS);
    if !AVOID_METHOD_SYNTAX_CAPTURE_AS_DYN_ERROR {
        v.push(SHADOW_METHOD_AS_DYN_ERROR);
    }
    if !AVOID_BINDING_NAMES_SHADOWED_BY_CONSTS {
        v.push(SHADOW_BINDING_CONSTS);
    }
    v
}

/// further behaviour templates (kept apart from `TEMPLATES`, which C20 reuses)
pub const TEMPLATES_GAP: [(&str, &str, &str); 3] = [
    // debug.md: `#[debug("...", args...)]` "for the whole struct or enum variant"
    ("Debug_container_format", "#[derive(derive_more::Debug)] #[debug(\"S<{a}|{}>\", b.0)] pub struct S { pub a: U, pub b: U } #[derive(derive_more::Debug)] pub enum E { #[debug(\"alpha {_0:?}/{}\", _1.0)] Alpha(U, U), #[debug(\"{_0:x}\")] Beta(U), #[debug(\"gamma\")] Gamma, Delta { d: U } }",
     "{ format!(\"{:?}|{:?}|{:?}|{:?}|{:?}|{:#?}\", $m::S { a: U(1), b: U(2) }, $m::E::Alpha(U(3), U(4)), $m::E::Beta(U(255)), $m::E::Gamma, $m::E::Delta { d: U(5) }, $m::E::Delta { d: U(6) }) }"),
    ("Debug_container_format_generic", "#[derive(derive_more::Debug)] #[debug(\"G<{t:?}>\")] pub struct G<T> { pub t: T } #[derive(derive_more::Debug)] #[debug(\"{_0:?}\")] pub struct H<T>(pub T); #[derive(derive_more::Debug)] #[debug(\"unit\")] pub struct N;",
     "{ format!(\"{:?}|{:?}|{:5?}|{:?}\", $m::G { t: U(1) }, $m::H(U(2)), $m::H(7u8), $m::N) }"),
    ("Display_shared_non_wrapping", "#[derive(derive_more::Display)] #[display(\"same for all\")] pub enum E { Alpha, Beta(U) } #[derive(derive_more::Display)] #[display(\"{_variant}!\")] pub enum F { #[display(\"a{}\", _0)] Alpha(U), Beta { b: U }, Gamma }",
     "{ format!(\"{}|{}|{}|{}|{}\", $m::E::Alpha, $m::E::Beta(U(1)), $m::F::Alpha(U(2)), $m::F::Beta { b: U(3) }, $m::F::Gamma) }"),
];

/// templates that need `#![feature(error_generic_member_access)]`: the `provide()` half of `derive(Error)`
/// (error.md: fields called `backtrace` / of a type called `Backtrace` / marked `#[error(backtrace)]`)
pub const TEMPLATES_NIGHTLY: [(&str, &str, &str); 6] = [
    ("Error_backtrace_struct", "#[derive(Debug, derive_more::Display, derive_more::Error)] #[display(\"outer\")] pub struct S { pub source: U, pub backtrace: ::std::backtrace::Backtrace }",
     "{ let e = $m::S { source: U(5), backtrace: ::std::backtrace::Backtrace::force_capture() }; format!(\"{:?} {}\", ::std::error::Error::source(&e).map(|s| s.to_string()), ::std::error::request_ref::<::std::backtrace::Backtrace>(&e).is_some()) }"),
    ("Error_backtrace_tuple", "#[derive(Debug, derive_more::Display, derive_more::Error)] #[display(\"outer\")] pub struct S(pub U, pub ::std::backtrace::Backtrace);",
     "{ let e = $m::S(U(5), ::std::backtrace::Backtrace::force_capture()); format!(\"{:?} {}\", ::std::error::Error::source(&e).map(|s| s.to_string()), ::std::error::request_ref::<::std::backtrace::Backtrace>(&e).is_some()) }"),
    ("Error_backtrace_only", "#[derive(Debug, derive_more::Display, derive_more::Error)] #[display(\"outer\")] pub struct S { pub code: U, pub backtrace: ::std::backtrace::Backtrace } #[derive(Debug, derive_more::Display, derive_more::Error)] #[display(\"t\")] pub struct S2(#[error(not(source))] pub U, #[error(backtrace)] pub ::std::backtrace::Backtrace);",
     "{ let e = $m::S { code: U(5), backtrace: ::std::backtrace::Backtrace::force_capture() }; let e2 = $m::S2(U(1), ::std::backtrace::Backtrace::force_capture()); format!(\"{:?} {} {:?} {}\", ::std::error::Error::source(&e).map(|s| s.to_string()), ::std::error::request_ref::<::std::backtrace::Backtrace>(&e).is_some(), ::std::error::Error::source(&e2).map(|s| s.to_string()), ::std::error::request_ref::<::std::backtrace::Backtrace>(&e2).is_some()) }"),
    ("Error_backtrace_from_source", "#[derive(Debug, derive_more::Display, derive_more::Error)] #[display(\"inner\")] pub struct Inner { pub backtrace: ::std::backtrace::Backtrace } #[derive(Debug, derive_more::Display, derive_more::Error)] #[display(\"outer\")] pub struct S { #[error(backtrace)] pub source: Inner } #[derive(Debug, derive_more::Display, derive_more::Error)] #[display(\"plain\")] pub struct P { pub source: Inner }",
     "{ let e = $m::S { source: $m::Inner { backtrace: ::std::backtrace::Backtrace::force_capture() } }; let p = $m::P { source: $m::Inner { backtrace: ::std::backtrace::Backtrace::force_capture() } }; format!(\"{:?} {} {}\", ::std::error::Error::source(&e).map(|s| s.to_string()), ::std::error::request_ref::<::std::backtrace::Backtrace>(&e).is_some(), ::std::error::request_ref::<::std::backtrace::Backtrace>(&p).is_some()) }"),
    ("Error_backtrace_enum", "#[derive(Debug, derive_more::Display, derive_more::Error)] #[display(\"inner\")] pub struct Inner { pub backtrace: ::std::backtrace::Backtrace } #[derive(Debug, derive_more::Display, derive_more::Error)] pub enum E { #[display(\"a\")] Alpha { source: U, backtrace: ::std::backtrace::Backtrace }, #[display(\"b\")] Beta(#[error(backtrace)] Inner), #[display(\"c\")] Gamma { code: U, backtrace: ::std::backtrace::Backtrace }, #[display(\"d\")] Delta, #[display(\"e\")] Eps(U, ::std::backtrace::Backtrace) }",
     "{ let bt = || ::std::backtrace::Backtrace::force_capture(); let r = |e: $m::E| format!(\"{:?}/{}\", ::std::error::Error::source(&e).map(|s| s.to_string()), ::std::error::request_ref::<::std::backtrace::Backtrace>(&e).is_some()); format!(\"{}|{}|{}|{}|{}\", r($m::E::Alpha { source: U(1), backtrace: bt() }), r($m::E::Beta($m::Inner { backtrace: bt() })), r($m::E::Gamma { code: U(2), backtrace: bt() }), r($m::E::Delta), r($m::E::Eps(U(3), bt()))) }"),
    ("Error_backtrace_generic", "#[derive(Debug, derive_more::Display, derive_more::Error)] #[display(\"outer\")] pub struct S<T> { pub source: T, pub backtrace: ::std::backtrace::Backtrace }",
     "{ let e = $m::S { source: U(5), backtrace: ::std::backtrace::Backtrace::force_capture() }; format!(\"{:?} {}\", ::std::error::Error::source(&e).map(|s| s.to_string()), ::std::error::request_ref::<::std::backtrace::Backtrace>(&e).is_some()) }"),
];

/// one behaviour case: `items` in a friendly and in a hostile module, the driver evaluated in both
fn behaviour_case(sname: &str, shadow: &str, label: &str, items: &str, driver: &str, nightly: bool) -> GenCase {
    let friendly = format!("pub mod friendly {{\n    #[allow(unused_imports)] use crate::*;\n    {items}\n}}\n");
    // std `Debug`/`Clone`/`Copy` derives are user tokens: made absolute by `absolutize` where needed
    let hostile = hostile_mod(shadow, &items.replace("Clone, Copy", "::core::clone::Clone, ::core::marker::Copy"), "hostile");
    let body = format!(
        "{friendly}{hostile}macro_rules! drive {{ ($m:ident) => {{ {driver} }} }}\npub fn run(o: &mut Out) {{\n    let f: String = drive!(friendly);\n    let h: String = drive!(hostile);\n    o.put(\"friendly\", &f);\n    o.eq(\"hostile scope behaves like the friendly scope\", &f, &h);\n}}"
    );
    let mut c = GenCase::new(body);
    c.control = Some(format!("{friendly}macro_rules! drive {{ ($m:ident) => {{ {driver} }} }}\npub fn run(o: &mut Out) {{ let f: String = drive!(friendly); o.put(\"friendly\", &f); }}"));
    c.labels = vec![format!("shadow={sname}"), "kind=behaviour".into(), format!("template={label}")];
    if nightly {
        c.labels.push("nightly_provide_expansion".into());
    }
    c.nontrivial = true;
    c.meta = json!({"shadow": sname, "template": label, "nightly": nightly});
    c
}

fn all_templates() -> Vec<(&'static str, &'static str, &'static str)> {
    TEMPLATES.iter().chain(TEMPLATES_GAP.iter()).copied().collect()
}

fn build_nightly(d: &mut Dice) -> GenCase {
    let sh = shadows();
    let (sname, shadow) = sh[d.pick(sh.len())];
    let (label, items, driver) = TEMPLATES_NIGHTLY[d.pick(TEMPLATES_NIGHTLY.len())];
    behaviour_case(sname, shadow, label, items, driver, true)
}

fn fixed_nightly() -> Vec<GenCase> {
    let mut v = vec![];
    for (label, items, driver) in TEMPLATES_NIGHTLY.iter() {
        for (sname, shadow) in shadows() {
            v.push(behaviour_case(sname, shadow, label, items, driver, true));
        }
    }
    // the stable templates ride along (same toolchain, same feature gate): a defect confined to the `provide()`
    // branches then fails a minority of this shard's cases and is reported as such, not as a broken shard
    for (label, items, driver) in all_templates() {
        for (sname, shadow) in shadows() {
            let mut c = behaviour_case(sname, shadow, label, items, driver, false);
            c.labels.push("stable_template_in_nightly_shard".into());
            c.meta["nightly"] = json!(true);
            v.push(c);
        }
    }
    v
}

pub fn prop_nightly() -> DiceProp {
    DiceProp {
        crate_name: "gen_c15n",
        prelude: PRELUDE.to_string(),
        crate_attrs: "#![feature(error_generic_member_access)]".into(),
        nightly: true,
        check_only: false,
        ndice: 8,
        quick: (48, 1),
        thorough: (48, 1),
        build: build_nightly,
        fixed: fixed_nightly,
        classify,
        rule: "nightly shard: the `provide()` expansions of derive(Error) (backtrace fields by name / by type / by attribute, backtrace through the source, struct and every enum arm form, generic) x all shadow sets, friendly vs hostile module as in the main shard".into(),
        assumptions: vec![],
        floors: vec![("nightly_provide_expansion".into(), 0.15)],
        shards: 0,
    }
}

fn build(d: &mut Dice) -> GenCase {
    let sh = shadows();
    let si = d.pick(sh.len());
    let (sname, shadow) = sh[si];
    if d.chance(25) {
        // (B) behaviour template
        let ts = all_templates();
        let (label, items, driver) = ts[d.pick(ts.len())];
        return behaviour_case(sname, shadow, label, items, driver, false);
    }
    // (A) generated item from the C01 generator
    let (item, mut labels, extra) = p01::build_item_pub(d);
    let items = format!("{}\n{}", extra.join("\n"), item.render(true));
    let friendly = format!("pub mod friendly {{\n    #[allow(unused_imports)] use crate::*;\n    {items}\n}}\n");
    let hostile = hostile_mod(shadow, &items, "hostile");
    let mut c = GenCase::new(format!("{friendly}{hostile}"));
    c.runnable = false;
    c.control = Some(friendly);
    labels.retain(|l| l.starts_with("class=") || l.starts_with("derive="));
    labels.push(format!("shadow={sname}"));
    labels.push("kind=generated".into());
    for l in labels.clone() {
        if let Some(cl) = l.strip_prefix("class=") {
            labels.push(format!("cell={cl}/{sname}"));
        }
    }
    c.labels = labels;
    c.nontrivial = true;
    c.meta = json!({"shadow": sname});
    c
}

fn classify(_c: &GenCase, r: &CaseResult, _f: &Finding) -> Option<String> {
    let t = r.error_text();
    // defect models of recorded findings (used only when listed): unqualified names in specific expansions
    if t.contains("derive_more::Error") || t.contains("derive macro `derive_more::Error`") {
        if t.contains("`Option`") || t.contains("`Some`") || t.contains("`None`") {
            return Some("c15-error-bare-option".into());
        }
    }
    None
}

fn fixed() -> Vec<GenCase> {
    // every behaviour template under every shadow set
    let mut v = vec![];
    for (label, items, driver) in all_templates() {
        for (sname, shadow) in shadows() {
            v.push(behaviour_case(sname, shadow, label, items, driver, false));
        }
    }
    v
}

pub fn prop() -> DiceProp {
    DiceProp {
        crate_name: "gen_c15",
        prelude: PRELUDE.to_string(),
        crate_attrs: String::new(),
        nightly: false,
        check_only: false,
        ndice: 210,
        quick: (6000, 1),
        thorough: (5000, 8),
        build,
        fixed,
        classify,
        rule: "pairs (friendly module, `#[no_implicit_prelude]` hostile module with a shadow set) of (A) items from the C01 generator (all 50 derives x shapes x generics x documented attributes) and (B) 26 behaviour templates per derive family (incl. container-level `#[debug(\"..\")]` formats and non-wrapping shared Display formats) x 8 shadow sets (none = pure no-prelude; a local trait offering `to_lowercase`/`as_str`/`write_str`/`default` for every type; local types Result/Option/String/Vec/Box; local fns/consts Ok/Err/Some/None; local traits Debug/Display/From/...; local macro_rules panic/write/format_args/matches/stringify/... that turn a capture into a compile error; silently capturing macros; glob-imported enum variants named Ok/Err/Some/None); oracle: the hostile copy compiles whenever the friendly one does and the driver's observation string (formatting results, panics, error texts, sources, parses) is identical in both; non-trivial = every case (the hostile scope always lacks the prelude); distinct by program text; plus a real #![no_std] lib crate (46 core-only items covering all 50 derives, `extern crate alloc` declared) checked by cargo with derive_more's std feature off and on: every item must compile".into(),
        assumptions: vec!["user tokens of the generated items are written with absolute paths in the hostile module (token-level rewrite), so only tokens produced by the expansion can depend on the scope".into()],
        // behaviour templates are a fixed set of 22 x 7 programs (all of them run in round 0), so their share shrinks with the tier
        floors: vec![("kind=behaviour".into(), 0.003), ("shadow=method_traits".into(), 0.06), ("template=Debug_container_format".into(), 0.0002), ("shadow=macros".into(), 0.08), ("shadow=none".into(), 0.08), ("shadow=types".into(), 0.08), ("shadow=values".into(), 0.08), ("shadow=traits".into(), 0.08)],
        shards: 0,
    }
}


// ------------------------------------------------------------------------------------------------
// a real `#![no_std]` crate (the quantifier names `no_std` next to `#[no_implicit_prelude]`): every derive on
// core-only item shapes, checked by cargo with derive_more's `std` feature off and on. In such a crate the names `std`
// and the std prelude do not exist at all, so an expansion that says `::std::..` or relies on a std-only prelude item
// fails to resolve. (`extern crate alloc` is declared: FromStr on enums lower-cases through alloc's `str::to_lowercase`.)

const NO_STD_SUPPORT: &str = "#[derive(Debug)] pub struct Inner;\nimpl core::fmt::Display for Inner { fn fmt(&self, f: &mut core::fmt::Formatter<'_>) -> core::fmt::Result { f.write_str(\"inner\") } }\nimpl core::error::Error for Inner {}\n";

/// (derive list, item); `core::fmt::Debug` is derived by std's own derive where `Error` needs it
const NO_STD_ITEMS: [(&str, &str); 46] = [
    ("Add, Sub, BitAnd, BitOr, BitXor, Not, Neg, Sum", "pub struct S(pub i32, pub i32);"),
    ("Mul, Div, Rem, Shr, Shl", "pub struct S(pub i32);"),
    ("Mul, Product", "#[mul(forward)] pub struct S(pub i32);"),
    ("AddAssign, SubAssign, BitAndAssign, BitOrAssign, BitXorAssign, MulAssign, DivAssign, RemAssign, ShrAssign, ShlAssign", "pub struct S(pub i32);"),
    ("Add, Sub, Not, Neg", "pub enum E { A(i32), B { x: i32 }, U }"),
    ("Add, Mul, Not, Sum, AddAssign", "pub struct S<T>(pub T);"),
    ("Add, Not", "pub enum E<T> { A(T), B { x: T } }"),
    ("From", "pub struct S(pub i32, pub u8);"),
    ("From", "#[from(forward)] pub struct S(pub i64);"),
    ("From", "#[from(i8, i16)] pub struct S(pub i32);"),
    ("From", "pub enum E { A(i32), #[from(forward)] B { x: i64 }, #[from(skip)] C(i32), U }"),
    ("From", "pub struct S<T>(pub T, pub u8);"),
    ("Into", "#[into(owned, ref, ref_mut)] pub struct S(pub i32, pub u8);"),
    ("Into", "#[into(i64, i128)] pub struct S(pub i32);"),
    ("Into", "pub struct S<T> { pub a: [T; 2], #[into(skip)] pub b: u8 }"),
    ("Constructor", "pub struct S<T> { pub a: T, pub b: u8 }"),
    ("Display", "#[display(\"{a}-{b:?}\")] pub struct S { pub a: i32, pub b: u8 }"),
    ("Display", "#[display(\"<{_variant}>\")] pub enum E { A(i32), #[display(\"u\")] U, #[display(\"{x:>4}\")] N { x: u8 } }"),
    ("Display", "#[display(rename_all = \"snake_case\")] pub enum E { FooBar, Baz }"),
    ("Display", "#[display(\"{_0} {}\", _1.len())] pub struct S<T>(pub T, pub &'static str);"),
    ("Display, Binary, Octal, LowerHex, UpperHex, LowerExp, UpperExp", "pub struct S(pub i32);"),
    ("Pointer", "pub struct S(pub &'static i32);"),
    ("Pointer", "#[pointer(\"{a:p}\")] pub struct S { pub a: &'static i32 }"),
    ("Debug", "pub struct S { pub a: i32, #[debug(skip)] pub b: u8, #[debug(\"{:x}\", c)] pub c: u8 }"),
    ("Debug", "pub struct S(pub i32, #[debug(skip)] pub u8);"),
    ("Debug", "pub enum E<T> { A(T), #[debug(\"b{x}\")] B { x: u8 }, U }"),
    ("FromStr", "pub struct S(pub i32);"),
    ("FromStr", "pub enum E { Foo, Bar, foo }"),
    ("AsRef, AsMut", "pub struct S(pub i32);"),
    ("AsRef, AsMut", "#[as_ref(forward)] #[as_mut(forward)] pub struct S(pub [u8; 4]);"),
    ("AsRef, AsMut", "pub struct S(#[as_ref([u8])] #[as_mut([u8])] pub [u8; 4], pub u8);"),
    ("AsRef", "pub struct S<T>(#[as_ref(T)] pub T);"),
    ("Deref, DerefMut", "pub struct S<T>(pub T);"),
    ("Deref, DerefMut", "#[deref(forward)] #[deref_mut(forward)] pub struct S(pub &'static mut i32);"),
    ("Index, IndexMut", "pub struct S(pub [i32; 4], #[index(ignore)] #[index_mut(ignore)] pub u8);"),
    ("IntoIterator", "pub struct S(#[into_iterator(owned, ref, ref_mut)] pub [i32; 4]);"),
    ("IsVariant, Unwrap, TryUnwrap", "#[unwrap(ref, ref_mut)] #[try_unwrap(ref, ref_mut)] pub enum E<T> { A(T), B(u8, i32), U }"),
    ("TryInto", "#[try_into(owned, ref, ref_mut)] pub enum E { A(i32), B(u8, u16), #[try_into(ignore)] C(i32), U }"),
    ("TryFrom", "#[try_from(repr)] #[repr(u8)] pub enum E { A = 1, B, C = 7 }"),
    ("TryFrom", "#[try_from(repr)] pub enum E<T> { A, B(T) }"),
    ("@Debug, Display, Error", "#[display(\"e\")] pub struct S { pub source: Inner }"),
    ("@Debug, Display, Error", "#[display(\"e\")] pub struct S(pub Inner, pub u8);"),
    ("@Debug, Display, Error", "#[display(\"e\")] pub struct S<E> { pub source: E }"),
    ("@Debug, Display, Error", "#[display(\"e\")] pub enum Either<L, R> { A { source: L }, B(#[error(source)] R, u8), #[error(ignore)] C(Inner), U }"),
    ("@Debug, Display, Error", "#[display(\"e\")] pub struct S(#[error(not(source))] pub Inner);"),
    ("@Debug, Display, Error", "#[display(\"e\")] pub struct S;"),
];

fn no_std_stage(ctx: &Ctx, rep: &mut Report) {
    let dir = ctx.work_dir.join("gen").join("gen_c15_nostd");
    if let Err(e) = std::fs::create_dir_all(dir.join("src")) {
        rep.infra_errors.push(format!("no_std stage: {e}"));
        return;
    }
    let mut src = String::from("#![no_std]\n#![allow(dead_code, non_camel_case_types)]\nextern crate alloc;\n");
    let mut ranges: Vec<(usize, usize, usize)> = vec![];
    for (i, (derives, item)) in NO_STD_ITEMS.iter().enumerate() {
        let list: Vec<String> = derives.split(", ").map(|d| if let Some(stdd) = d.strip_prefix('@') { format!("core::fmt::{stdd}") } else { format!("derive_more::{d}") }).collect();
        let m = format!("pub mod c{i} {{\n{NO_STD_SUPPORT}#[derive({})]\n{item}\n}}\n", list.join(", "));
        let first = src.matches('\n').count() + 1;
        src.push_str(&m);
        ranges.push((i, first, src.matches('\n').count()));
    }
    if std::fs::write(dir.join("src/lib.rs"), &src).is_err() {
        rep.infra_errors.push("no_std stage: cannot write the crate".into());
        return;
    }
    let _ = std::fs::copy(ctx.mirror.join("Cargo.lock"), dir.join("Cargo.lock"));
    for (cfg, feats) in [("std feature off", "\"full\""), ("std feature on", "\"full\", \"std\"")] {
        let toml = format!(
            "[package]\nname = \"gen_c15_nostd\"\nversion = \"0.0.0\"\nedition = \"2021\"\n\n[workspace]\n\n[dependencies]\nderive_more = {{ path = \"{}\", default-features = false, features = [{feats}] }}\n",
            ctx.mirror.display()
        );
        if std::fs::write(dir.join("Cargo.toml"), toml).is_err() {
            rep.infra_errors.push("no_std stage: cannot write Cargo.toml".into());
            return;
        }
        let out = std::process::Command::new("cargo")
            .args(["check", "--offline", "--lib", "--message-format=short"])
            .current_dir(&dir)
            .env("CARGO_NET_OFFLINE", "true")
            .env("CARGO_TARGET_DIR", ctx.work_dir.join("tgt-gen-nostd"))
            .output();
        let out = match out {
            Ok(o) => o,
            Err(e) => {
                rep.infra_errors.push(format!("no_std stage: cargo: {e}"));
                return;
            }
        };
        let text = String::from_utf8_lossy(&out.stderr).to_string();
        let mut per_case: std::collections::BTreeMap<usize, Vec<String>> = Default::default();
        let mut unattributed = vec![];
        for l in text.lines() {
            // `src/lib.rs:LINE:COL: error[E0433]: message`
            let Some(rest) = l.strip_prefix("src/lib.rs:") else {
                if l.starts_with("error") && !l.starts_with("error: could not compile") {
                    unattributed.push(l.to_string());
                }
                continue;
            };
            let mut it = rest.splitn(3, ':');
            let line: usize = it.next().and_then(|x| x.parse().ok()).unwrap_or(0);
            let _col = it.next();
            let msg = it.next().unwrap_or("").trim();
            if !msg.starts_with("error") {
                continue;
            }
            match ranges.iter().find(|r| r.1 <= line && line <= r.2) {
                Some(r) => per_case.entry(r.0).or_default().push(msg.to_string()),
                None => unattributed.push(l.to_string()),
            }
        }
        for (i, errs) in &per_case {
            let (derives, item) = NO_STD_ITEMS[*i];
            rep.violations.push(Violation {
                sig: None,
                summary: format!("derive does not compile in a real #![no_std] crate ({cfg}): #[derive({})] {item}", derives.replace('@', "core::fmt::")),
                case: json!({"no_std_item": i, "derives": derives, "item": item, "config": cfg}),
                expected: "compiles as it does in a std crate".into(),
                observed: errs.join(" | ").chars().take(1500).collect(),
            });
        }
        if !out.status.success() && per_case.is_empty() {
            rep.infra_errors.push(format!("no_std stage ({cfg}): build failed without an attributable error: {}", unattributed.join(" | ").chars().take(800).collect::<String>()));
        }
        rep.evidence.eval(NO_STD_ITEMS.len() as u64);
        for _ in 0..NO_STD_ITEMS.len() {
            rep.evidence.label("no_std_crate_item");
        }
    }
}

pub fn run(ctx: &Ctx) -> Report {
    let mut rep = super::progprop::run(&prop(), ctx);
    no_std_stage(ctx, &mut rep);
    let nightly_ok = std::process::Command::new("rustc").arg("+nightly").arg("--version").output().map(|o| o.status.success()).unwrap_or(false);
    if nightly_ok {
        let r2 = super::progprop::run(&prop_nightly(), ctx);
        rep.evidence.merge(r2.evidence);
        rep.violations.extend(r2.violations);
        rep.infra_errors.extend(r2.infra_errors);
    } else {
        rep.infra_errors.push("nightly toolchain not available: the Error/backtrace (provide) shard of C15 cannot run".into());
    }
    rep
}

pub fn replay(ctx: &Ctx, case: &serde_json::Value) -> Report {
    if case.get("no_std_item").is_some() {
        // the no_std crate is small: rebuild it and keep what concerns the replayed item
        let mut rep = Report::new("replay of an item of the #![no_std] crate stage");
        no_std_stage(ctx, &mut rep);
        rep.violations.retain(|v| v.case["no_std_item"] == case["no_std_item"] && v.case["config"] == case["config"]);
        return rep;
    }
    if case["meta"]["nightly"].as_bool() == Some(true) {
        return super::progprop::replay(&prop_nightly(), ctx, case);
    }
    super::progprop::replay(&prop(), ctx, case)
}

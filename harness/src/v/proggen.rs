//! Engine E2: generated programs compiled by the *real* proc-macro built from the tree under test.
//!
//! A check hands over `CaseSrc`s (one Rust module body each). They are laid out as
//! `src/bin/s<k>.rs` shards of a generated crate depending on `derive_more` by path (the mirror of the
//! working tree), built with `cargo build --message-format=json`; diagnostics are mapped back to cases
//! by line, failing cases are pruned and the shard rebuilt until it compiles (one failing case masks
//! later compiler phases for its whole shard), then the shard binaries are run and their per-case
//! observation lines collected.
use super::core::*;
use rayon::prelude::*;
use serde_json::Value;
use std::collections::{BTreeMap, BTreeSet};
use std::path::{Path, PathBuf};
use std::process::Command;

#[derive(Clone, Debug)]
pub struct CaseSrc {
    /// Rust source placed inside `pub mod c<idx> { use super::*; ... }`.
    /// Runnable cases define `pub fn run(o: &mut Out)`.
    pub body: String,
    /// whether the case defines `run`
    pub runnable: bool,
    /// expected to be rejected by rustc: such cases get shards of their own
    pub negative: bool,
}

#[derive(Clone, Debug, Default)]
pub struct ProgSpec {
    /// generated crate name, e.g. `gen_c02`
    pub name: String,
    /// crate-level source pasted at the top of every shard after the runtime (support types etc.)
    pub prelude: String,
    /// inner attributes at the very top of each shard, e.g. `#![feature(..)]`
    pub crate_attrs: String,
    pub nightly: bool,
    /// `cargo check` only (no codegen, nothing is run)
    pub check_only: bool,
    /// number of shards (0 = automatic)
    pub shards: usize,
}

#[derive(Clone, Debug)]
pub struct Diag {
    pub level: String,
    pub code: Option<String>,
    pub message: String,
    pub rendered: String,
    /// the primary span lies inside the expansion of this macro (e.g. `#[derive(derive_more::Add)]`)
    pub from_macro: Option<String>,
}

#[derive(Clone, Debug, Default)]
pub struct CaseResult {
    /// the case (finally) compiled
    pub compiled: bool,
    /// errors attributed to the case (non-empty iff !compiled)
    pub errors: Vec<Diag>,
    /// warnings attributed to the case in the build in which it compiled
    pub warnings: Vec<Diag>,
    /// observation lines `key=value` emitted by `run`
    pub obs: Vec<String>,
    /// failure lines emitted by `run` through `o.fail(..)`: (what, expected, observed)
    pub fails: Vec<(String, String, String)>,
    /// panic message if `run` panicked
    pub panicked: Option<String>,
    /// the binary crashed/hung before reaching this case or produced no record for it
    pub no_record: bool,
}

impl CaseResult {
    pub fn get(&self, key: &str) -> Option<&str> {
        self.obs.iter().find_map(|l| l.strip_prefix(key).and_then(|r| r.strip_prefix('=')))
    }
    pub fn error_text(&self) -> String {
        self.errors.iter().map(|d| d.rendered.clone()).collect::<Vec<_>>().join("\n")
    }
    pub fn first_error(&self) -> String {
        self.errors
            .first()
            .map(|d| format!("{}{}", d.code.as_ref().map(|c| format!("[{c}] ")).unwrap_or_default(), d.message))
            .unwrap_or_default()
    }
}

pub const RUNTIME: &str = r#"
#[allow(dead_code)]
pub struct Out { pub id: usize, pub lines: Vec<String> }
#[allow(dead_code)]
impl Out {
    pub fn new(id: usize) -> Out { Out { id, lines: Vec::new() } }
    fn esc(s: &str) -> String { s.replace('\\', "\\\\").replace('\n', "\\n").replace('\r', "\\r").replace('\t', "\\t") }
    /// records an observation
    pub fn put(&mut self, key: &str, val: &str) { self.lines.push(format!("O\t{}={}", Self::esc(key), Self::esc(val))); }
    /// records a failed expectation
    pub fn fail(&mut self, what: &str, expected: &str, observed: &str) {
        self.lines.push(format!("F\t{}\t{}\t{}", Self::esc(what), Self::esc(expected), Self::esc(observed)));
    }
    /// records a failure unless `expected == observed`
    pub fn eq(&mut self, what: &str, expected: &str, observed: &str) {
        if expected != observed { self.fail(what, expected, observed); } else { self.lines.push(format!("K\t{}", Self::esc(what))); }
    }
    pub fn check(&mut self, what: &str, cond: bool) {
        if !cond { self.fail(what, "true", "false"); } else { self.lines.push(format!("K\t{}", Self::esc(what))); }
    }
}
#[allow(dead_code)]
pub fn __catch<R>(f: impl FnOnce() -> R) -> Result<R, String> {
    match std::panic::catch_unwind(std::panic::AssertUnwindSafe(f)) {
        Ok(r) => Ok(r),
        Err(e) => Err(if let Some(s) = e.downcast_ref::<&str>() { s.to_string() } else if let Some(s) = e.downcast_ref::<String>() { s.clone() } else { "<panic>".to_string() }),
    }
}
#[allow(dead_code)]
fn __run_case(id: usize, f: fn(&mut Out)) {
    use std::io::Write;
    let mut o = Out::new(id);
    let r = __catch(|| f(&mut o));
    let stdout = std::io::stdout();
    let mut w = stdout.lock();
    for l in &o.lines { let _ = writeln!(w, "@@{}\t{}", id, l); }
    if let Err(m) = r { let _ = writeln!(w, "@@{}\tP\t{}", id, Out::esc(&m)); }
    let _ = writeln!(w, "@@{}\tE", id);
    let _ = w.flush();
}
"#;

fn unesc(s: &str) -> String {
    let mut out = String::new();
    let mut it = s.chars();
    while let Some(c) = it.next() {
        if c == '\\' {
            match it.next() {
                Some('n') => out.push('\n'),
                Some('r') => out.push('\r'),
                Some('t') => out.push('\t'),
                Some('\\') => out.push('\\'),
                Some(o) => {
                    out.push('\\');
                    out.push(o)
                }
                None => out.push('\\'),
            }
        } else {
            out.push(c)
        }
    }
    out
}

struct Shard {
    file: PathBuf,
    bin: String,
    /// case idx -> (first line, last line), 1-based inclusive
    ranges: Vec<(usize, usize, usize)>,
}

fn render_shard(spec: &ProgSpec, cases: &[CaseSrc], members: &[usize]) -> (String, Vec<(usize, usize, usize)>) {
    let mut src = String::new();
    src.push_str(&spec.crate_attrs);
    src.push('\n');
    // (a property that judges warnings brings its own, narrower list: `crate_attrs` containing the marker `dmv:own-lints`)
    if !spec.crate_attrs.contains("dmv:own-lints") {
        src.push_str("#![allow(dead_code, unused_imports, unused_variables, non_camel_case_types, non_snake_case, non_upper_case_globals)]\n");
    }
    src.push_str(RUNTIME);
    src.push_str(&spec.prelude);
    src.push('\n');
    let mut ranges = vec![];
    let mut line = src.matches('\n').count() + 1;
    for &i in members {
        let c = &cases[i];
        let m = format!("pub mod c{i} {{\n#[allow(unused_imports)] use super::*;\n{}\n}}\n", c.body);
        let n = m.matches('\n').count();
        ranges.push((i, line, line + n - 1));
        line += n;
        src.push_str(&m);
    }
    src.push_str("fn main() {\n    std::panic::set_hook(Box::new(|_| {}));\n");
    for &i in members {
        if cases[i].runnable {
            src.push_str(&format!("    __run_case({i}, c{i}::run);\n"));
        }
    }
    src.push_str("}\n");
    (src, ranges)
}

pub struct Built {
    pub results: Vec<CaseResult>,
    pub builds: usize,
    pub infra: Vec<String>,
}

fn cargo_cmd(spec: &ProgSpec) -> Command {
    let mut c = Command::new("cargo");
    if spec.nightly {
        c.arg("+nightly");
    }
    c.env("CARGO_NET_OFFLINE", "true");
    c.env_remove("RUSTFLAGS");
    c
}

fn crate_dir(ctx: &Ctx, spec: &ProgSpec) -> PathBuf {
    ctx.work_dir.join("gen").join(&spec.name)
}

fn target_dir(ctx: &Ctx, spec: &ProgSpec) -> PathBuf {
    ctx.work_dir.join(if spec.nightly { "tgt-gen-nightly" } else { "tgt-gen" })
}

fn write_if_changed(p: &Path, s: &str) -> std::io::Result<()> {
    if let Ok(old) = std::fs::read_to_string(p) {
        if old == s {
            return Ok(());
        }
    }
    std::fs::write(p, s)
}

/// Runs cargo on the generated crate; returns per-file diagnostics (file name relative to the crate
/// dir) and whether the build as a whole succeeded.
fn cargo_build(ctx: &Ctx, spec: &ProgSpec, dir: &Path, bins: &[String]) -> Result<(Vec<(String, usize, Diag)>, Vec<Diag>, BTreeSet<String>), String> {
    let mut c = cargo_cmd(spec);
    c.current_dir(dir);
    c.arg(if spec.check_only { "check" } else { "build" });
    c.arg("--offline").arg("--message-format=json").arg("-q").arg("--keep-going");
    for b in bins {
        c.arg("--bin").arg(b);
    }
    c.env("CARGO_TARGET_DIR", target_dir(ctx, spec));
    let out = c.output().map_err(|e| format!("cargo: {e}"))?;
    let stdout = String::from_utf8_lossy(&out.stdout);
    let mut attributed = vec![];
    let mut unattributed = vec![];
    let mut failed_bins = BTreeSet::new();
    let mut ok_bins = BTreeSet::new();
    let mut foreign_errors = vec![];
    for line in stdout.lines() {
        let Ok(v) = serde_json::from_str::<Value>(line) else { continue };
        match v["reason"].as_str() {
            Some("compiler-message") => {
                let m = &v["message"];
                let level = m["level"].as_str().unwrap_or("").to_string();
                if level != "error" && level != "warning" {
                    continue;
                }
                let target = v["target"]["name"].as_str().unwrap_or("").to_string();
                let msg = m["message"].as_str().unwrap_or("").to_string();
                if msg.starts_with("aborting due to") || msg.contains("warning emitted") || msg.contains("warnings emitted") {
                    continue;
                }
                let d = Diag {
                    level: level.clone(),
                    code: m["code"]["code"].as_str().map(|s| s.to_string()),
                    message: msg,
                    rendered: m["rendered"].as_str().unwrap_or("").to_string(),
                    from_macro: m["spans"].as_array().and_then(|sp| {
                        sp.iter().filter(|s| s["is_primary"].as_bool() == Some(true)).chain(sp.iter()).find_map(|s| {
                            let mut cur = s;
                            loop {
                                let e = &cur["expansion"];
                                if e.is_null() {
                                    return None;
                                }
                                if let Some(n) = e["macro_decl_name"].as_str() {
                                    if n.starts_with("#[derive(") {
                                        return Some(n.to_string());
                                    }
                                }
                                cur = &e["span"];
                            }
                        })
                    }),
                };
                let is_ours = v["target"]["src_path"].as_str().is_some_and(|p| p.contains("/gen/"));
                if !is_ours {
                    if level == "error" {
                        foreign_errors.push(d.rendered.clone());
                    }
                    continue;
                }
                if level == "error" {
                    failed_bins.insert(target.clone());
                }
                // primary span inside the shard file (follow macro expansion back to the call site)
                let mut loc: Option<(String, usize)> = None;
                if let Some(spans) = m["spans"].as_array() {
                    let pick = |s: &Value| -> Option<(String, usize)> {
                        let mut cur = s;
                        loop {
                            let f = cur["file_name"].as_str().unwrap_or("");
                            if f.starts_with("src/bin/") {
                                return Some((f.to_string(), cur["line_start"].as_u64().unwrap_or(0) as usize));
                            }
                            let next = &cur["expansion"]["span"];
                            if next.is_null() {
                                return None;
                            }
                            cur = next;
                        }
                    };
                    for s in spans.iter().filter(|s| s["is_primary"].as_bool() == Some(true)) {
                        if let Some(l) = pick(s) {
                            loc = Some(l);
                            break;
                        }
                    }
                    if loc.is_none() {
                        for s in spans {
                            if let Some(l) = pick(s) {
                                loc = Some(l);
                                break;
                            }
                        }
                    }
                }
                match loc {
                    Some((f, l)) => attributed.push((f, l, d)),
                    None => {
                        let mut d = d;
                        d.message = format!("[{target}] {}", d.message);
                        unattributed.push(d)
                    }
                }
            }
            Some("compiler-artifact") => {
                if let Some(n) = v["target"]["name"].as_str() {
                    ok_bins.insert(n.to_string());
                }
            }
            _ => {}
        }
    }
    if !foreign_errors.is_empty() {
        return Err(format!(
            "the crate under test (or a dependency) does not build: {}",
            foreign_errors.join("\n")
        ));
    }
    if !out.status.success() && failed_bins.is_empty() {
        let stderr = String::from_utf8_lossy(&out.stderr);
        return Err(format!("cargo failed without diagnostics: {}", stderr.chars().take(2000).collect::<String>()));
    }
    Ok((attributed, unattributed, failed_bins))
}

fn setup_crate(ctx: &Ctx, spec: &ProgSpec, dir: &Path) -> Result<(), String> {
    std::fs::create_dir_all(dir.join("src/bin")).map_err(|e| e.to_string())?;
    let toml = format!(
        "[package]\nname = \"{}\"\nversion = \"0.0.0\"\nedition = \"2021\"\n\n[workspace]\n\n[dependencies]\nderive_more = {{ path = \"{}\", features = [\"full\"] }}\n\n[profile.dev]\ndebug = 0\nopt-level = 0\nincremental = false\n",
        spec.name,
        ctx.mirror.display()
    );
    write_if_changed(&dir.join("Cargo.toml"), &toml).map_err(|e| e.to_string())?;
    let lock = dir.join("Cargo.lock");
    if !lock.exists() {
        let _ = std::fs::copy(ctx.mirror.join("Cargo.lock"), &lock);
    }
    Ok(())
}

/// Builds (and unless `check_only` runs) all cases. Never returns a violation itself: the caller judges
/// `CaseResult`s against what the property expects.
pub fn build_and_run(ctx: &Ctx, spec: &ProgSpec, cases: &[CaseSrc]) -> Result<Built, String> {
    let dir = crate_dir(ctx, spec);
    setup_crate(ctx, spec, &dir)?;
    let n = cases.len();
    let nshards = if spec.shards > 0 { spec.shards } else { (n / 40).clamp(1, 32) }.min(n.max(1));
    // remove stale shard files
    if let Ok(rd) = std::fs::read_dir(dir.join("src/bin")) {
        for e in rd.flatten() {
            let _ = std::fs::remove_file(e.path());
        }
    }
    let mut results: Vec<CaseResult> = vec![CaseResult::default(); n];
    let mut members: Vec<Vec<usize>> = vec![vec![]; nshards];
    let negs: Vec<usize> = (0..n).filter(|i| cases[*i].negative).collect();
    let nneg = if negs.is_empty() { 0 } else { (negs.len() / 60).clamp(1, 8) };
    for _ in 0..nneg {
        members.push(vec![]);
    }
    let mut pi = 0;
    for i in 0..n {
        if cases[i].negative {
            continue;
        }
        members[pi % nshards].push(i);
        pi += 1;
    }
    for (j, i) in negs.iter().enumerate() {
        members[nshards + j % nneg].push(*i);
    }
    let nshards = members.len();
    let mut infra = vec![];
    let mut builds = 0;
    // shards that still need a (re)build
    let mut dirty: BTreeSet<usize> = (0..nshards).collect();
    let mut shard_ranges: BTreeMap<usize, Vec<(usize, usize, usize)>> = BTreeMap::new();
    let mut round = 0;
    let mut last_warnings: BTreeMap<usize, Vec<Diag>> = BTreeMap::new();
    while !dirty.is_empty() {
        round += 1;
        if round > 12 {
            infra.push(format!("{}: shards {:?} did not reach a compiling fixpoint in 12 rounds", spec.name, dirty));
            break;
        }
        let mut bins = vec![];
        for &k in &dirty {
            let (src, ranges) = render_shard(spec, cases, &members[k]);
            let f = dir.join(format!("src/bin/s{k}.rs"));
            write_if_changed(&f, &src).map_err(|e| e.to_string())?;
            shard_ranges.insert(k, ranges);
            bins.push(format!("s{k}"));
        }
        builds += 1;
        let (attributed, unattributed, failed_bins) = cargo_build(ctx, spec, &dir, &bins)?;
        let mut next_dirty = BTreeSet::new();
        let mut failed_cases: BTreeMap<usize, Vec<Diag>> = BTreeMap::new();
        let mut shard_unattr: BTreeMap<usize, Vec<Diag>> = BTreeMap::new();
        let mut warn_now: BTreeMap<usize, Vec<Diag>> = BTreeMap::new();
        for (f, line, d) in attributed {
            let k: usize = f.trim_start_matches("src/bin/s").trim_end_matches(".rs").parse().unwrap_or(usize::MAX);
            let Some(ranges) = shard_ranges.get(&k) else { continue };
            match ranges.iter().find(|(_, a, b)| line >= *a && line <= *b) {
                Some((i, _, _)) => {
                    if d.level == "error" {
                        failed_cases.entry(*i).or_default().push(d);
                    } else {
                        warn_now.entry(*i).or_default().push(d);
                    }
                }
                None => {
                    if d.level == "error" {
                        shard_unattr.entry(k).or_default().push(d);
                    }
                }
            }
        }
        for d in unattributed {
            if d.level == "error" {
                // message was prefixed with [bin]
                let k = d.message.strip_prefix("[s").and_then(|r| r.split(']').next()).and_then(|s| s.parse().ok());
                if let Some(k) = k {
                    shard_unattr.entry(k).or_default().push(d);
                }
            }
        }
        for &k in &dirty {
            let bin = format!("s{k}");
            let shard_failed: Vec<usize> = members[k].iter().copied().filter(|i| failed_cases.contains_key(i)).collect();
            if !failed_bins.contains(&bin) {
                // compiled: all members are fine
                for &i in &members[k] {
                    results[i].compiled = true;
                    results[i].warnings = warn_now.remove(&i).unwrap_or_default();
                }
                continue;
            }
            if !shard_failed.is_empty() {
                for i in shard_failed {
                    results[i].compiled = false;
                    results[i].errors = failed_cases.remove(&i).unwrap_or_default();
                    members[k].retain(|x| *x != i);
                }
                next_dirty.insert(k);
            } else {
                // errors that cannot be attributed to a case: bisect the shard
                let m = members[k].clone();
                if m.len() <= 1 {
                    for i in m {
                        results[i].compiled = false;
                        results[i].errors = shard_unattr.remove(&k).unwrap_or_default();
                    }
                    members[k].clear();
                } else {
                    let (a, b) = m.split_at(m.len() / 2);
                    members[k] = a.to_vec();
                    members.push(b.to_vec());
                    next_dirty.insert(k);
                    next_dirty.insert(members.len() - 1);
                }
            }
        }
        let _ = &mut last_warnings;
        dirty = next_dirty;
        dirty.retain(|k| !members[*k].is_empty());
    }
    if spec.check_only {
        return Ok(Built { results, builds, infra });
    }
    // run the shard binaries
    let tdir = target_dir(ctx, spec).join("debug");
    let run_list: Vec<usize> = (0..members.len())
        .filter(|k| members[*k].iter().any(|i| results[*i].compiled && cases[*i].runnable))
        .collect();
    let outputs: Vec<(usize, Result<String, String>)> = run_list
        .par_iter()
        .map(|&k| {
            let bin = tdir.join(format!("s{k}"));
            let r = run_with_timeout(&bin, 120);
            (k, r)
        })
        .collect();
    for (k, r) in outputs {
        match r {
            Err(e) => {
                infra.push(format!("{} shard s{k}: {e}", spec.name));
                for &i in &members[k] {
                    if cases[i].runnable {
                        results[i].no_record = true;
                    }
                }
            }
            Ok(text) => {
                let mut done: BTreeSet<usize> = BTreeSet::new();
                for line in text.lines() {
                    let Some(rest) = line.strip_prefix("@@") else { continue };
                    let mut parts = rest.splitn(3, '\t');
                    let Some(id) = parts.next().and_then(|s| s.parse::<usize>().ok()) else { continue };
                    if id >= n {
                        continue;
                    }
                    let kind = parts.next().unwrap_or("");
                    let payload = parts.next().unwrap_or("");
                    match kind {
                        "O" => results[id].obs.push(unesc(payload)),
                        "K" => {}
                        "F" => {
                            let f: Vec<&str> = payload.splitn(3, '\t').collect();
                            results[id].fails.push((
                                unesc(f.first().copied().unwrap_or("")),
                                unesc(f.get(1).copied().unwrap_or("")),
                                unesc(f.get(2).copied().unwrap_or("")),
                            ));
                        }
                        "P" => results[id].panicked = Some(unesc(payload)),
                        "E" => {
                            done.insert(id);
                        }
                        _ => {}
                    }
                }
                for &i in &members[k] {
                    if cases[i].runnable && results[i].compiled && !done.contains(&i) {
                        results[i].no_record = true;
                    }
                }
            }
        }
    }
    Ok(Built { results, builds, infra })
}

fn run_with_timeout(bin: &Path, secs: u64) -> Result<String, String> {
    use std::io::Read;
    let mut child = Command::new(bin)
        .stdout(std::process::Stdio::piped())
        .stderr(std::process::Stdio::null())
        .spawn()
        .map_err(|e| format!("cannot run {}: {e}", bin.display()))?;
    let mut stdout = child.stdout.take().unwrap();
    let h = std::thread::spawn(move || {
        let mut s = String::new();
        let mut buf = Vec::new();
        let _ = stdout.read_to_end(&mut buf);
        s.push_str(&String::from_utf8_lossy(&buf));
        s
    });
    let start = std::time::Instant::now();
    loop {
        match child.try_wait() {
            Ok(Some(_)) => break,
            Ok(None) => {
                if start.elapsed().as_secs() > secs {
                    let _ = child.kill();
                    let _ = child.wait();
                    let out = h.join().unwrap_or_default();
                    // the output so far is still useful: cases after the hang get `no_record`
                    return Ok(out);
                }
                std::thread::sleep(std::time::Duration::from_millis(20));
            }
            Err(e) => return Err(e.to_string()),
        }
    }
    Ok(h.join().unwrap_or_default())
}

//! C02 — derived formatting prints exactly what `format!` prints for the same literal.
//!
//! Every case is a struct or enum deriving one of the nine fmt traits with a generated literal +
//! argument list, plus a *reference method* on the same type that binds the fields the way the
//! statement says and calls plain `format!` with the identical literal and arguments.
use super::core::*;
use super::lit::*;
use super::progprop::*;
use super::proggen::CaseResult;
use serde_json::json;

pub const FMT_TRAITS: [(&str, &str, &str); 9] = [
    ("Display", "display", ""),
    ("Debug", "debug", "?"),
    ("Binary", "binary", "b"),
    ("Octal", "octal", "o"),
    ("LowerHex", "lower_hex", "x"),
    ("UpperHex", "upper_hex", "X"),
    ("LowerExp", "lower_exp", "e"),
    ("UpperExp", "upper_exp", "E"),
    ("Pointer", "pointer", "p"),
];

#[derive(Clone, Copy, Debug, PartialEq, Eq)]
pub enum K {
    Int,
    Float,
    Str,
    Ptr,
    Size,
    /// only as the kind of an argument expression (`*a < 3`), never of a field
    Bool,
}

impl K {
    pub fn ty(self) -> &'static str {
        match self {
            K::Int => "i32",
            K::Float => "f64",
            K::Str => "&'static str",
            K::Ptr => "&'static i32",
            K::Size => "usize",
            K::Bool => "bool",
        }
    }
    /// type strings (`ty` of the placeholder) the kind can be formatted with
    pub fn tys(self) -> &'static [&'static str] {
        match self {
            K::Int | K::Size => &["", "?", "x?", "X?", "o", "x", "X", "b", "e", "E"],
            K::Float => &["", "?", "e", "E"],
            K::Str => &["", "?", "x?"],
            K::Ptr => &["p", "", "?", "p"],
            K::Bool => &["", "?"],
        }
    }
    pub fn value(self, i: usize, d: &mut Dice) -> String {
        match self {
            K::Int => {
                let v = [17i64, -4, 0, 255, 1000003, -2147483648][d.pick(6)] + i as i64 * 13;
                format!("{}", v.clamp(i32::MIN as i64, i32::MAX as i64))
            }
            K::Float => ["1.5", "-0.25", "1234.56789", "0.0", "1e10"][d.pick(5)].to_string(),
            K::Str => format!("\"{}{}\"", ["s", "héllo wörld ", "", "a\\nb"][d.pick(4)], i),
            K::Ptr => format!("&N{}", i % 4),
            K::Size => format!("{}", [3usize, 0, 11, 7][d.pick(4)] + i),
            K::Bool => ["true", "false"][d.pick(2)].to_string(),
        }
    }
}

#[derive(Clone, Debug)]
pub struct Field {
    pub name: String,
    /// how the field is written as a member (`0` / `name`)
    pub member: String,
    pub kind: K,
}

pub fn unraw(n: &str) -> String {
    n.trim_start_matches("r#").to_string()
}

#[derive(Clone, Debug)]
pub struct ArgE {
    pub alias: Option<String>,
    pub expr: String,
    pub kind: K,
    pub bare_field: bool,
}

pub fn arg_expr(f: &Field, d: &mut Dice) -> (String, K, bool) {
    arg_expr_in(f, d, false)
}

/// `self_reads`: the type is a struct, so `self.<member>` is a valid expression (the statement: "`self` is the value")
pub fn arg_expr_in(f: &Field, d: &mut Dice, self_reads: bool) -> (String, K, bool) {
    let n = &f.name;
    let mut forms: Vec<(String, K, bool)> = match f.kind {
        K::Int => vec![
            (n.clone(), K::Int, true),
            (format!("*{n}"), K::Int, false),
            (format!("{n}.wrapping_add(1)"), K::Int, false),
            (format!("(*{n} as i64) * 2"), K::Int, false),
            (format!("format_args!(\"<{{}}>\", {n})"), K::Str, false),
            ("self.tag()".to_string(), K::Int, false),
            // expression shapes beyond a method call: reference, literal, generic paths (turbofish, qualified path),
            // a top-level comparison, block, `if`, closure call
            (format!("&{n}"), K::Int, false),
            ("7".to_string(), K::Int, false),
            (format!("i64::from(*{n})"), K::Int, false),
            (format!("core::cmp::max::<i32>(*{n}, 3)"), K::Int, false),
            (format!("<i32 as Into<i64>>::into(*{n})"), K::Int, false),
            (format!("*{n} < 3"), K::Bool, false),
            (format!("{{ let t = *{n}; t }}"), K::Int, false),
            (format!("if *{n} > 0 {{ 1 }} else {{ 2 }}"), K::Int, false),
            (format!("(|a: i32, b: i32| a.wrapping_add(b))(*{n}, 1)"), K::Int, false),
        ],
        K::Float => vec![
            (n.clone(), K::Float, true),
            (format!("*{n} * 2.0"), K::Float, false),
            (format!("{n}.floor()"), K::Float, false),
            (format!("&{n}"), K::Float, false),
            (format!("f64::max(*{n}, 0.5)"), K::Float, false),
            (format!("*{n} > 1.0"), K::Bool, false),
        ],
        K::Str => vec![
            (n.clone(), K::Str, true),
            (format!("{n}.len()"), K::Size, false),
            (format!("{n}.to_uppercase()"), K::Str, false),
            (format!("format_args!(\"[{{}}, {{}}]\", {n}, 1)"), K::Str, false),
            (format!("&{n}"), K::Str, false),
            ("\"lit\"".to_string(), K::Str, false),
            (format!("{n}.chars().rev().collect::<String>()"), K::Str, false),
        ],
        K::Ptr => vec![
            (n.clone(), K::Ptr, true),
            (format!("*{n}"), K::Ptr, false),
            (format!("**{n} + 1"), K::Int, false),
        ],
        K::Size => vec![
            (n.clone(), K::Size, true),
            (format!("*{n}"), K::Size, false),
            (format!("{n} + 1"), K::Size, false),
            (format!("usize::min(*{n}, 9)"), K::Size, false),
            (format!("core::cmp::max::<usize>(*{n}, 1)"), K::Size, false),
        ],
        K::Bool => vec![(n.clone(), K::Bool, true)],
    };
    if self_reads {
        // reads the value through `self` (not through the field binding)
        forms.push((format!("self.{}", f.member), f.kind, false));
        if f.kind == K::Int {
            forms.push((format!("self.{}.wrapping_mul(3)", f.member), K::Int, false));
        }
    }
    // the bare field binding keeps a fixed share however many expression shapes there are
    let k = if d.chance(18) { 0 } else { d.pick(forms.len()) };
    forms[k].clone()
}

pub struct Shape {
    pub is_enum: bool,
    pub named: bool,
    pub fields: Vec<Field>,
    pub values: Vec<String>,
}

pub fn gen_fields(d: &mut Dice, min: usize, max: usize) -> (bool, Vec<Field>) {
    let named = d.chance(50);
    let nf = d.range(min, max);
    let pool = ["a", "b", "x", "name", "w", "_x"];
    let mut fields = vec![];
    for i in 0..nf {
        let kind = [K::Int, K::Str, K::Float, K::Ptr, K::Size][d.weighted(&[5, 3, 2, 2, 2])];
        let (name, member) = if named { (pool[i].to_string(), pool[i].to_string()) } else { (format!("_{i}"), format!("{i}")) };
        fields.push(Field { name, member, kind });
    }
    if named && d.chance(15) {
        // field names that coincide with names a `fmt` implementation typically uses itself (formatter parameter)
        let k = d.pick(fields.len());
        let n = ["f", "fmt"][d.pick(2)];
        fields[k].name = n.to_string();
        fields[k].member = n.to_string();
    }
    (named, fields)
}

pub const PRELUDE: &str = r#"
pub static N0: i32 = 40; pub static N1: i32 = 41; pub static N2: i32 = 42; pub static N3: i32 = 43;
"#;

fn spec_for(d: &mut Dice, kind: K, size_pos: &[usize], size_names: &[String]) -> Spec {
    let ty = kind.tys()[d.pick(kind.tys().len())].to_string();
    let mut s = Spec::bare(&ty);
    if d.chance(45) {
        match d.pick(4) {
            0 => {}
            1 => s.align = Some(*d.choose(&['<', '^', '>'])),
            _ => {
                s.fill = Some(*d.choose(&['*', '0', ' ', 'é', '#', '→']));
                s.align = Some(*d.choose(&['<', '^', '>']));
            }
        }
        if d.chance(25) {
            s.sign = Some(*d.choose(&['+', '-']));
        }
        s.alt = d.chance(25);
        s.zero = d.chance(20);
        let cnt = |d: &mut Dice| -> Cnt {
            match d.weighted(&[5, 4, if size_pos.is_empty() { 0 } else { 3 }, if size_names.is_empty() { 0 } else { 3 }]) {
                0 => Cnt::None,
                1 => Cnt::Int(d.range(0, 12)),
                2 => Cnt::ParamIdx(*d.choose(size_pos)),
                _ => Cnt::ParamName(d.choose(size_names).clone()),
            }
        };
        s.width = cnt(d);
        s.prec = cnt(d);
        if ty == "p" {
            // precision is not meaningful for pointers but allowed; keep width only
            s.prec = Cnt::None;
        }
        if d.chance(10) {
            s.ws = " ".to_string();
        }
    }
    s
}

fn build(d: &mut Dice) -> GenCase {
    let (tr, attr, tr_ty) = FMT_TRAITS[d.pick(9)];
    let is_enum = d.chance(40);
    let (named, mut fields) = gen_fields(d, 1, 4);
    let mut labels = vec![format!("trait={tr}"), format!("kind={}", if is_enum { "enum" } else { "struct" })];
    if named && d.chance(30) {
        // raw-identifier field: `r#type` as binding / argument, `type` inside the literal
        let k = d.pick(fields.len());
        let raw = ["r#type", "r#fn", "r#match"][d.pick(3)];
        fields[k].name = raw.to_string();
        fields[k].member = raw.to_string();
        labels.push("raw_identifier_field".into());
    }

    // arguments: positional then named
    let np = d.weighted(&[3, 4, 3, 2]);
    let nn = d.weighted(&[5, 3, 2]);
    let mut args: Vec<ArgE> = vec![];
    for _ in 0..np {
        let f = &fields[d.pick(fields.len())];
        let (expr, kind, bare) = arg_expr_in(f, d, !is_enum);
        args.push(ArgE { alias: None, expr, kind, bare_field: bare });
    }
    let alias_pool = ["k", "v", "al", "n2"];
    for j in 0..nn {
        let f = &fields[d.pick(fields.len())];
        let (expr, kind, bare) = arg_expr_in(f, d, !is_enum);
        // sometimes alias a field name (shadows the field inside the literal): `a = ..`, `r#type = ..`, `_0 = ..`
        let alias = if d.chance(12) { fields[d.pick(fields.len())].name.clone() } else { alias_pool[j].to_string() };
        if args.iter().any(|a| a.alias.as_deref() == Some(alias.as_str())) {
            continue;
        }
        args.push(ArgE { alias: Some(alias), expr, kind, bare_field: bare });
    }
    let np = args.iter().filter(|a| a.alias.is_none()).count();
    let aliased: Vec<String> = args.iter().filter_map(|a| a.alias.as_ref().map(|n| unraw(n))).collect();
    // `N$` / `name$` counts: `usize` arguments (expressions and bare field bindings alike) and `usize` fields named
    // directly in the literal (repo test `{field:<>width$.prec$}`)
    let size_pos: Vec<usize> = (0..np).filter(|i| args[*i].kind == K::Size).collect();
    let mut size_names: Vec<String> = args.iter().filter(|a| a.kind == K::Size).filter_map(|a| a.alias.as_ref().map(|n| unraw(n))).collect();
    let size_field_names: Vec<String> = fields.iter().filter(|f| f.kind == K::Size).map(|f| unraw(&f.name)).filter(|n| !aliased.contains(n)).collect();
    size_names.extend(size_field_names.iter().cloned());

    // pieces: every argument must be used at least once
    let mut pieces: Vec<Piece> = vec![];
    let mut counter = 0usize;
    let text = |d: &mut Dice| -> Piece {
        match d.pick(6) {
            0 => Piece::Open,
            1 => Piece::Close,
            2 => Piece::Text(" ".into()),
            3 => Piece::Text(", ".into()),
            4 => Piece::Text("é→".into()),
            _ => Piece::Text("=".into()),
        }
    };
    let mut star_used = false;
    let mut i = 0;
    while i < np {
        if d.chance(40) {
            pieces.push(text(d));
        }
        // `.*` : argument i is the precision (usize), argument i+1 the value
        if counter == i && i + 1 < np && args[i].kind == K::Size && !args[i].bare_field && matches!(args[i + 1].kind, K::Float | K::Str) && d.chance(60) {
            let mut sp = Spec::bare(if d.chance(30) { "?" } else { "" });
            sp.prec = Cnt::Star;
            if d.chance(40) {
                sp.width = Cnt::Int(d.range(0, 12));
            }
            pieces.push(Piece::Ph(Ph { arg: Arg::Implicit, spec: sp }));
            counter += 2;
            i += 2;
            star_used = true;
            continue;
        }
        let sp = spec_for(d, args[i].kind, &size_pos, &size_names);
        let arg = if counter == i && d.chance(60) {
            counter += 1;
            Arg::Implicit
        } else {
            Arg::Index(i)
        };
        pieces.push(Piece::Ph(Ph { arg, spec: sp }));
        i += 1;
    }
    for a in args.iter().filter(|a| a.alias.is_some()) {
        if d.chance(40) {
            pieces.push(text(d));
        }
        let sp = spec_for(d, a.kind, &size_pos, &size_names);
        pieces.push(Piece::Ph(Ph { arg: Arg::Name(unraw(a.alias.as_ref().unwrap())), spec: sp }));
    }
    // extra placeholders: fields by name, repeated arguments
    let extra = d.weighted(&[3, 4, 3, 2]);
    let mut direct_fields = 0;
    for _ in 0..extra {
        if d.chance(40) {
            pieces.push(text(d));
        }
        if d.chance(70) {
            let f = &fields[d.pick(fields.len())];
            // a field named directly is the field itself; when an alias of that name exists the alias wins
            let kind = args.iter().find(|a| a.alias.as_ref().map(|n| unraw(n)) == Some(unraw(&f.name))).map_or(f.kind, |a| a.kind);
            let sp = spec_for(d, kind, &size_pos, &size_names);
            pieces.push(Piece::Ph(Ph { arg: Arg::Name(unraw(&f.name)), spec: sp }));
            direct_fields += 1;
        } else if !args.is_empty() {
            let k = d.pick(args.len());
            let a = &args[k];
            let sp = spec_for(d, a.kind, &size_pos, &size_names);
            let arg = match &a.alias {
                Some(n) => Arg::Name(unraw(n)),
                None => Arg::Index(k),
            };
            pieces.push(Piece::Ph(Ph { arg, spec: sp }));
        }
    }
    if pieces.is_empty() {
        pieces.push(Piece::Text("unit".into()));
    }
    if d.chance(30) {
        pieces.push(text(d));
    }
    let lit = render(&pieces);
    let lit_tok = proc_macro2::Literal::string(&lit).to_string();
    let args_src: Vec<String> = args
        .iter()
        .map(|a| match &a.alias {
            Some(n) => format!("{n} = {}", a.expr),
            None => a.expr.clone(),
        })
        .collect();
    // a trailing comma after the literal / the last argument is accepted, as by `format!`
    let trailing_comma = d.chance(8);
    let attr_args = format!("{}{}", if args_src.is_empty() { lit_tok.clone() } else { format!("{lit_tok}, {}", args_src.join(", ")) }, if trailing_comma { "," } else { "" });
    // an enum-level format that does not mention `_variant` is only a default for variants *without* an attribute of
    // their own (display.md, "Default enum format"): it must not change what this variant prints
    let shared_default = is_enum && tr != "Debug" && d.chance(35);
    let shared_line = if shared_default { format!("#[{attr}(\"<shared default {{}}>\", 0)]\n") } else { String::new() };

    // names used directly in the literal (placeholder names and `$` names) that are fields and not aliased
    let mut named_in_lit: Vec<String> = vec![];
    for p in &pieces {
        if let Piece::Ph(ph) = p {
            let mut add = |n: &String| {
                if let Some(f) = fields.iter().find(|f| &unraw(&f.name) == n) {
                    if !aliased.contains(n) && !named_in_lit.contains(&f.name) {
                        named_in_lit.push(f.name.clone());
                    }
                }
            };
            if let Arg::Name(n) = &ph.arg {
                add(n);
            }
            if let Cnt::ParamName(n) = &ph.spec.width {
                add(n);
            }
            if let Cnt::ParamName(n) = &ph.spec.prec {
                add(n);
            }
        }
    }
    let ref_args: Vec<String> = args_src
        .iter()
        .cloned()
        .chain(named_in_lit.iter().map(|n| format!("{n} = *{n}")))
        .collect();
    let ref_call = if ref_args.is_empty() { format!("format!({lit_tok})") } else { format!("format!({lit_tok}, {})", ref_args.join(", ")) };

    let decl_fields = if named {
        format!("{{ {} }}", fields.iter().map(|f| format!("{}: {}", f.member, f.kind.ty())).collect::<Vec<_>>().join(", "))
    } else {
        format!("({})", fields.iter().map(|f| f.kind.ty().to_string()).collect::<Vec<_>>().join(", "))
    };
    let values: Vec<String> = fields.iter().enumerate().map(|(i, f)| f.kind.value(i, d)).collect();
    let ctor_fields = if named {
        format!("{{ {} }}", fields.iter().zip(&values).map(|(f, v)| format!("{}: {v}", f.member)).collect::<Vec<_>>().join(", "))
    } else {
        format!("({})", values.join(", "))
    };
    let pat_fields = if named {
        format!("{{ {} }}", fields.iter().map(|f| f.name.clone()).collect::<Vec<_>>().join(", "))
    } else {
        format!("({})", fields.iter().map(|f| f.name.clone()).collect::<Vec<_>>().join(", "))
    };
    let outer = if tr_ty.is_empty() { "{}".to_string() } else { format!("{{:{tr_ty}}}") };
    let semi = if named { "" } else { ";" };
    let body = if is_enum {
        format!(
            r#"#[derive(derive_more::{tr})]
{shared_line}pub enum T {{
    #[{attr}({attr_args})]
    V{decl_fields},
    #[{attr}("other")]
    Other,
}}
impl T {{
    pub fn tag(&self) -> u32 {{ 7 }}
    pub fn __ref(&self) -> String {{
        match self {{
            T::V{pat_fields} => {ref_call},
            T::Other => String::new(),
        }}
    }}
}}
pub fn run(o: &mut Out) {{
    let v = T::V{ctor_fields};
    o.eq("derived == format!(literal, args)", &v.__ref(), &format!("{outer}", v));
}}"#
        )
    } else {
        let lets: String = fields.iter().map(|f| format!("        let {} = &self.{};\n", f.name, f.member)).collect();
        format!(
            r#"#[derive(derive_more::{tr})]
#[{attr}({attr_args})]
pub struct T{decl_fields}{semi}
impl T {{
    pub fn tag(&self) -> u32 {{ 7 }}
    pub fn __ref(&self) -> String {{
{lets}        {ref_call}
    }}
}}
pub fn run(o: &mut Out) {{
    let v = T{ctor_fields};
    o.eq("derived == format!(literal, args)", &v.__ref(), &format!("{outer}", v));
}}"#
        )
    };
    let nph = pieces.iter().filter(|p| matches!(p, Piece::Ph(_))).count();
    let has_spec = pieces.iter().any(|p| matches!(p, Piece::Ph(ph) if ph.spec.has_modifiers()));
    let nonbare = args.iter().any(|a| !a.bare_field);
    if star_used {
        labels.push("has_star_precision".into());
    }
    if shared_default {
        labels.push("enum_level_default_format".into());
    }
    if trailing_comma {
        labels.push("trailing_comma".into());
    }
    if fields.iter().any(|f| f.name == "f" || f.name == "fmt") {
        labels.push("field_named_like_formatter".into());
    }
    if !named && args.iter().any(|a| a.alias.as_ref().is_some_and(|n| n.starts_with('_'))) {
        labels.push("alias_shadows_positional_field".into());
    }
    if args.iter().any(|a| a.expr.contains("self.") && !a.expr.contains("self.tag()")) {
        labels.push("argument_reads_self".into());
    }
    if args.iter().any(|a| ["&", "7", "\"lit\""].iter().any(|p| a.expr == *p || (p.len() == 1 && a.expr.starts_with(p))) || a.expr.contains("::<") || a.expr.contains(" as Into<") || a.expr.contains(" < ") || a.expr.contains(" > ") || a.expr.starts_with('{') || a.expr.starts_with("if ") || a.expr.starts_with("(|")) {
        labels.push("rich_expression_argument".into());
    }
    {
        let is_field_count = |c: &Cnt| match c {
            Cnt::ParamName(n) => size_field_names.contains(n),
            Cnt::ParamIdx(i) => args.get(*i).is_some_and(|a| a.bare_field),
            _ => false,
        };
        if pieces.iter().any(|p| matches!(p, Piece::Ph(ph) if is_field_count(&ph.spec.width) || is_field_count(&ph.spec.prec))) {
            labels.push("count_parameter_is_field".into());
        }
    }
    if direct_fields > 0 {
        labels.push("field_named_in_literal".into());
    }
    if has_spec {
        labels.push("placeholder_with_flags".into());
    }
    if nonbare {
        labels.push("expression_argument".into());
    }
    if !aliased.is_empty() {
        labels.push("alias_argument".into());
    }
    if pieces.iter().any(|p| matches!(p, Piece::Ph(ph) if matches!(ph.spec.width, Cnt::ParamIdx(_) | Cnt::ParamName(_)) || matches!(ph.spec.prec, Cnt::ParamIdx(_) | Cnt::ParamName(_)))) {
        labels.push("dollar_parameter".into());
    }
    if pieces.iter().any(|p| matches!(p, Piece::Ph(ph) if ph.spec.ty == "p")) {
        labels.push("pointer_placeholder".into());
    }
    let mut c = GenCase::new(body);
    c.labels = labels;
    c.nontrivial = pieces.len() >= 2 || has_spec || nonbare;
    c.meta = json!({"literal": lit, "placeholders": nph, "trait": tr});
    c
}

/// Independent implementation of the eight documented casings for names made of `[A-Z][a-z]+` words.
pub fn casing(words: &[&str], case: &str) -> String {
    let lower: Vec<String> = words.iter().map(|w| w.to_lowercase()).collect();
    let upper: Vec<String> = words.iter().map(|w| w.to_uppercase()).collect();
    let cap = |w: &String| {
        let mut c = w.chars();
        c.next().map(|f| f.to_uppercase().collect::<String>() + c.as_str()).unwrap_or_default()
    };
    match case {
        "lowercase" => lower.concat(),
        "UPPERCASE" => upper.concat(),
        "PascalCase" => lower.iter().map(cap).collect::<Vec<_>>().concat(),
        "camelCase" => lower.iter().enumerate().map(|(i, w)| if i == 0 { w.clone() } else { cap(w) }).collect::<Vec<_>>().concat(),
        "snake_case" => lower.join("_"),
        "SCREAMING_SNAKE_CASE" => upper.join("_"),
        "kebab-case" => lower.join("-"),
        "SCREAMING-KEBAB-CASE" => upper.join("-"),
        _ => unreachable!(),
    }
}

pub const CASINGS: [&str; 8] = [
    "lowercase", "UPPERCASE", "PascalCase", "camelCase", "snake_case", "SCREAMING_SNAKE_CASE", "kebab-case", "SCREAMING-KEBAB-CASE",
];
pub const WORDS: [&str; 8] = ["Foo", "Bar", "Http", "Request", "Id", "Version", "Two", "Ab"];

pub fn gen_words(d: &mut Dice) -> Vec<&'static str> {
    let n = d.range(1, 3);
    (0..n).map(|_| WORDS[d.pick(WORDS.len())]).collect()
}

/// attribute-less cases: single field under each trait; unit struct / unit variant names with rename_all
fn build_implicit(d: &mut Dice) -> GenCase {
    if d.chance(50) {
        // single field prints as the field does under the derived trait
        let (tr, _attr, tr_ty) = FMT_TRAITS[d.pick(9)];
        let kinds: &[K] = match tr {
            "Display" | "Debug" => &[K::Int, K::Str, K::Float, K::Ptr, K::Size],
            "LowerExp" | "UpperExp" => &[K::Int, K::Float, K::Size],
            "Pointer" => &[K::Ptr],
            _ => &[K::Int, K::Size],
        };
        let kind = kinds[d.pick(kinds.len())];
        let named = d.chance(50);
        let is_enum = d.chance(50);
        let val = kind.value(1, d);
        let ty = kind.ty();
        let outer = if tr_ty.is_empty() { "{}".to_string() } else { format!("{{:{tr_ty}}}") };
        let (decl, ctor, acc) = if named { (format!("{{ r#fn: {ty} }}"), format!("{{ r#fn: {val} }}"), "r#fn") } else { (format!("({ty})"), format!("({val})"), "0") };
        // derive_more::Debug without attributes prints like std Debug (C06), not like the field: only the other 8 here
        if tr == "Debug" {
            let mut c = build_unit(d);
            c.labels.push("implicit".into());
            return c;
        }
        let body = if is_enum {
            let pat = if named { "{ r#fn: x }" } else { "(x)" };
            format!(
                "#[derive(derive_more::{tr})]\npub enum T {{ V{decl}, #[{_attr}(\"o\")] Other }}\npub fn run(o: &mut Out) {{\n    let v = T::V{ctor};\n    let expected = match &v {{ T::V{pat} => format!(\"{outer}\", *x), _ => String::new() }};\n    o.eq(\"single field prints as the field\", &expected, &format!(\"{outer}\", v));\n}}"
            )
        } else {
            let semi = if named { "" } else { ";" };
            format!(
                "#[derive(derive_more::{tr})]\npub struct T{decl}{semi}\npub fn run(o: &mut Out) {{\n    let v = T{ctor};\n    o.eq(\"single field prints as the field\", &format!(\"{outer}\", v.{acc}), &format!(\"{outer}\", v));\n}}"
            )
        };
        let mut c = GenCase::new(body);
        c.labels = vec!["implicit".into(), "implicit_single_field".into(), format!("trait={tr}")];
        c.nontrivial = true;
        c
    } else {
        let mut c = build_unit(d);
        c.labels.push("implicit".into());
        c
    }
}

/// the three ways to write a field-less struct / variant: `X`, `X()`, `X {}` (display.md: `struct UnitStruct {}` prints
/// "UnitStruct"): (declaration suffix, value suffix, label)
const EMPTY_SHAPES: [(&str, &str, &str); 3] = [("", "", "unit"), ("()", "()", "empty_tuple"), (" {}", " {}", "empty_braces")];

fn build_unit(d: &mut Dice) -> GenCase {
    if d.chance(35) {
        // field-less struct, under each of the eight Display-like traits (the attribute is named after the trait)
        let (tr, attr, tr_ty) = FMT_TRAITS[[0usize, 0, 0, 2, 3, 4, 5, 6, 7, 8][d.pick(10)]];
        let casing_attr = |c: &str| format!("#[{attr}(rename_all = \"{c}\")]\n");
        let words = gen_words(d);
        let name = words.concat();
        let raw = d.chance(20);
        let ident = if raw { format!("r#{name}") } else { name.clone() };
        let case = if d.chance(70) { Some(CASINGS[d.pick(8)]) } else { None };
        let (decl, val, shape_label) = EMPTY_SHAPES[d.weighted(&[3, 1, 1])];
        let semi = if decl == " {}" { "" } else { ";" };
        let expected = case.map_or(name.clone(), |c| casing(&words, c));
        let attr_line = case.map_or(String::new(), casing_attr);
        let outer = if tr_ty.is_empty() { "{}".to_string() } else { format!("{{:{tr_ty}}}") };
        let body = format!(
            "#[derive(derive_more::{tr})]\n{attr_line}pub struct {ident}{decl}{semi}\npub fn run(o: &mut Out) {{\n    o.eq(\"unit struct prints its name\", {expected:?}, &format!(\"{outer}\", {ident}{val}));\n}}"
        );
        let mut c = GenCase::new(body);
        c.labels = vec!["implicit_unit_struct".into(), format!("trait={tr}"), format!("empty_shape={shape_label}")];
        if tr != "Display" {
            c.labels.push("implicit_unit_struct_non_display_trait".into());
        }
        if let Some(cs) = case {
            c.labels.push(format!("rename_all={cs}"));
        }
        if raw {
            c.labels.push("raw_ident_name".into());
        }
        c.nontrivial = case.is_some() || raw || tr != "Display" || shape_label != "unit";
        c
    } else {
        // (implicit formatting of a field-less variant is documented for `Display` only)
        let casing_attr = |c: &str| format!("#[display(rename_all = \"{c}\")]\n");
        let enum_case = if d.chance(60) { Some(CASINGS[d.pick(8)]) } else { None };
        let nv = d.range(1, 4);
        let mut variants = String::new();
        let mut checks = String::new();
        let mut seen = std::collections::HashSet::new();
        let mut labels = vec!["implicit_unit_variant".to_string()];
        for _ in 0..nv {
            let words = gen_words(d);
            let name = words.concat();
            if !seen.insert(name.clone()) {
                continue;
            }
            let raw = d.chance(15);
            let ident = if raw { format!("r#{name}") } else { name.clone() };
            let own = if d.chance(35) { Some(CASINGS[d.pick(8)]) } else { None };
            let (decl, val, shape_label) = EMPTY_SHAPES[d.weighted(&[4, 1, 1])];
            let eff = own.or(enum_case);
            let expected = eff.map_or(name.clone(), |c| casing(&words, c));
            if let Some(o) = own {
                variants.push_str(&format!("    #[display(rename_all = \"{o}\")]\n"));
                labels.push("variant_overrides_rename_all".into());
            }
            if raw {
                labels.push("raw_ident_name".into());
            }
            if shape_label != "unit" {
                labels.push(format!("empty_shape={shape_label}"));
            }
            variants.push_str(&format!("    {ident}{decl},\n"));
            checks.push_str(&format!(
                "    o.eq(\"unit variant {name} prints its (renamed) name\", {expected:?}, &format!(\"{{}}\", T::{ident}{val}));\n"
            ));
        }
        let attr = enum_case.map_or(String::new(), casing_attr);
        if let Some(cs) = enum_case {
            labels.push(format!("rename_all={cs}"));
        }
        let body = format!("#[derive(derive_more::Display)]\n{attr}pub enum T {{\n{variants}}}\npub fn run(o: &mut Out) {{\n{checks}}}");
        let mut c = GenCase::new(body);
        c.nontrivial = labels.len() > 1;
        c.labels = labels;
        c
    }
}

fn build_any(d: &mut Dice) -> GenCase {
    if d.chance(22) {
        build_implicit(d)
    } else {
        build(d)
    }
}

fn classify(_c: &GenCase, _r: &CaseResult, _f: &Finding) -> Option<String> {
    None
}

pub fn prop() -> DiceProp {
    DiceProp {
        crate_name: "gen_c02",
        prelude: PRELUDE.to_string(),
        crate_attrs: String::new(),
        nightly: false,
        check_only: false,
        ndice: 160,
        quick: (10000, 1),
        thorough: (8000, 8),
        build: build_any,
        fixed: no_fixed,
        classify,
        rule: "struct or enum variant deriving one of the 9 fmt traits with a generated literal (text, escapes, placeholders with implicit/indexed/named arguments, fill/align/sign/#/0, width and precision incl. `$` parameters and `.*`, all 11 types) and an argument list (bare fields, aliases, expressions over the field bindings, self.method(), format_args!); additionally: enum-level default format next to the variant's own attribute, fields named `f`/`fmt`, aliases shadowing `_0`, `$` counts taken from `usize` fields, trailing commas, arguments reading `self.<field>`, expression shapes with generic paths / comparisons / blocks / closures; attribute-less field-less structs (`X`, `X()`, `X {}`) under all 8 Display-like traits and variants (`V`, `V()`, `V {}`) with rename_all; oracle: reference method calling format! with the identical literal and arguments and the documented field bindings; non-trivial = literal has >=2 pieces, or a placeholder with flags, or a non-bare-field argument; distinct by program text".into(),
        assumptions: vec!["plain format! of the same toolchain is the reference".into()],
        floors: vec![
            ("placeholder_with_flags".into(), 0.2),
            ("expression_argument".into(), 0.2),
            ("field_named_in_literal".into(), 0.2),
            ("kind=enum".into(), 0.15),
            ("implicit".into(), 0.1),
            ("has_star_precision".into(), 0.005),
            ("pointer_placeholder".into(), 0.02),
            ("enum_level_default_format".into(), 0.05),
            ("field_named_like_formatter".into(), 0.02),
            ("rich_expression_argument".into(), 0.1),
            ("argument_reads_self".into(), 0.03),
            ("count_parameter_is_field".into(), 0.005),
            ("implicit_unit_struct_non_display_trait".into(), 0.01),
        ],
        shards: 0,
    }
}

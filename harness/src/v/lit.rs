//! Format literals: a structured model (so generators know the placeholders without parsing),
//! the view of derive_more's literal parser, and the client of the `fmtref` service
//! (rustc_parse_format) used as reference.
use proptest::prelude::*;
use serde::{Deserialize, Serialize};
use std::io::{BufRead, BufReader, Write};
use std::process::{Child, ChildStdin, ChildStdout, Command, Stdio};

pub const TYPES: [&str; 11] = ["", "?", "x?", "X?", "o", "x", "X", "p", "b", "e", "E"];

pub fn trait_of_ty(ty: &str) -> Option<&'static str> {
    Some(match ty {
        "" => "Display",
        "?" | "x?" | "X?" => "Debug",
        "o" => "Octal",
        "x" => "LowerHex",
        "X" => "UpperHex",
        "p" => "Pointer",
        "b" => "Binary",
        "e" => "LowerExp",
        "E" => "UpperExp",
        _ => return None,
    })
}

#[derive(Clone, Debug, PartialEq, Eq, Serialize, Deserialize)]
pub enum Arg {
    Implicit,
    Index(usize),
    Name(String),
}

#[derive(Clone, Debug, PartialEq, Eq, Serialize, Deserialize)]
pub enum Cnt {
    None,
    Int(usize),
    ParamIdx(usize),
    ParamName(String),
    /// only valid for precision: `.*`
    Star,
}

#[derive(Clone, Debug, PartialEq, Eq, Serialize, Deserialize)]
pub struct Spec {
    pub fill: Option<char>,
    pub align: Option<char>,
    pub sign: Option<char>,
    pub alt: bool,
    pub zero: bool,
    pub width: Cnt,
    pub prec: Cnt,
    pub ty: String,
    /// whitespace before the closing brace (std allows it)
    pub ws: String,
}

impl Spec {
    pub fn bare(ty: &str) -> Spec {
        Spec {
            fill: None,
            align: None,
            sign: None,
            alt: false,
            zero: false,
            width: Cnt::None,
            prec: Cnt::None,
            ty: ty.to_string(),
            ws: String::new(),
        }
    }
    pub fn has_modifiers(&self) -> bool {
        self.align.is_some()
            || self.sign.is_some()
            || self.alt
            || self.zero
            || self.width != Cnt::None
            || self.prec != Cnt::None
            || self.ty == "x?"
            || self.ty == "X?"
    }
    pub fn is_empty(&self) -> bool {
        !self.has_modifiers() && self.ty.is_empty()
    }
    pub fn render(&self) -> String {
        let mut s = String::new();
        if let Some(a) = self.align {
            if let Some(f) = self.fill {
                s.push(f);
            }
            s.push(a);
        }
        if let Some(c) = self.sign {
            s.push(c);
        }
        if self.alt {
            s.push('#');
        }
        if self.zero {
            s.push('0');
        }
        match &self.width {
            Cnt::None | Cnt::Star => {}
            Cnt::Int(n) => s.push_str(&n.to_string()),
            Cnt::ParamIdx(n) => s.push_str(&format!("{n}$")),
            Cnt::ParamName(n) => s.push_str(&format!("{n}$")),
        }
        match &self.prec {
            Cnt::None => {}
            Cnt::Int(n) => s.push_str(&format!(".{n}")),
            Cnt::ParamIdx(n) => s.push_str(&format!(".{n}$")),
            Cnt::ParamName(n) => s.push_str(&format!(".{n}$")),
            Cnt::Star => s.push_str(".*"),
        }
        s.push_str(&self.ty);
        s
    }
}

#[derive(Clone, Debug, PartialEq, Eq, Serialize, Deserialize)]
pub struct Ph {
    pub arg: Arg,
    pub spec: Spec,
}

impl Ph {
    pub fn render(&self) -> String {
        let mut s = String::from("{");
        match &self.arg {
            Arg::Implicit => {}
            Arg::Index(i) => s.push_str(&i.to_string()),
            Arg::Name(n) => s.push_str(n),
        }
        let sp = self.spec.render();
        if !sp.is_empty() {
            s.push(':');
            s.push_str(&sp);
        }
        s.push_str(&self.spec.ws);
        s.push('}');
        s
    }
}

#[derive(Clone, Debug, PartialEq, Eq, Serialize, Deserialize)]
pub enum Piece {
    Text(String),
    Open,
    Close,
    Ph(Ph),
}

pub fn render(pieces: &[Piece]) -> String {
    let mut s = String::new();
    for p in pieces {
        match p {
            Piece::Text(t) => s.push_str(t),
            Piece::Open => s.push_str("{{"),
            Piece::Close => s.push_str("}}"),
            Piece::Ph(p) => s.push_str(&p.render()),
        }
    }
    s
}

// ------------------------------------------------------------------------------------------------
// Views: what a parser recognised, in one comparable shape.

#[derive(Clone, Debug, PartialEq, Eq)]
pub enum Pos {
    /// implicit; for the reference parser the index rustc assigned
    Implicit(Option<usize>),
    Index(usize),
    Name(String),
}

#[derive(Clone, Debug, PartialEq, Eq)]
pub struct PhView {
    pub pos: Pos,
    pub fill: Option<char>,
    pub align: Option<char>,
    pub sign: Option<char>,
    pub alt: bool,
    pub zero: bool,
    pub width: Cnt,
    pub prec: Cnt,
    /// the type string (`x?` includes the debug-hex flag)
    pub ty: String,
}

impl PhView {
    pub fn has_modifiers(&self) -> bool {
        self.align.is_some()
            || self.sign.is_some()
            || self.alt
            || self.zero
            || self.width != Cnt::None
            || self.prec != Cnt::None
            || self.ty == "x?"
            || self.ty == "X?"
    }
    /// Same explicit argument, trait and presence/absence (and kind) of every flag. `Implicit`
    /// positions compare equal regardless of the assigned index (stage A is parser-level).
    pub fn same_as(&self, o: &PhView) -> bool {
        let pos_eq = match (&self.pos, &o.pos) {
            (Pos::Implicit(_), Pos::Implicit(_)) => true,
            (a, b) => a == b,
        };
        // std parses the star index into the count; dm has plain Star: compare kinds
        let cnt_eq = |a: &Cnt, b: &Cnt| a == b;
        pos_eq
            && self.fill == o.fill
            && self.align == o.align
            && self.sign == o.sign
            && self.alt == o.alt
            && self.zero == o.zero
            && cnt_eq(&self.width, &o.width)
            && cnt_eq(&self.prec, &o.prec)
            && trait_of_ty(&self.ty) == trait_of_ty(&o.ty)
            && self.ty == o.ty
    }
}

/// derive_more's parse of a literal, field by field.
pub fn dm_view(s: &str) -> Option<Vec<PhView>> {
    use crate::fmt_parsing as p;
    let fs = p::format_string(s)?;
    let cnt = |c: &p::Count<'_>| match c {
        p::Count::Integer(n) => Cnt::Int(*n),
        p::Count::Parameter(p::Argument::Integer(n)) => Cnt::ParamIdx(*n),
        p::Count::Parameter(p::Argument::Identifier(n)) => Cnt::ParamName(n.to_string()),
    };
    Some(
        fs.formats
            .iter()
            .map(|f| {
                let pos = match f.arg {
                    None => Pos::Implicit(None),
                    Some(p::Argument::Integer(n)) => Pos::Index(n),
                    Some(p::Argument::Identifier(n)) => Pos::Name(n.to_string()),
                };
                match &f.spec {
                    None => PhView {
                        pos,
                        fill: None,
                        align: None,
                        sign: None,
                        alt: false,
                        zero: false,
                        width: Cnt::None,
                        prec: Cnt::None,
                        ty: String::new(),
                    },
                    Some(sp) => PhView {
                        pos,
                        fill: sp.align.and_then(|(f, _)| f),
                        align: sp.align.map(|(_, a)| match a {
                            p::Align::Left => '<',
                            p::Align::Center => '^',
                            p::Align::Right => '>',
                        }),
                        sign: sp.sign.map(|s| match s {
                            p::Sign::Plus => '+',
                            p::Sign::Minus => '-',
                        }),
                        alt: sp.alternate.is_some(),
                        zero: sp.zero_padding.is_some(),
                        width: sp.width.as_ref().map(cnt).unwrap_or(Cnt::None),
                        prec: match &sp.precision {
                            None => Cnt::None,
                            Some(p::Precision::Star) => Cnt::Star,
                            Some(p::Precision::Count(c)) => cnt(c),
                        },
                        ty: match sp.ty {
                            p::Type::Display => "",
                            p::Type::Debug => "?",
                            p::Type::LowerDebug => "x?",
                            p::Type::UpperDebug => "X?",
                            p::Type::Octal => "o",
                            p::Type::LowerHex => "x",
                            p::Type::UpperHex => "X",
                            p::Type::Pointer => "p",
                            p::Type::Binary => "b",
                            p::Type::LowerExp => "e",
                            p::Type::UpperExp => "E",
                        }
                        .to_string(),
                    },
                }
            })
            .collect(),
    )
}

/// rustc's verdict on a literal.
#[derive(Clone, Debug, PartialEq, Eq)]
pub enum RefParse {
    /// parse errors: `format_args!` rejects the literal
    Reject,
    /// parsed; placeholders (a `ty` outside the 11 known ones is rejected later by format_args!)
    Parsed(Vec<PhView>),
}

impl RefParse {
    /// std accepts: no parse errors and every type is one of the 11 formatting types
    pub fn std_ok(&self) -> Option<&Vec<PhView>> {
        match self {
            RefParse::Parsed(v) if v.iter().all(|p| trait_of_ty(&p.ty).is_some()) => Some(v),
            _ => None,
        }
    }
}

fn hex(s: &str) -> String {
    let mut o = String::with_capacity(s.len() * 2);
    for b in s.bytes() {
        o.push_str(&format!("{:02x}", b));
    }
    o
}
fn unhex(s: &str) -> String {
    let b: Vec<u8> = (0..s.len() / 2)
        .map(|i| u8::from_str_radix(&s[2 * i..2 * i + 2], 16).unwrap_or(b'?'))
        .collect();
    String::from_utf8_lossy(&b).to_string()
}

fn parse_cnt(s: &str) -> Cnt {
    match s.as_bytes().first() {
        None | Some(b'-') => Cnt::None,
        Some(b'i') => Cnt::Int(s[1..].parse().unwrap_or(usize::MAX)),
        Some(b'p') => Cnt::ParamIdx(s[1..].parse().unwrap_or(usize::MAX)),
        Some(b'a') => Cnt::ParamName(unhex(&s[1..])),
        Some(b's') => Cnt::Star,
        _ => Cnt::None,
    }
}

pub fn parse_ref_line(line: &str) -> Result<RefParse, String> {
    if line == "E" {
        return Ok(RefParse::Reject);
    }
    let Some(rest) = line.strip_prefix('P') else {
        return Err(format!("bad fmtref line {line:?}"));
    };
    let mut v = vec![];
    if rest.is_empty() {
        return Ok(RefParse::Parsed(v));
    }
    for part in rest.split('|') {
        let f: Vec<&str> = part.split(';').collect();
        if f.len() != 10 {
            return Err(format!("bad fmtref part {part:?}"));
        }
        let pos = match f[0].as_bytes()[0] {
            b'i' => Pos::Implicit(f[0][1..].parse().ok()),
            b'n' => Pos::Index(f[0][1..].parse().map_err(|_| "idx")?),
            b'a' => Pos::Name(unhex(&f[0][1..])),
            _ => return Err(format!("bad pos {part:?}")),
        };
        let fill = if f[1] == "-" {
            None
        } else {
            u32::from_str_radix(f[1], 16).ok().and_then(char::from_u32)
        };
        let align = match f[2] {
            "-" => None,
            a => a.chars().next(),
        };
        let sign = match f[3] {
            "+" => Some('+'),
            "m" => Some('-'),
            _ => None,
        };
        let dhex = f[6];
        let ty0 = unhex(f[9]);
        let ty = match dhex {
            "x" => format!("x{ty0}"),
            "X" => format!("X{ty0}"),
            _ => ty0,
        };
        v.push(PhView {
            pos,
            fill,
            align,
            sign,
            alt: f[4] == "1",
            zero: f[5] == "1",
            width: parse_cnt(f[7]),
            prec: parse_cnt(f[8]),
            ty,
        });
    }
    Ok(RefParse::Parsed(v))
}

/// Client of the `fmtref` process.
pub struct FmtRef {
    child: Child,
    stdin: Option<ChildStdin>,
    stdout: BufReader<ChildStdout>,
}

impl FmtRef {
    pub fn start() -> Result<FmtRef, String> {
        let bin = std::env::var("DMV_FMTREF").map_err(|_| "DMV_FMTREF not set".to_string())?;
        let lib = std::env::var("DMV_NIGHTLY_LIB").unwrap_or_default();
        let mut child = Command::new(&bin)
            .env("LD_LIBRARY_PATH", lib)
            .stdin(Stdio::piped())
            .stdout(Stdio::piped())
            .stderr(Stdio::null())
            .spawn()
            .map_err(|e| format!("cannot start fmtref {bin}: {e}"))?;
        let stdin = child.stdin.take();
        let stdout = BufReader::new(child.stdout.take().unwrap());
        Ok(FmtRef { child, stdin, stdout })
    }

    /// Parses a batch of literals with rustc's parser.
    pub fn parse_batch(&mut self, lits: &[String]) -> Result<Vec<RefParse>, String> {
        // write in a thread-less way: chunks small enough not to dead-lock on pipe buffers
        let mut out = Vec::with_capacity(lits.len());
        for chunk in lits.chunks(256) {
            {
                let w = self.stdin.as_mut().ok_or("fmtref stdin closed")?;
                let mut buf = String::new();
                for l in chunk {
                    buf.push_str(&hex(l));
                    buf.push('\n');
                }
                buf.push_str("FLUSH\n");
                w.write_all(buf.as_bytes()).map_err(|e| format!("fmtref write: {e}"))?;
                w.flush().map_err(|e| format!("fmtref flush: {e}"))?;
            }
            let mut n = 0;
            loop {
                let mut line = String::new();
                let r = self.stdout.read_line(&mut line).map_err(|e| format!("fmtref read: {e}"))?;
                if r == 0 {
                    return Err("fmtref exited unexpectedly (crash on an input?)".into());
                }
                let line = line.trim_end();
                if line == "FLUSHED" {
                    break;
                }
                out.push(parse_ref_line(line)?);
                n += 1;
            }
            if n != chunk.len() {
                return Err(format!("fmtref answered {n} lines for {} inputs", chunk.len()));
            }
        }
        Ok(out)
    }
}

impl Drop for FmtRef {
    fn drop(&mut self) {
        self.stdin.take();
        let _ = self.child.wait();
    }
}

// ------------------------------------------------------------------------------------------------
// Strategies

pub fn arb_ty() -> impl Strategy<Value = String> {
    (0u16..=u16::MAX).prop_map(|i| TYPES[super::core::pick_idx(i, TYPES.len())].to_string())
}

/// Names usable as named arguments / `$` parameters.
#[derive(Clone, Debug)]
pub struct Names {
    pub names: Vec<String>,
    pub max_index: usize,
}

pub fn arb_cnt(names: Vec<String>, max_index: usize, allow_star: bool) -> BoxedStrategy<Cnt> {
    let mut alts: Vec<(u32, BoxedStrategy<Cnt>)> = vec![
        (6, Just(Cnt::None).boxed()),
        (3, (0usize..14).prop_map(Cnt::Int).boxed()),
    ];
    if max_index > 0 {
        alts.push((2, (0..max_index).prop_map(Cnt::ParamIdx).boxed()));
    }
    if !names.is_empty() {
        let n = names.clone();
        alts.push((2, (0..n.len()).prop_map(move |i| Cnt::ParamName(n[i].clone())).boxed()));
    }
    if allow_star {
        alts.push((2, Just(Cnt::Star).boxed()));
    }
    proptest::strategy::Union::new_weighted(alts).boxed()
}

pub fn arb_spec(names: Vec<String>, max_index: usize, allow_star: bool) -> impl Strategy<Value = Spec> {
    (
        prop_oneof![
            5 => Just((None, None)),
            2 => prop_oneof![Just('<'), Just('^'), Just('>')].prop_map(|a| (None, Some(a))),
            2 => (prop_oneof![Just('*'), Just('0'), Just(' '), Just('é'), Just('<'), Just('#'), Just('}'), Just('{'), Just('→')],
                  prop_oneof![Just('<'), Just('^'), Just('>')]).prop_map(|(f, a)| (Some(f), Some(a))),
        ],
        prop_oneof![4 => Just(None), 1 => Just(Some('+')), 1 => Just(Some('-'))],
        proptest::bool::weighted(0.2),
        proptest::bool::weighted(0.2),
        arb_cnt(names.clone(), max_index, false),
        arb_cnt(names, max_index, allow_star),
        arb_ty(),
        prop_oneof![8 => Just(""), 1 => Just(" "), 1 => Just("\n"), 1 => Just("  ")],
    )
        .prop_map(|((fill, align), sign, alt, zero, width, prec, ty, ws)| Spec {
            fill,
            align,
            sign,
            alt,
            zero,
            width,
            prec,
            ty,
            ws: ws.to_string(),
        })
}

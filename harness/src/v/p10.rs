//! C10 — derived operators act field-wise with operand order preserved.
//!
//! Every case is one struct or enum deriving one of the 24 operator derives. Its fields have the types
//! `F0..F3` of the prelude: a *free term algebra* in which every operator builds a new term
//! (`add(L0,R0)`, `not(L1)`, `mul(L2,K7)` ...), `*Assign` is `*self = self.clone() op rhs`, and
//! `Sum`/`Product` fold with `+`/`*` from the leaf `Zero`/`One`. Operand leaves are tagged with side and
//! field index, so any swap of operands, fields or operators changes the resulting term and one symbolic
//! evaluation decides the statement for all operand values. The oracle (inside the generated program)
//! builds the expected value by hand from term constructors — no derived code involved — and compares
//! the `Debug` renderings (std `#[derive(Debug)]` on the case type, hand-written on `Term`).
use super::progprop::*;
use super::proggen::CaseResult;
use serde_json::json;

pub const SIG_FORWARD_ENUM: &str = "c10-mul-forward-enum";

#[derive(Clone, Copy, Debug, PartialEq, Eq)]
pub enum Fam {
    AddLike,
    AddAssignLike,
    MulLike,
    MulAssignLike,
    NotLike,
    SumLike,
}

pub struct OpD {
    pub derive: &'static str,
    pub fam: Fam,
    /// the std method name = the name recorded in the term (`add`, `bitand`, ...), from the std docs
    pub name: &'static str,
    /// operator token
    pub sym: &'static str,
    /// helper attribute of the Mul-like derives
    pub attr: &'static str,
}

const fn o(derive: &'static str, fam: Fam, name: &'static str, sym: &'static str, attr: &'static str) -> OpD {
    OpD { derive, fam, name, sym, attr }
}

pub const OPS: [OpD; 24] = [
    o("Add", Fam::AddLike, "add", "+", ""),
    o("Sub", Fam::AddLike, "sub", "-", ""),
    o("BitAnd", Fam::AddLike, "bitand", "&", ""),
    o("BitOr", Fam::AddLike, "bitor", "|", ""),
    o("BitXor", Fam::AddLike, "bitxor", "^", ""),
    o("AddAssign", Fam::AddAssignLike, "add", "+=", ""),
    o("SubAssign", Fam::AddAssignLike, "sub", "-=", ""),
    o("BitAndAssign", Fam::AddAssignLike, "bitand", "&=", ""),
    o("BitOrAssign", Fam::AddAssignLike, "bitor", "|=", ""),
    o("BitXorAssign", Fam::AddAssignLike, "bitxor", "^=", ""),
    o("Mul", Fam::MulLike, "mul", "*", "mul"),
    o("Div", Fam::MulLike, "div", "/", "div"),
    o("Rem", Fam::MulLike, "rem", "%", "rem"),
    o("Shr", Fam::MulLike, "shr", ">>", "shr"),
    o("Shl", Fam::MulLike, "shl", "<<", "shl"),
    o("MulAssign", Fam::MulAssignLike, "mul", "*=", "mul_assign"),
    o("DivAssign", Fam::MulAssignLike, "div", "/=", "div_assign"),
    o("RemAssign", Fam::MulAssignLike, "rem", "%=", "rem_assign"),
    o("ShrAssign", Fam::MulAssignLike, "shr", ">>=", "shr_assign"),
    o("ShlAssign", Fam::MulAssignLike, "shl", "<<=", "shl_assign"),
    o("Not", Fam::NotLike, "not", "!", ""),
    o("Neg", Fam::NotLike, "neg", "-", ""),
    o("Sum", Fam::SumLike, "add", "+", ""),
    o("Product", Fam::SumLike, "mul", "*", ""),
];

pub const PRELUDE: &str = r#"
#[derive(Clone, PartialEq, Eq)]
pub enum Term {
    Leaf(&'static str, u8),
    K(u8),
    NK(u8),
    Zero,
    One,
    Op(&'static str, Box<Term>, Box<Term>),
    Un(&'static str, Box<Term>),
}
impl std::fmt::Debug for Term {
    fn fmt(&self, f: &mut std::fmt::Formatter<'_>) -> std::fmt::Result {
        match self {
            Term::Leaf(s, i) => write!(f, "{}{}", s, i),
            Term::K(v) => write!(f, "K{}", v),
            Term::NK(v) => write!(f, "NK{}", v),
            Term::Zero => write!(f, "Zero"),
            Term::One => write!(f, "One"),
            Term::Op(n, a, b) => write!(f, "{}({:?},{:?})", n, a, b),
            Term::Un(n, a) => write!(f, "{}({:?})", n, a),
        }
    }
}
pub fn lf(s: &'static str, i: u8) -> Term { Term::Leaf(s, i) }
pub fn op(n: &'static str, a: Term, b: Term) -> Term { Term::Op(n, Box::new(a), Box::new(b)) }
pub fn un(n: &'static str, a: Term) -> Term { Term::Un(n, Box::new(a)) }
pub fn sk(v: u8) -> Term { Term::K(v) }
pub fn snk(v: u8) -> Term { Term::NK(v) }
pub fn zero() -> Term { Term::Zero }
pub fn one() -> Term { Term::One }
/// scalar right-hand sides: `K` is `Copy`, `NK` is neither `Copy` nor `Clone`
#[derive(Clone, Copy, Debug)]
pub struct K(pub u8);
#[derive(Debug)]
pub struct NK(pub u8);

macro_rules! __bin {
    ($F:ident $Tr:ident $m:ident $TrA:ident $ma:ident) => {
        impl std::ops::$Tr for $F { type Output = $F; fn $m(self, r: $F) -> $F { $F(op(stringify!($m), self.0, r.0)) } }
        impl std::ops::$Tr<K> for $F { type Output = $F; fn $m(self, r: K) -> $F { $F(op(stringify!($m), self.0, sk(r.0))) } }
        impl std::ops::$Tr<NK> for $F { type Output = $F; fn $m(self, r: NK) -> $F { $F(op(stringify!($m), self.0, snk(r.0))) } }
        impl std::ops::$TrA for $F { fn $ma(&mut self, r: $F) { *self = std::ops::$Tr::$m(self.clone(), r); } }
        impl std::ops::$TrA<K> for $F { fn $ma(&mut self, r: K) { *self = std::ops::$Tr::$m(self.clone(), r); } }
        impl std::ops::$TrA<NK> for $F { fn $ma(&mut self, r: NK) { *self = std::ops::$Tr::$m(self.clone(), r); } }
    };
}
macro_rules! __field_ty {
    ($F:ident) => {
        #[derive(Clone, Debug, PartialEq, Eq)]
        pub struct $F(pub Term);
        __bin!($F Add add AddAssign add_assign);
        __bin!($F Sub sub SubAssign sub_assign);
        __bin!($F BitAnd bitand BitAndAssign bitand_assign);
        __bin!($F BitOr bitor BitOrAssign bitor_assign);
        __bin!($F BitXor bitxor BitXorAssign bitxor_assign);
        __bin!($F Mul mul MulAssign mul_assign);
        __bin!($F Div div DivAssign div_assign);
        __bin!($F Rem rem RemAssign rem_assign);
        __bin!($F Shr shr ShrAssign shr_assign);
        __bin!($F Shl shl ShlAssign shl_assign);
        impl std::ops::Not for $F { type Output = $F; fn not(self) -> $F { $F(un("not", self.0)) } }
        impl std::ops::Neg for $F { type Output = $F; fn neg(self) -> $F { $F(un("neg", self.0)) } }
        impl std::iter::Sum for $F { fn sum<I: Iterator<Item = $F>>(it: I) -> $F { it.fold($F(zero()), |a, b| a + b) } }
        impl std::iter::Product for $F { fn product<I: Iterator<Item = $F>>(it: I) -> $F { it.fold($F(one()), |a, b| a * b) } }
    };
}
__field_ty!(F0);
__field_ty!(F1);
__field_ty!(F2);
__field_ty!(F3);

/// a generic operand type: `W<T>` has every operator `T` has (the type parameter sits *inside* the field type)
#[derive(Clone, Debug, PartialEq, Eq)]
pub struct W<T>(pub T);
macro_rules! __wbin {
    ($Tr:ident $m:ident $TrA:ident $ma:ident) => {
        impl<T: std::ops::$Tr<Output = T>> std::ops::$Tr for W<T> { type Output = W<T>; fn $m(self, r: W<T>) -> W<T> { W(std::ops::$Tr::$m(self.0, r.0)) } }
        impl<T: std::ops::$Tr<K, Output = T>> std::ops::$Tr<K> for W<T> { type Output = W<T>; fn $m(self, r: K) -> W<T> { W(std::ops::$Tr::$m(self.0, r)) } }
        impl<T: std::ops::$Tr<NK, Output = T>> std::ops::$Tr<NK> for W<T> { type Output = W<T>; fn $m(self, r: NK) -> W<T> { W(std::ops::$Tr::$m(self.0, r)) } }
        impl<T: std::ops::$TrA> std::ops::$TrA for W<T> { fn $ma(&mut self, r: W<T>) { std::ops::$TrA::$ma(&mut self.0, r.0) } }
        impl<T: std::ops::$TrA<K>> std::ops::$TrA<K> for W<T> { fn $ma(&mut self, r: K) { std::ops::$TrA::$ma(&mut self.0, r) } }
        impl<T: std::ops::$TrA<NK>> std::ops::$TrA<NK> for W<T> { fn $ma(&mut self, r: NK) { std::ops::$TrA::$ma(&mut self.0, r) } }
    };
}
__wbin!(Add add AddAssign add_assign);
__wbin!(Sub sub SubAssign sub_assign);
__wbin!(BitAnd bitand BitAndAssign bitand_assign);
__wbin!(BitOr bitor BitOrAssign bitor_assign);
__wbin!(BitXor bitxor BitXorAssign bitxor_assign);
__wbin!(Mul mul MulAssign mul_assign);
__wbin!(Div div DivAssign div_assign);
__wbin!(Rem rem RemAssign rem_assign);
__wbin!(Shr shr ShrAssign shr_assign);
__wbin!(Shl shl ShlAssign shl_assign);
impl<T: std::ops::Not<Output = T>> std::ops::Not for W<T> { type Output = W<T>; fn not(self) -> W<T> { W(!self.0) } }
impl<T: std::ops::Neg<Output = T>> std::ops::Neg for W<T> { type Output = W<T>; fn neg(self) -> W<T> { W(-self.0) } }
impl<T: std::iter::Sum> std::iter::Sum for W<T> { fn sum<I: Iterator<Item = W<T>>>(it: I) -> W<T> { W(it.map(|w| w.0).sum()) } }
impl<T: std::iter::Product> std::iter::Product for W<T> { fn product<I: Iterator<Item = W<T>>>(it: I) -> W<T> { W(it.map(|w| w.0).product()) } }

pub fn show<T: std::fmt::Debug>(v: &T) -> String { format!("{:?}", v) }
/// rendering of the result of a derived binary operator on an enum: kind of error + both messages
pub fn d_bin<T: std::fmt::Debug>(r: Result<T, derive_more::BinaryError>) -> String {
    match r {
        Ok(v) => format!("Ok({:?})", v),
        Err(e) => {
            let outer = e.to_string();
            match e {
                derive_more::BinaryError::Mismatch(w) => format!("Err(Mismatch \"{}\" / \"{}\")", w, outer),
                derive_more::BinaryError::Unit(u) => format!("Err(Unit \"{}\" / \"{}\")", u, outer),
            }
        }
    }
}
pub fn d_un<T: std::fmt::Debug>(r: Result<T, derive_more::UnitError>) -> String {
    match r {
        Ok(v) => format!("Ok({:?})", v),
        Err(e) => format!("Err(Unit \"{}\")", e),
    }
}
"#;

// ------------------------------------------------------------------------------------------------
// shapes

#[derive(Clone, Debug)]
pub struct Fld {
    /// field name (`None` for positional fields)
    pub name: Option<String>,
    /// the field's concrete type is `F<slot>`
    pub slot: usize,
}

#[derive(Clone, Copy, Debug, PartialEq, Eq)]
pub enum VK {
    Tuple,
    Named,
    Unit,
}

#[derive(Clone, Debug)]
pub struct Var {
    pub name: &'static str,
    pub kind: VK,
    pub fields: Vec<Fld>,
}

#[derive(Clone, Debug)]
pub struct Shape {
    pub is_enum: bool,
    /// struct: one pseudo-variant (kind Tuple/Named); enum: the variants
    pub vars: Vec<Var>,
    /// slot is declared as the type parameter `T<slot>` (else the concrete type `F<slot>` is written)
    pub param: [bool; 4],
    /// 0 none, 1 inline `: Clone` bound on the first parameter, 2 where-clause on the last parameter
    pub bound_style: u8,
    /// a slot declared as a type parameter is used as `W<T<slot>>` (the parameter sits inside the field type)
    pub wrapped: [bool; 4],
    /// an (unused) const parameter `const CN: usize`: `Some(true)` declared first, `Some(false)` last
    pub cn: Option<bool>,
    /// raw-identifier variant names
    pub raw_variants: bool,
}

impl Shape {
    fn used_slots(&self) -> Vec<usize> {
        let mut v: Vec<usize> = self.vars.iter().flat_map(|x| x.fields.iter().map(|f| f.slot)).collect();
        v.sort();
        v.dedup();
        v
    }
    fn params(&self) -> Vec<usize> {
        self.used_slots().into_iter().filter(|s| self.param[*s]).collect()
    }
    fn ty(&self, slot: usize) -> String {
        if self.param[slot] && self.wrapped[slot] {
            format!("W<T{slot}>")
        } else if self.param[slot] {
            format!("T{slot}")
        } else {
            format!("F{slot}")
        }
    }
    /// value of a field of `slot` holding the term expression `term`
    fn val(&self, slot: usize, term: &str) -> String {
        if self.param[slot] && self.wrapped[slot] {
            format!("W(F{slot}({term}))")
        } else {
            format!("F{slot}({term})")
        }
    }
    /// path from a field to its term (`.0` for `F`, `.0.0` for `W<F>`)
    fn term_path(&self, slot: usize) -> &'static str {
        if self.param[slot] && self.wrapped[slot] {
            ".0.0"
        } else {
            ".0"
        }
    }
    fn vname(&self, v: &Var) -> String {
        if self.raw_variants {
            format!("r#{}", v.name)
        } else {
            v.name.to_string()
        }
    }
    fn tname(&self) -> &'static str {
        if self.is_enum {
            "E"
        } else {
            "S"
        }
    }
    fn generics_decl(&self) -> (String, String) {
        let ps = self.params();
        if ps.is_empty() && self.cn.is_none() {
            return (String::new(), String::new());
        }
        let mut parts = vec![];
        if self.cn == Some(true) {
            parts.push("const CN: usize".to_string());
        }
        for (k, s) in ps.iter().enumerate() {
            if k == 0 && self.bound_style == 1 {
                parts.push(format!("T{s}: Clone"));
            } else {
                parts.push(format!("T{s}"));
            }
        }
        if self.cn == Some(false) {
            parts.push("const CN: usize".to_string());
        }
        let wh = if self.bound_style == 2 && !ps.is_empty() { format!(" where T{}: Clone", ps[ps.len() - 1]) } else { String::new() };
        (format!("<{}>", parts.join(", ")), wh)
    }
    /// the instantiated type
    fn inst(&self) -> String {
        let ps = self.params();
        let mut args: Vec<String> = ps.iter().map(|s| format!("F{s}")).collect();
        match self.cn {
            Some(true) => args.insert(0, "3".to_string()),
            Some(false) => args.push("3".to_string()),
            None => {}
        }
        if args.is_empty() {
            self.tname().to_string()
        } else {
            format!("{}<{}>", self.tname(), args.join(", "))
        }
    }
    fn decl_fields(&self, v: &Var) -> String {
        match v.kind {
            VK::Unit => String::new(),
            VK::Tuple => format!("({})", v.fields.iter().map(|f| self.ty(f.slot)).collect::<Vec<_>>().join(", ")),
            VK::Named => format!(
                " {{ {} }}",
                v.fields.iter().map(|f| format!("{}: {}", f.name.as_ref().unwrap(), self.ty(f.slot))).collect::<Vec<_>>().join(", ")
            ),
        }
    }
    /// the type definition; `dm` = the derive_more derive line(s) + helper attributes (empty for the control)
    fn typedef(&self, dm: &str) -> String {
        let (g, wh) = self.generics_decl();
        if self.is_enum {
            let vs: Vec<String> = self.vars.iter().map(|v| format!("    {}{},", self.vname(v), self.decl_fields(v))).collect();
            format!("#[derive(Clone, Debug)]\n{dm}pub enum E{g}{wh} {{\n{}\n}}\npub type Ty = {};\n", vs.join("\n"), self.inst())
        } else {
            let v = &self.vars[0];
            let body = match v.kind {
                VK::Tuple => format!("{}{wh};", self.decl_fields(v)),
                _ => format!("{wh}{}", self.decl_fields(v)),
            };
            format!("#[derive(Clone, Debug)]\n{dm}pub struct S{g}{body}\npub type Ty = {};\n", self.inst())
        }
    }
    fn path(&self, v: &Var) -> String {
        if self.is_enum {
            format!("E::{}", self.vname(v))
        } else {
            "S".to_string()
        }
    }
    /// value expression of variant `v` whose field `i` wraps the term expression `term(i)`
    fn value(&self, v: &Var, term: &dyn Fn(usize) -> String) -> String {
        let p = self.path(v);
        match v.kind {
            VK::Unit => p,
            VK::Tuple => format!("{p}({})", v.fields.iter().enumerate().map(|(i, f)| self.val(f.slot, &term(i))).collect::<Vec<_>>().join(", ")),
            VK::Named => format!(
                "{p} {{ {} }}",
                v.fields.iter().enumerate().map(|(i, f)| format!("{}: {}", f.name.as_ref().unwrap(), self.val(f.slot, &term(i)))).collect::<Vec<_>>().join(", ")
            ),
        }
    }
    fn max_fields(&self) -> usize {
        self.vars.iter().map(|v| v.fields.len()).max().unwrap_or(0)
    }
    fn same_type_fields(&self) -> bool {
        self.vars.iter().any(|v| {
            let mut s: Vec<usize> = v.fields.iter().map(|f| f.slot).collect();
            s.sort();
            s.windows(2).any(|w| w[0] == w[1])
        })
    }
}

fn leaf(side: &str, i: usize) -> String {
    format!("lf(\"{side}\",{i})")
}
fn t_op(name: &str, a: &str, b: &str) -> String {
    format!("op(\"{name}\",{a},{b})")
}
fn t_un(name: &str, a: &str) -> String {
    format!("un(\"{name}\",{a})")
}

const VNAMES: [&str; 4] = ["A", "B", "C", "D"];

fn gen_fields(d: &mut Dice, kind: VK, slot_mode: usize, pool: &[&str; 4], raw: bool) -> Vec<Fld> {
    if kind == VK::Unit {
        return vec![];
    }
    let nf = 1 + d.weighted(&[3, 4, 2, 2]);
    (0..nf)
        .map(|i| {
            let slot = match slot_mode {
                0 => i,
                1 => 0,
                _ => d.pick(4),
            };
            let name = if kind == VK::Named { Some(if raw { ["r#fn", "r#type", "r#in", "r#match"][i].to_string() } else { pool[i].to_string() }) } else { None };
            Fld { name, slot }
        })
        .collect()
}

fn gen_shape(d: &mut Dice, is_enum: bool) -> Shape {
    let slot_mode = d.weighted(&[6, 2, 2]);
    let pool: &[&str; 4] = if d.chance(30) { &["x", "rhs", "y", "z"] } else { &["a", "b", "c", "d"] };
    let raw = d.chance(6);
    let vars = if is_enum {
        let nv = 1 + d.weighted(&[2, 4, 3, 3]);
        (0..nv)
            .map(|k| {
                let kind = [VK::Tuple, VK::Named, VK::Unit][d.weighted(&[4, 3, 3])];
                let mut fields = gen_fields(d, kind, slot_mode, pool, raw);
                // `A()` / `A {}`: a tuple/named variant with zero fields is not a unit variant (field-wise with n = 0)
                if kind != VK::Unit && d.chance(7) {
                    fields.clear();
                }
                Var { name: VNAMES[k], kind, fields }
            })
            .collect()
    } else {
        let kind = if d.chance(50) { VK::Named } else { VK::Tuple };
        vec![Var { name: "S", kind, fields: gen_fields(d, kind, slot_mode, pool, raw) }]
    };
    let mut param = [false; 4];
    match d.weighted(&[5, 3, 2]) {
        0 => {}
        1 => param = [true; 4],
        _ => {
            for p in param.iter_mut() {
                *p = d.chance(50);
            }
        }
    }
    let bound_style = d.weighted(&[6, 2, 2]) as u8;
    let mut wrapped = [false; 4];
    if d.chance(25) {
        for w in wrapped.iter_mut() {
            *w = d.chance(60);
        }
    }
    let cn = if d.chance(12) { Some(d.chance(50)) } else { None };
    let raw_variants = is_enum && d.chance(8);
    Shape { is_enum, vars, param, bound_style, wrapped, cn, raw_variants }
}

// ------------------------------------------------------------------------------------------------
// plans and rendering

#[derive(Clone, Copy, Debug, PartialEq, Eq)]
pub enum Mode {
    /// Add-like, AddAssign-like, Not-like, Sum-like
    Plain,
    /// Mul-like / MulAssign-like with a scalar right-hand side
    Scalar,
    /// Mul-like / MulAssign-like with `#[<attr>(forward)]`
    Forward,
}

#[derive(Clone, Debug)]
pub struct Plan {
    pub op: usize,
    pub mode: Mode,
    pub shape: Shape,
    /// scalar payload
    pub scalar: u8,
    /// single-field scalar case uses the non-`Copy` scalar `NK`
    pub noncopy: bool,
    /// Sum-like: number of iterator items (the empty iterator is always checked as well)
    pub sum_len: usize,
    /// Sum-like: 0 = companion operator derived, 1 = hand-written field-wise, 2 = hand-written with its own op name
    pub companion: u8,
    /// 0 = separate derive attributes, 1 = one derive list
    pub derive_style: u8,
    /// `*Assign` cases: also derive the non-assigning operator and compare `a op= b` with `a op b` directly
    pub cross: bool,
}

struct Rendered {
    /// derive paths and helper attributes
    derives: Vec<String>,
    attrs: String,
    /// operator traits the case implements for the type (derived or hand-written companion)
    impls: Vec<String>,
    extra_items: String,
    run: String,
    /// value constructions (for the derive-less control)
    values: Vec<String>,
    labels: Vec<String>,
}

fn render_plan(p: &Plan) -> GenCase {
    finish(p, render_parts(p), None)
}

fn render_parts(p: &Plan) -> Rendered {
    let opd = &OPS[p.op];
    let sh = &p.shape;
    let name = opd.name;
    let sym = opd.sym;
    let mut labels: Vec<String> = vec![];
    let mut values: Vec<String> = vec![];
    let mut extra_items = String::new();
    let mut run = String::new();
    let forward = p.mode == Mode::Forward;
    let mut derives = vec![format!("derive_more::{}", opd.derive)];
    let mut attrs = String::new();
    if forward {
        attrs.push_str(&format!("#[{}(forward)]\n", opd.attr));
    }
    let binary_self = matches!(opd.fam, Fam::AddLike) || (opd.fam == Fam::MulLike && forward);
    let assign_self = matches!(opd.fam, Fam::AddAssignLike) || (opd.fam == Fam::MulAssignLike && forward);
    let what = format!("{}{}", opd.derive, if forward { "(forward)" } else { "" });

    if sh.is_enum {
        if binary_self {
            // every ordered pair of variants
            let mut kinds = std::collections::BTreeSet::new();
            for (i, vl) in sh.vars.iter().enumerate() {
                for (j, vr) in sh.vars.iter().enumerate() {
                    let a = sh.value(vl, &|k| leaf("L", k));
                    let b = sh.value(vr, &|k| leaf("R", k));
                    values.push(a.clone());
                    values.push(b.clone());
                    let expected = if i != j {
                        kinds.insert(if vl.kind == VK::Unit || vr.kind == VK::Unit { "pair=mismatch_with_unit" } else { "pair=mismatch" });
                        kinds.insert("pair=mismatch_any");
                        format!("String::from(\"Err(Mismatch \\\"Trying to {name}() mismatched enum variants\\\" / \\\"Trying to {name}() mismatched enum variants\\\")\")")
                    } else if vl.kind == VK::Unit {
                        kinds.insert("pair=unit");
                        format!("String::from(\"Err(Unit \\\"Cannot {name}() unit variants\\\" / \\\"Cannot {name}() unit variants\\\")\")")
                    } else {
                        kinds.insert("pair=same");
                        let e = sh.value(vl, &|k| t_op(name, &leaf("L", k), &leaf("R", k)));
                        values.push(e.clone());
                        format!("{{ let e: Ty = {e}; format!(\"Ok({{:?}})\", e) }}")
                    };
                    run.push_str(&format!(
                        "    {{\n        let a: Ty = {a};\n        let b: Ty = {b};\n        let r: Result<Ty, derive_more::BinaryError> = a {sym} b;\n        let expected = {expected};\n        o.eq(\"{what}: {} {sym} {}\", &expected, &d_bin(r));\n    }}\n",
                        vl.name, vr.name
                    ));
                }
            }
            labels.extend(kinds.into_iter().map(String::from));
        } else {
            // Not-like
            debug_assert!(opd.fam == Fam::NotLike);
            let has_unit = sh.vars.iter().any(|v| v.kind == VK::Unit);
            for v in &sh.vars {
                let a = sh.value(v, &|k| leaf("L", k));
                values.push(a.clone());
                if has_unit {
                    let expected = if v.kind == VK::Unit {
                        format!("String::from(\"Err(Unit \\\"Cannot {name}() unit variants\\\")\")")
                    } else {
                        let e = sh.value(v, &|k| t_un(name, &leaf("L", k)));
                        values.push(e.clone());
                        format!("{{ let e: Ty = {e}; format!(\"Ok({{:?}})\", e) }}")
                    };
                    run.push_str(&format!(
                        "    {{\n        let a: Ty = {a};\n        let r: Result<Ty, derive_more::UnitError> = {sym}a;\n        let expected = {expected};\n        o.eq(\"{what}: {sym}{}\", &expected, &d_un(r));\n    }}\n",
                        v.name
                    ));
                } else {
                    let e = sh.value(v, &|k| t_un(name, &leaf("L", k)));
                    values.push(e.clone());
                    run.push_str(&format!(
                        "    {{\n        let a: Ty = {a};\n        let r: Ty = {sym}a;\n        let e: Ty = {e};\n        o.eq(\"{what}: {sym}{}\", &show(&e), &show(&r));\n    }}\n",
                        v.name
                    ));
                }
            }
            if has_unit {
                labels.push("unary_result_wrapped".into());
            }
        }
    } else {
        let v = &sh.vars[0];
        let a = sh.value(v, &|k| leaf("L", k));
        let b = sh.value(v, &|k| leaf("R", k));
        values.push(a.clone());
        if binary_self {
            let e = sh.value(v, &|k| t_op(name, &leaf("L", k), &leaf("R", k)));
            values.push(b.clone());
            values.push(e.clone());
            run.push_str(&format!(
                "    let a: Ty = {a};\n    let b: Ty = {b};\n    let r: Ty = a {sym} b;\n    let e: Ty = {e};\n    o.eq(\"{what}: field i of a {sym} b is a.i {sym} b.i\", &show(&e), &show(&r));\n"
            ));
        } else if assign_self {
            let e = sh.value(v, &|k| t_op(name, &leaf("L", k), &leaf("R", k)));
            values.push(b.clone());
            values.push(e.clone());
            run.push_str(&format!(
                "    let mut a: Ty = {a};\n    let b: Ty = {b};\n    a {sym} b;\n    let e: Ty = {e};\n    o.eq(\"{what}: a {sym} b leaves a equal to the field-wise result\", &show(&e), &show(&a));\n"
            ));
            if p.cross {
                let base = opd.derive.trim_end_matches("Assign");
                derives.push(format!("derive_more::{base}"));
                if forward {
                    attrs.push_str(&format!("#[{}(forward)]\n", opd.attr.trim_end_matches("_assign")));
                }
                let bsym = sym.trim_end_matches('=');
                run.push_str(&format!(
                    "    let mut a1: Ty = {a};\n    let via_op: Ty = a1.clone() {bsym} {b};\n    a1 {sym} {b};\n    o.eq(\"{what}: a {sym} b leaves a equal to what the derived a {bsym} b returns\", &show(&via_op), &show(&a1));\n"
                ));
                labels.push("assign_vs_derived_op".into());
            }
        } else if opd.fam == Fam::MulLike || opd.fam == Fam::MulAssignLike {
            let (sc, st) = if p.noncopy { (format!("NK({})", p.scalar), format!("snk({})", p.scalar)) } else { (format!("K({})", p.scalar), format!("sk({})", p.scalar)) };
            let e = sh.value(v, &|k| t_op(name, &leaf("L", k), &st));
            values.push(e.clone());
            if opd.fam == Fam::MulLike {
                run.push_str(&format!(
                    "    let a: Ty = {a};\n    let r: Ty = a {sym} {sc};\n    let e: Ty = {e};\n    o.eq(\"{what}: field i of a {sym} k is a.i {sym} k\", &show(&e), &show(&r));\n"
                ));
            } else {
                run.push_str(&format!(
                    "    let mut a: Ty = {a};\n    a {sym} {sc};\n    let e: Ty = {e};\n    o.eq(\"{what}: a {sym} k leaves every field a.i {} k\", &show(&e), &show(&a));\n",
                    sym.trim_end_matches('=')
                ));
            }
            if p.cross && opd.fam == Fam::MulAssignLike {
                let base = opd.derive.trim_end_matches("Assign");
                derives.push(format!("derive_more::{base}"));
                let bsym = sym.trim_end_matches('=');
                run.push_str(&format!(
                    "    let mut a1: Ty = {a};\n    let via_op: Ty = a1.clone() {bsym} {sc};\n    a1 {sym} {sc};\n    o.eq(\"{what}: a {sym} k leaves a equal to what the derived a {bsym} k returns\", &show(&via_op), &show(&a1));\n"
                ));
                labels.push("assign_vs_derived_op".into());
            }
            if !p.noncopy {
                // the impl is generic over the scalar: a second scalar value of the same type must arrive unchanged too
                let s2 = p.scalar.wrapping_add(100);
                let e2 = sh.value(v, &|k| t_op(name, &leaf("R", k), &format!("sk({s2})")));
                values.push(b.clone());
                values.push(e2.clone());
                if opd.fam == Fam::MulLike {
                    run.push_str(&format!(
                        "    let b: Ty = {b};\n    let r2: Ty = b {sym} K({s2});\n    let e2: Ty = {e2};\n    o.eq(\"{what}: second scalar value\", &show(&e2), &show(&r2));\n"
                    ));
                } else {
                    run.push_str(&format!(
                        "    let mut b: Ty = {b};\n    b {sym} K({s2});\n    let e2: Ty = {e2};\n    o.eq(\"{what}: second scalar value\", &show(&e2), &show(&b));\n"
                    ));
                }
            } else {
                labels.push("scalar_noncopy".into());
            }
        } else if opd.fam == Fam::NotLike {
            let e = sh.value(v, &|k| t_un(name, &leaf("L", k)));
            values.push(e.clone());
            run.push_str(&format!(
                "    let a: Ty = {a};\n    let r: Ty = {sym}a;\n    let e: Ty = {e};\n    o.eq(\"{what}: every field mapped\", &show(&e), &show(&r));\n"
            ));
        } else {
            // Sum / Product
            let is_sum = opd.derive == "Sum";
            let (comp_trait, comp_method, ident, fold_method) = if is_sum { ("Add", "add", "zero()", "sum") } else { ("Mul", "mul", "one()", "product") };
            let comp_name: String = match p.companion {
                0 => {
                    derives.push(format!("derive_more::{comp_trait}"));
                    if !is_sum {
                        attrs.push_str("#[mul(forward)]\n");
                    }
                    comp_method.to_string()
                }
                1 | 2 => {
                    let nm = if p.companion == 1 { comp_method.to_string() } else { format!("c{comp_method}") };
                    // hand-written companion on the instantiated type
                    let acc = |side: &str, k: usize, f: &Fld| match &f.name {
                        Some(n) => format!("{side}.{n}{}", sh.term_path(f.slot)),
                        None => format!("{side}.{k}{}", sh.term_path(f.slot)),
                    };
                    let wrapv = |f: &Fld, t: String| sh.val(f.slot, &t);
                    let body = match v.kind {
                        VK::Tuple => format!(
                            "S({})",
                            v.fields.iter().enumerate().map(|(k, f)| wrapv(f, format!("op(\"{nm}\", {}, {})", acc("self", k, f), acc("rhs", k, f)))).collect::<Vec<_>>().join(", ")
                        ),
                        _ => format!(
                            "S {{ {} }}",
                            v.fields
                                .iter()
                                .enumerate()
                                .map(|(k, f)| format!("{}: {}", f.name.as_ref().unwrap(), wrapv(f, format!("op(\"{nm}\", {}, {})", acc("self", k, f), acc("rhs", k, f)))))
                                .collect::<Vec<_>>()
                                .join(", ")
                        ),
                    };
                    // without type parameters the derived impl has no `S<..>: Add/Mul` where-clause to rely on: it needs
                    // the companion for every value of the const parameter
                    let (ig, ty) = if sh.params().is_empty() && sh.cn.is_some() { ("<const CN: usize>", "S<CN>") } else { ("", "Ty") };
                    extra_items.push_str(&format!(
                        "impl{ig} std::ops::{comp_trait} for {ty} {{\n    type Output = {ty};\n    fn {comp_method}(self, rhs: {ty}) -> {ty} {{ {body} }}\n}}\n"
                    ));
                    nm
                }
                _ => unreachable!(),
            };
            labels.push(format!("companion={}", ["derived", "manual_fieldwise", "manual_own_name"][p.companion as usize]));
            labels.push(format!("sum_len={}", p.sum_len));
            let sides = ["A", "B", "C"];
            let items: Vec<String> = (0..p.sum_len).map(|j| sh.value(v, &|k| leaf(sides[j], k))).collect();
            values.extend(items.iter().cloned());
            let e0 = sh.value(v, &|_| ident.to_string());
            values.push(e0.clone());
            run.push_str(&format!(
                "    let r0: Ty = Vec::<Ty>::new().into_iter().{fold_method}();\n    let e0: Ty = {e0};\n    o.eq(\"{what}: empty iterator gives the field-wise identity\", &show(&e0), &show(&r0));\n"
            ));
            if p.sum_len > 0 {
                let e = sh.value(v, &|k| {
                    let mut acc = ident.to_string();
                    for s in sides.iter().take(p.sum_len) {
                        acc = t_op(&comp_name, &acc, &leaf(s, k));
                    }
                    acc
                });
                values.push(e.clone());
                run.push_str(&format!(
                    "    let items: Vec<Ty> = vec![{}];\n    let r: Ty = items.into_iter().{fold_method}();\n    let e: Ty = {e};\n    o.eq(\"{what}: left fold with {comp_trait} from the identity\", &show(&e), &show(&r));\n",
                    items.join(", ")
                ));
            }
        }
    }

    let mut impls: Vec<String> = derives.iter().map(|x| x.trim_start_matches("derive_more::").to_string()).collect();
    if opd.fam == Fam::SumLike && p.companion != 0 {
        impls.push(if opd.derive == "Sum" { "Add".into() } else { "Mul".into() });
    }
    Rendered { derives, attrs, impls, extra_items, run, values, labels }
}

/// `second`: a further operator derive on the same type (its own helper attributes, its own checks)
fn finish(p: &Plan, mut r: Rendered, second: Option<(&Plan, Rendered)>) -> GenCase {
    let opd = &OPS[p.op];
    let sh = &p.shape;
    let mut forward_enum2 = false;
    if let Some((p2, r2)) = second {
        let o2 = &OPS[p2.op];
        r.derives.extend(r2.derives);
        if !r.attrs.is_empty() && !r2.attrs.is_empty() {
            r.labels.push("multi_helper_attributes".into());
        }
        r.attrs.push_str(&r2.attrs);
        r.extra_items.push_str(&r2.extra_items);
        r.run = format!("    {{\n{}    }}\n    {{\n{}    }}\n", r.run, r2.run);
        r.values.extend(r2.values);
        r.labels.push("multi_operator_derives".into());
        r.labels.push(format!("second_family={:?}", o2.fam));
        if (p.mode == Mode::Forward) != (p2.mode == Mode::Forward) && matches!(opd.fam, Fam::MulLike | Fam::MulAssignLike) && matches!(o2.fam, Fam::MulLike | Fam::MulAssignLike) {
            r.labels.push("multi_forward_and_scalar".into());
        }
        forward_enum2 = sh.is_enum && p2.mode == Mode::Forward;
    }
    let dm = if p.derive_style == 0 {
        format!("{}{}", r.derives.iter().map(|x| format!("#[derive({x})]\n")).collect::<String>(), r.attrs)
    } else {
        format!("#[derive({})]\n{}", r.derives.join(", "), r.attrs)
    };
    let body = format!("{}{}pub fn run(o: &mut Out) {{\n{}}}", sh.typedef(&dm), r.extra_items, r.run);
    let ctl_vals: String = {
        let mut seen = std::collections::BTreeSet::new();
        r.values.iter().filter(|v| seen.insert((*v).clone())).map(|v| format!("    let _v: Ty = {v};\n")).collect()
    };
    let control = format!("{}pub fn __ctl() {{\n{}}}", sh.typedef(""), ctl_vals);
    let mut labels = r.labels;
    labels.push(format!("derive={}", opd.derive));
    labels.push(format!("family={:?}", opd.fam));
    labels.push(format!("kind={}", if sh.is_enum { "enum" } else { "struct" }));
    if sh.is_enum {
        labels.push(format!("variants={}", sh.vars.len()));
        for (k, l) in [(VK::Tuple, "enum_has_tuple_variant"), (VK::Named, "enum_has_named_variant"), (VK::Unit, "enum_has_unit_variant")] {
            if sh.vars.iter().any(|v| v.kind == k) {
                labels.push(l.into());
            }
        }
        if sh.vars.iter().any(|v| v.kind != VK::Unit && v.fields.is_empty()) {
            labels.push("enum_has_zero_field_non_unit_variant".into());
        }
    } else {
        labels.push(format!("shape={}", if sh.vars[0].kind == VK::Named { "named" } else { "tuple" }));
    }
    labels.push(format!("max_fields={}", sh.max_fields()));
    let ps = sh.params();
    let used = sh.used_slots();
    labels.push(format!("generic={}", if ps.is_empty() { "none" } else if ps.len() == used.len() { "all" } else { "mixed" }));
    if !ps.is_empty() {
        labels.push("generic".into());
        if sh.bound_style == 1 {
            labels.push("inline_bound".into());
        }
        if sh.bound_style == 2 {
            labels.push("where_clause".into());
        }
    }
    if sh.same_type_fields() {
        labels.push("same_type_fields".into());
    }
    if sh.vars.iter().any(|v| v.fields.iter().any(|f| f.name.as_deref() == Some("r#fn"))) {
        labels.push("raw_ident_field".into());
    }
    match p.mode {
        Mode::Forward => labels.push("forward".into()),
        Mode::Scalar => labels.push("scalar".into()),
        Mode::Plain => {}
    }
    let forward_enum = (sh.is_enum && p.mode == Mode::Forward) || forward_enum2;
    if sh.used_slots().iter().any(|s| sh.param[*s] && sh.wrapped[*s]) {
        labels.push("param_inside_field_type".into());
    }
    if sh.cn.is_some() {
        labels.push("const_param".into());
    }
    if sh.raw_variants {
        labels.push("raw_variant_names".into());
    }
    if forward_enum {
        labels.push("mul_forward_enum".into());
    }
    let mut c = GenCase::new(body);
    c.nontrivial = if sh.is_enum { sh.vars.len() >= 2 } else { sh.vars[0].fields.len() >= 2 };
    c.labels = labels;
    c.control = Some(control);
    c.meta = json!({
        "derive": opd.derive,
        "family": format!("{:?}", opd.fam),
        "mode": format!("{:?}", p.mode),
        "kind": if sh.is_enum { "enum" } else { "struct" },
        "forward_enum": forward_enum,
    });
    c
}

/// Forms the documentation calls unsupported for enums (add_assign.md, mul.md, mul_assign.md, sum.md):
/// they must be rejected at compile time.
fn render_negative(op: usize, forward: bool, shape: &Shape) -> GenCase {
    let opd = &OPS[op];
    let attrs = if forward { format!("#[{}(forward)]\n", opd.attr) } else { String::new() };
    let dm = format!("#[derive(derive_more::{})]\n{attrs}", opd.derive);
    let body = shape.typedef(&dm);
    let mut c = GenCase::new(body);
    c.runnable = false;
    c.expect_compile = false;
    c.nontrivial = false;
    c.labels = vec!["negative_unsupported_enum".into(), format!("neg_derive={}", opd.derive), format!("neg_family={:?}", opd.fam)];
    c.control = Some(shape.typedef(""));
    c.meta = json!({"derive": opd.derive, "negative": true, "forward_enum": false});
    c
}

fn build(d: &mut Dice) -> GenCase {
    let op = d.pick(24);
    let opd = &OPS[op];
    if d.chance(5) {
        // negative: enum under a derive that documents enums as unsupported
        let nops: Vec<usize> = (0..24).filter(|i| matches!(OPS[*i].fam, Fam::AddAssignLike | Fam::MulLike | Fam::MulAssignLike | Fam::SumLike)).collect();
        let op = nops[d.pick(nops.len())];
        let forward = OPS[op].fam == Fam::MulAssignLike && d.chance(40);
        let shape = gen_shape(d, true);
        return render_negative(op, forward, &shape);
    }
    let (mode, is_enum) = match opd.fam {
        Fam::AddLike | Fam::NotLike => (Mode::Plain, d.chance(60)),
        Fam::AddAssignLike | Fam::SumLike => (Mode::Plain, false),
        Fam::MulLike => match d.weighted(&[11, 5, 4]) {
            0 => (Mode::Scalar, false),
            1 => (Mode::Forward, false),
            _ => (Mode::Forward, true),
        },
        Fam::MulAssignLike => {
            if d.chance(35) {
                (Mode::Forward, false)
            } else {
                (Mode::Scalar, false)
            }
        }
    };
    let shape = gen_shape(d, is_enum);
    let scalar = 1 + d.pick(9) as u8;
    let noncopy = mode == Mode::Scalar && shape.vars[0].fields.len() == 1 && d.chance(50);
    let sum_len = 1 + d.pick(3);
    let companion = d.weighted(&[4, 3, 3]) as u8;
    let derive_style = d.pick(2) as u8;
    let cross = matches!(opd.fam, Fam::AddAssignLike | Fam::MulAssignLike) && d.chance(50);
    let p = Plan { op, mode, shape, scalar, noncopy, sum_len, companion, derive_style, cross };
    if !d.chance(15) {
        return render_plan(&p);
    }
    // a second operator derive on the same type (another trait, its own helper attribute and checks)
    let r1 = render_parts(&p);
    let mut second = None;
    for _ in 0..4 {
        let op2 = d.pick(24);
        let o2 = &OPS[op2];
        let mode2 = match o2.fam {
            Fam::AddLike | Fam::NotLike => Mode::Plain,
            Fam::AddAssignLike | Fam::SumLike if !p.shape.is_enum => Mode::Plain,
            Fam::MulLike if p.shape.is_enum => Mode::Forward,
            Fam::MulLike | Fam::MulAssignLike if !p.shape.is_enum => {
                if d.chance(40) {
                    Mode::Forward
                } else {
                    Mode::Scalar
                }
            }
            _ => continue,
        };
        let p2 = Plan {
            op: op2,
            mode: mode2,
            shape: p.shape.clone(),
            scalar: 1 + d.pick(9) as u8,
            noncopy: false,
            sum_len: 1 + d.pick(2),
            companion: d.weighted(&[4, 3, 3]) as u8,
            derive_style: p.derive_style,
            cross: false,
        };
        let r2 = render_parts(&p2);
        if r2.impls.iter().any(|t| r1.impls.contains(t)) {
            continue;
        }
        second = Some((p2, r2));
        break;
    }
    match second {
        Some((p2, r2)) => finish(&p, r1, Some((&p2, r2))),
        None => finish(&p, r1, None),
    }
}

fn fld(name: Option<&str>, slot: usize) -> Fld {
    Fld { name: name.map(String::from), slot }
}

/// Deterministic base set: every derive (and mode) on a two-field tuple struct, a generic three-field named
/// struct, and — where enums are supported — a concrete enum with two unit variants and a generic enum
/// without unit variants.
fn fixed() -> Vec<GenCase> {
    let tuple2 = Shape { is_enum: false, vars: vec![Var { name: "S", kind: VK::Tuple, fields: vec![fld(None, 0), fld(None, 1)] }], param: [false; 4], bound_style: 0, wrapped: [false; 4], cn: None, raw_variants: false };
    let tuple2_same = Shape { is_enum: false, vars: vec![Var { name: "S", kind: VK::Tuple, fields: vec![fld(None, 0), fld(None, 0)] }], param: [false; 4], bound_style: 0, wrapped: [false; 4], cn: None, raw_variants: false };
    let named3g = Shape {
        is_enum: false,
        vars: vec![Var { name: "S", kind: VK::Named, fields: vec![fld(Some("a"), 0), fld(Some("b"), 1), fld(Some("c"), 0)] }],
        param: [true; 4],
        bound_style: 1,
        wrapped: [false; 4],
        cn: None,
        raw_variants: false,
    };
    let single = Shape { is_enum: false, vars: vec![Var { name: "S", kind: VK::Tuple, fields: vec![fld(None, 0)] }], param: [false; 4], bound_style: 0, wrapped: [false; 4], cn: None, raw_variants: false };
    let enum_units = Shape {
        is_enum: true,
        vars: vec![
            Var { name: "A", kind: VK::Tuple, fields: vec![fld(None, 0)] },
            Var { name: "B", kind: VK::Named, fields: vec![fld(Some("a"), 0), fld(Some("b"), 1)] },
            Var { name: "C", kind: VK::Unit, fields: vec![] },
            Var { name: "D", kind: VK::Unit, fields: vec![] },
        ],
        param: [false; 4],
        bound_style: 0,
        wrapped: [false; 4],
        cn: None,
        raw_variants: false,
    };
    let enum_generic = Shape {
        is_enum: true,
        vars: vec![
            Var { name: "A", kind: VK::Tuple, fields: vec![fld(None, 0)] },
            Var { name: "B", kind: VK::Tuple, fields: vec![fld(None, 0), fld(None, 1)] },
            Var { name: "C", kind: VK::Tuple, fields: vec![fld(None, 0), fld(None, 0)] },
        ],
        param: [true; 4],
        bound_style: 0,
        wrapped: [false; 4],
        cn: None,
        raw_variants: false,
    };
    let enum_single = Shape { is_enum: true, vars: vec![Var { name: "A", kind: VK::Tuple, fields: vec![fld(None, 0), fld(None, 1)] }], param: [false; 4], bound_style: 0, wrapped: [false; 4], cn: None, raw_variants: false };
    let mut out = vec![];
    let plan = |op: usize, mode: Mode, shape: &Shape, noncopy: bool, companion: u8| Plan { op, mode, shape: shape.clone(), scalar: 7, noncopy, sum_len: 2, companion, derive_style: 0, cross: false };
    let crossed = |mut p: Plan| {
        p.cross = true;
        p
    };
    for (op, opd) in OPS.iter().enumerate() {
        let structs = [&tuple2, &tuple2_same, &named3g];
        let enums = [&enum_units, &enum_generic, &enum_single];
        match opd.fam {
            Fam::AddLike | Fam::NotLike => {
                for s in structs.iter().chain(enums.iter()) {
                    out.push(render_plan(&plan(op, Mode::Plain, s, false, 0)));
                }
            }
            Fam::AddAssignLike => {
                for s in structs {
                    out.push(render_plan(&plan(op, Mode::Plain, s, false, 0)));
                }
                out.push(render_plan(&crossed(plan(op, Mode::Plain, &named3g, false, 0))));
                out.push(render_negative(op, false, &enum_units));
            }
            Fam::MulLike => {
                for s in structs {
                    out.push(render_plan(&plan(op, Mode::Scalar, s, false, 0)));
                    out.push(render_plan(&plan(op, Mode::Forward, s, false, 0)));
                }
                out.push(render_plan(&plan(op, Mode::Scalar, &single, true, 0)));
                out.push(render_plan(&plan(op, Mode::Forward, &enum_units, false, 0)));
                out.push(render_negative(op, false, &enum_units));
            }
            Fam::MulAssignLike => {
                for s in structs {
                    out.push(render_plan(&plan(op, Mode::Scalar, s, false, 0)));
                    out.push(render_plan(&plan(op, Mode::Forward, s, false, 0)));
                }
                out.push(render_plan(&plan(op, Mode::Scalar, &single, true, 0)));
                out.push(render_plan(&crossed(plan(op, Mode::Scalar, &tuple2, false, 0))));
                out.push(render_plan(&crossed(plan(op, Mode::Forward, &named3g, false, 0))));
                out.push(render_negative(op, false, &enum_units));
                out.push(render_negative(op, true, &enum_units));
            }
            Fam::SumLike => {
                for s in structs {
                    for comp in 0..3 {
                        out.push(render_plan(&plan(op, Mode::Plain, s, false, comp)));
                    }
                }
                out.push(render_negative(op, false, &enum_units));
            }
        }
    }
    out
}

/// Defect model of the recorded finding: `#[derive(Mul-like)] #[<op>(forward)] enum` is rejected by the legacy
/// attribute parser with exactly "Attribute is not allowed here"; everything else rustc says about the case is
/// the consequence (operator not implemented, E0369). Any other diagnostic, or a run-time difference once the
/// form is accepted, is not covered.
fn classify(c: &GenCase, r: &CaseResult, _f: &Finding) -> Option<String> {
    if c.meta["forward_enum"].as_bool() != Some(true) || !c.expect_compile || r.compiled {
        return None;
    }
    let hit = r.errors.iter().any(|e| e.code.is_none() && e.message == "Attribute is not allowed here");
    let rest_ok = r
        .errors
        .iter()
        .all(|e| (e.code.is_none() && e.message == "Attribute is not allowed here") || e.code.as_deref() == Some("E0369"));
    if hit && rest_ok {
        Some(SIG_FORWARD_ENUM.to_string())
    } else {
        None
    }
}

pub fn prop() -> DiceProp {
    let mut floors: Vec<(String, f64)> = OPS.iter().map(|o| (format!("derive={}", o.derive), 0.02)).collect();
    floors.extend(
        [
            ("nontrivial", 0.5),
            ("kind=enum", 0.12),
            ("pair=mismatch_any", 0.07),
            ("pair=unit", 0.04),
            ("pair=same", 0.07),
            ("unary_result_wrapped", 0.01),
            ("forward", 0.05),
            ("scalar", 0.08),
            ("scalar_noncopy", 0.005),
            ("generic", 0.25),
            ("same_type_fields", 0.1),
            ("mul_forward_enum", 0.01),
            ("negative_unsupported_enum", 0.02),
            ("companion=manual_own_name", 0.01),
            ("assign_vs_derived_op", 0.08),
            ("multi_operator_derives", 0.08),
            ("multi_forward_and_scalar", 0.004),
            ("param_inside_field_type", 0.04),
            ("const_param", 0.06),
            ("raw_variant_names", 0.008),
        ]
        .iter()
        .map(|(l, f)| (l.to_string(), *f)),
    );
    DiceProp {
        crate_name: "gen_c10",
        prelude: PRELUDE.to_string(),
        crate_attrs: String::new(),
        nightly: false,
        check_only: false,
        ndice: 128,
        quick: (4000, 1),
        thorough: (6000, 5),
        build,
        fixed,
        classify,
        rule: "one of the 24 operator derives on a tuple/named struct (1..4 fields) or an enum (1..4 tuple/named/unit variants, Add-like, Not-like and `forward` Mul-like only), concrete, generic or mixed field types (a type parameter also inside the field type: `W<T>`), optionally an unused const parameter, raw-identifier variant and field names, with/without `forward`; optionally a second operator derive (another trait, own helper attribute, own checks) on the same type; fields are free-term-algebra types, leaves tagged by side and field index; oracle: the result's Debug rendering equals that of the expected value built by hand from term constructors (field i = op(L i, R i) / op(L i, K) / un(L i); a op= b leaves a = that value; sum/product = left fold from the field-wise Zero/One with the type's Add/Mul; enums: every ordered pair of variants, Ok inside a variant, BinaryError::Mismatch / BinaryError::Unit / UnitError with the documented messages otherwise); unsupported enum forms must be rejected; non-trivial = struct with >= 2 fields or enum with >= 2 variants; distinct by program text".into(),
        assumptions: vec![
            "std #[derive(Debug)] renders the case types faithfully (structural equality is decided on the Debug rendering)".into(),
            "for pairs of different variants where one or both are unit variants the listing in add.md (`_ => Mismatch`) decides: mismatch error".into(),
        ],
        floors,
        shards: 0,
    }
}

/// The enum forms that must be rejected are additionally expanded in-process: the rejection has to come from the
/// derive itself (a diagnostic, or its explicit "only structs" panic), not from an accident of the generated program.
fn confirm_negatives_inproc(p: &DiceProp, ctx: &super::core::Ctx, rep: &mut super::core::Report) {
    use proptest::strategy::ValueTree;
    let strat = ProgProp::strategy(p, ctx);
    let (n, _) = ProgProp::budget(p, ctx.tier);
    let mut runner = ctx.runner(0);
    let mut cases: Vec<GenCase> = (p.fixed)();
    cases.extend(super::core::draw(&mut runner, &strat, n).into_iter().map(|t| t.current()));
    let mut seen = std::collections::HashSet::new();
    let mut confirmed = 0u64;
    for c in cases {
        if c.expect_compile || c.meta["negative"] != true || !seen.insert(c.body.clone()) {
            continue;
        }
        let Some(derive) = c.meta["derive"].as_str().and_then(super::dm::Derive::by_name) else { continue };
        // the item alone (the `pub type Ty = ..;` line is not part of the derive input)
        let item: String = c.body.lines().filter(|l| !l.starts_with("pub type Ty")).collect::<Vec<_>>().join("\n");
        match super::dm::expand_src(derive, &item) {
            Ok(super::dm::Outcome::Err(_)) => confirmed += 1,
            Ok(super::dm::Outcome::Panic(pi)) if super::dm::is_deliberate(&pi) => confirmed += 1,
            Ok(o) => rep.violations.push(super::core::Violation {
                sig: None,
                summary: format!("derive({}) on an enum, which its documentation excludes, is not rejected by the derive itself ({})", derive.name(), o.kind()),
                case: json!({"inproc_item": item}),
                expected: "a diagnostic from the derive".into(),
                observed: o.kind().into(),
            }),
            Err(e) => rep.infra_errors.push(format!("negative item does not parse: {e}: {item}")),
        }
    }
    rep.evidence.add("negatives_confirmed_inproc", confirmed);
}

pub fn run(ctx: &super::core::Ctx) -> super::core::Report {
    let p = prop();
    let mut rep = super::progprop::run(&p, ctx);
    confirm_negatives_inproc(&p, ctx, &mut rep);
    rep
}

pub fn replay(ctx: &super::core::Ctx, case: &serde_json::Value) -> super::core::Report {
    super::progprop::replay(&prop(), ctx, case)
}

//! C12 — `TryFrom<repr>` (with `#[try_from(repr)]`) is the exact inverse of the enum-to-integer cast.
//!
//! Every case is an enum over a generated discriminant pattern (implicit runs, explicit constants and
//! constant expressions, variants with fields interleaved, empty tuple/brace variants) under one of the
//! integer representations (or none => `isize`), alone or among other repr hints.  The generator computes
//! the discriminant of every variant by the Reference rule; the generated program cross-checks that map
//! with `Variant as repr` casts of a field-stripped twin (and of the enum itself when it is castable) and
//! then calls `try_from` on **every** value of 8- and 16-bit reprs, respectively on all discriminants +-1,
//! the type extremes, 0 and several thousand seeded values of wider reprs:
//! `try_from(n) == Ok(v)` iff `n` is the discriminant of the field-less variant `v` (then `v as repr == n`,
//! read through the tag for enums with fields and a primitive repr), else `Err(e)` with `e.input == n`.
//! Generic enums (lifetime / type / const parameters) form a separately labelled sub-domain.
use super::proggen::CaseResult;
use super::progprop::*;
use serde_json::json;
use std::collections::BTreeSet;

pub const SIG_GENERIC: &str = "c12-generics-on-repr-type";
pub const SIG_PREC: &str = "c12-discriminant-expr-precedence";

#[derive(Clone, Copy, Debug)]
struct Repr {
    ty: &'static str,
    bits: u32,
    signed: bool,
}

const REPRS: [Repr; 12] = [
    Repr { ty: "u8", bits: 8, signed: false },
    Repr { ty: "i8", bits: 8, signed: true },
    Repr { ty: "u16", bits: 16, signed: false },
    Repr { ty: "i16", bits: 16, signed: true },
    Repr { ty: "u32", bits: 32, signed: false },
    Repr { ty: "i32", bits: 32, signed: true },
    Repr { ty: "u64", bits: 64, signed: false },
    Repr { ty: "i64", bits: 64, signed: true },
    Repr { ty: "usize", bits: 64, signed: false },
    Repr { ty: "isize", bits: 64, signed: true },
    Repr { ty: "u128", bits: 128, signed: false },
    Repr { ty: "i128", bits: 128, signed: true },
];

impl Repr {
    fn min(self) -> i128 {
        if !self.signed {
            0
        } else if self.bits == 128 {
            i128::MIN
        } else {
            -(1i128 << (self.bits - 1))
        }
    }
    /// `u128` discriminants are kept within `i128` (the model computes in `i128`)
    fn max(self) -> i128 {
        if self.bits == 128 {
            i128::MAX
        } else if self.signed {
            (1i128 << (self.bits - 1)) - 1
        } else {
            (1i128 << self.bits) - 1
        }
    }
    fn in_range(self, v: i128) -> bool {
        v >= self.min() && v <= self.max()
    }
    /// two's-complement wrap of `x` into the type
    fn wrap(self, x: i128) -> i128 {
        if self.bits == 128 {
            return x;
        }
        let m = 1i128 << self.bits;
        let mut r = x.rem_euclid(m);
        if self.signed && r >= m / 2 {
            r -= m;
        }
        r
    }
}

#[derive(Clone, Copy, Debug, PartialEq, Eq)]
enum Form {
    Unit,
    EmptyTuple,
    EmptyBrace,
    Tuple,
    Struct,
}

#[derive(Clone, Debug)]
struct LowPrec {
    op: &'static str,
    l: i128,
    r: i128,
}

#[derive(Clone, Debug)]
struct Var {
    name: String,
    form: Form,
    fields: String,
    /// explicit discriminant: expression text
    explicit: Option<String>,
    value: i128,
    /// value of the constant the recorded precedence defect makes the derive compare with (`None`: that
    /// expression would not even const-evaluate)
    defect_value: Option<i128>,
}

fn lit(v: i128) -> String {
    format!("{v}")
}

/// Renders `v` as a constant expression; returns (text, Some(..) when the top-level operator binds weaker than `+`).
fn render_expr(d: &mut Dice, v: i128, r: Repr, consts: &mut Vec<(String, i128)>, spelled: &mut bool) -> (String, Option<LowPrec>) {
    #[derive(Clone, Copy, PartialEq)]
    enum K {
        Dec,
        Hex,
        Shl,
        Or,
        Xor,
        Shr,
        And,
        ConstPlus,
        Cast,
        MaxMinus,
        MinPlus,
        Paren,
        MulAdd,
        Neg,
        // other spellings of a literal / other expression forms (all pass through the derive as tokens)
        Suffixed,
        Underscore,
        Bin,
        Oct,
        ByteChar,
        CharCast,
        BoolCast,
        Not,
        Block,
        ConstFn,
    }
    let mut opts: Vec<(K, u32)> = vec![(K::Dec, 5)];
    opts.push((K::Suffixed, 1));
    opts.push((K::ConstFn, 1));
    if v >= 0 {
        opts.push((K::Bin, 1));
        opts.push((K::Oct, 1));
        opts.push((K::Block, 1));
        if v >= 1000 {
            opts.push((K::Underscore, 2));
        }
        if (32..127).contains(&v) && v != 39 && v != 92 {
            opts.push((K::CharCast, 1));
            if r.ty == "u8" {
                opts.push((K::ByteChar, 2));
            }
        }
        if v <= 1 {
            opts.push((K::BoolCast, 2));
        }
        if !r.signed && r.bits <= 64 && r.max() - v <= 999 {
            opts.push((K::Not, 2));
        }
    } else if v >= -1000 {
        opts.push((K::Not, 1));
    }
    if v >= 0 {
        opts.push((K::Hex, 2));
        opts.push((K::Cast, 2));
        opts.push((K::MulAdd, 1));
        if v >= 1 {
            opts.push((K::Xor, 1));
        }
        if v >= 3 && (v as u128).count_ones() >= 2 {
            opts.push((K::Or, 1));
        }
        if v >= 2 && (v as u128).trailing_zeros() >= 1 {
            opts.push((K::Shl, 2));
            opts.push((K::Paren, 3));
        }
        if v >= 1 && v < (1i128 << 100) && r.in_range(v << 2) {
            opts.push((K::Shr, 1));
        }
        if r.in_range(v | 0x30) && v & 0x30 == 0 {
            opts.push((K::And, 1));
        }
        if r.max().saturating_sub(v) <= 9 && r.bits <= 64 {
            opts.push((K::MaxMinus, 6));
        }
    } else {
        opts.push((K::Neg, 2));
        if (v as u128).trailing_zeros() >= 1 && v != r.min() {
            opts.push((K::Shl, 1));
        }
        if v.saturating_sub(r.min()) <= 9 && r.bits <= 64 {
            opts.push((K::MinPlus, 6));
        }
    }
    if r.in_range(v.saturating_sub(7)) && r.in_range(v.saturating_add(7)) && v.checked_sub(7).is_some() && v.checked_add(7).is_some() {
        opts.push((K::ConstPlus, 3));
    }
    let w: Vec<u32> = opts.iter().map(|o| o.1).collect();
    let k = opts[d.weighted(&w)].0;
    let ty = r.ty;
    match k {
        K::Dec => (lit(v), None),
        K::Hex => (format!("0x{v:X}"), None),
        K::Cast => (if d.chance(50) { format!("{v} as {ty}") } else { format!("({v}u8 as {ty})").replace(&format!("({v}u8"), &format!("({}u128", v)) }, None),
        K::MulAdd => {
            let a = v / 3;
            let b = v - a * 3;
            (format!("{a} * 3 + {b}"), None)
        }
        K::Xor => {
            let y = 1 + d.pick(6) as i128;
            let x = v ^ y;
            if x < 0 || !r.in_range(x) {
                return (lit(v), None);
            }
            (format!("{x} ^ {y}"), Some(LowPrec { op: "^", l: x, r: y }))
        }
        K::Or => {
            let y = v & v.wrapping_neg(); // lowest set bit
            let x = v - y;
            (format!("0x{x:X} | {y}"), Some(LowPrec { op: "|", l: x, r: y }))
        }
        K::Shl | K::Paren => {
            let tz = (v as u128).trailing_zeros().min(r.bits - 2) as usize;
            let b = 1 + d.pick(tz.min(6)) as i128;
            let a = v >> b;
            if k == K::Paren {
                (format!("({a} << {b})"), None)
            } else {
                (format!("{a} << {b}"), Some(LowPrec { op: "<<", l: a, r: b }))
            }
        }
        K::Shr => {
            let b = 1 + d.pick(2) as i128;
            let a = v << b;
            (format!("{a} >> {b}"), Some(LowPrec { op: ">>", l: a, r: b }))
        }
        K::And => {
            let x = v | 0x10;
            let y = v | 0x20;
            (format!("{x} & {y}"), Some(LowPrec { op: "&", l: x, r: y }))
        }
        K::ConstPlus => {
            let kk = 1 + d.pick(6) as i128;
            let minus = d.chance(40);
            let base = if minus { v + kk } else { v - kk };
            let name = format!("K{}", consts.len());
            consts.push((name.clone(), base));
            (if minus { format!("{name} - {kk}") } else { format!("{name} + {kk}") }, None)
        }
        K::MaxMinus => {
            let kk = r.max() - v;
            (if kk == 0 { format!("{ty}::MAX") } else { format!("{ty}::MAX - {kk}") }, None)
        }
        K::MinPlus => {
            let kk = v - r.min();
            (if kk == 0 { format!("{ty}::MIN") } else { format!("{ty}::MIN + {kk}") }, None)
        }
        K::Neg => (if d.chance(50) && v != i128::MIN { format!("-({})", -v) } else { format!("({v})") }, None),
        K::Suffixed => {
            *spelled = true;
            (if d.chance(50) { format!("{v}{ty}") } else { format!("{v}_{ty}") }, None)
        }
        K::Underscore => {
            *spelled = true;
            let s = v.to_string();
            let (h, t) = s.split_at(s.len() - 3);
            (format!("{h}_{t}"), None)
        }
        K::Bin => {
            *spelled = true;
            (format!("0b{v:b}"), None)
        }
        K::Oct => {
            *spelled = true;
            (format!("0o{v:o}"), None)
        }
        K::ByteChar => {
            *spelled = true;
            (format!("b'{}'", v as u8 as char), None)
        }
        K::CharCast => {
            *spelled = true;
            (format!("'{}' as {ty}", v as u8 as char), None)
        }
        K::BoolCast => {
            *spelled = true;
            (format!("{} as {ty}", v == 1), None)
        }
        K::Not => {
            *spelled = true;
            // unsigned: !x == MAX - x; signed (v < 0): !x == -x - 1
            let x = if v >= 0 { r.max() - v } else { -v - 1 };
            (format!("!{x}"), None)
        }
        K::Block => {
            *spelled = true;
            let a = v / 2;
            (format!("{{ {a} + {} }}", v - a), None)
        }
        K::ConstFn => {
            *spelled = true;
            (if d.chance(50) { format!("kid({v})") } else { format!("self::kid({v}) ") }, None)
        }
    }
}

/// What `l op (r + k)` evaluates to in the repr type, `None` when it does not const-evaluate (overflow).
fn defect_eval(lp: &LowPrec, k: i128, r: Repr) -> Option<i128> {
    let rr = lp.r + k;
    match lp.op {
        "<<" => {
            if rr >= r.bits as i128 {
                return None;
            }
            if rr >= 120 {
                return None;
            }
            Some(r.wrap(lp.l.wrapping_shl(rr as u32)))
        }
        ">>" => {
            if rr >= r.bits as i128 {
                return None;
            }
            Some(lp.l >> rr)
        }
        "|" | "^" | "&" => {
            if !r.in_range(rr) {
                return None;
            }
            Some(match lp.op {
                "|" => lp.l | rr,
                "^" => lp.l ^ rr,
                _ => lp.l & rr,
            })
        }
        _ => None,
    }
}

const NAMES: [&str; 12] = ["A", "B", "C", "D", "E", "F", "G", "H", "I", "J", "L", "M"];
/// names that are pairwise equal ignoring case (the derive builds one constant per variant from its name)
const CASE_NAMES: [&str; 12] = ["Kb", "KB", "Mb", "MB", "kb", "Gb", "GB", "gB", "Ab", "AB", "Tb", "TB"];
const ODD_NAMES: [&str; 8] = ["Error", "Ok", "Err", "None", "Some", "r#fn", "r#type", "Self_"];

fn build(d: &mut Dice) -> GenCase {
    let mut labels: Vec<String> = vec![];
    // representation
    let has_int = !d.chance(14);
    let repr = if has_int { REPRS[d.weighted(&[6, 6, 5, 5, 3, 3, 2, 2, 2, 2, 1, 1])] } else { REPRS[9] };
    let generic = d.chance(13);
    // explicit discriminants need a primitive repr unless the enum is unit-only
    let unit_only = if has_int { d.chance(25) } else { d.chance(55) };
    let allow_explicit = has_int || unit_only;
    let nv = if d.chance(3) && !has_int && !generic { 0 } else { d.range(1, 8) };
    // now and then a longer enum (implicit runs with two-digit offsets)
    let nv = if nv > 0 && d.chance(6) { d.range(9, 12) } else { nv };

    // generic parameters
    let (mut use_lt, mut use_ty, mut use_const) = (false, false, false);
    if generic {
        match d.pick(6) {
            0 => use_const = true,
            1 => use_lt = true,
            2 => use_ty = true,
            3 => {
                use_lt = true;
                use_const = true;
            }
            4 => {
                use_ty = true;
                use_const = true;
            }
            _ => {
                use_lt = true;
                use_ty = true;
                use_const = true;
            }
        }
        if unit_only && !allow_explicit_only_const(use_lt, use_ty) {
            // lifetime / type parameters must be used by a field: a unit-only enum can only take const parameters
            use_lt = false;
            use_ty = false;
            use_const = true;
        }
    }

    let mut vars: Vec<Var> = vec![];
    let mut consts: Vec<(String, i128)> = vec![];
    let mut used: BTreeSet<i128> = BTreeSet::new();
    let mut cur: Option<i128> = None;
    let mut since_explicit: Option<(LowPrec, i128)> = None; // (low-precedence explicit expression, distance)
    let mut any_lowprec_visible = false;
    let mut defect_uncompilable = false;
    let mut explicit_after_implicit = false;
    let mut fields_between_units = false;
    let mut seen_implicit = false;
    let mut need_fields_for_generics = generic && (use_lt || use_ty);
    let mut spelled = false;
    // further forms of the parameter list: 1 = defaults on the trailing parameters, 2 = a second lifetime bounded by
    // the first, 3 = inline bound *and* where-clause on `T`, 4 = `T: 'a`
    let gen_extra = if generic { d.weighted(&[5, 3, 2, 2, 2]) } else { 0 };
    let use_lt2 = gen_extra == 2 && use_lt;
    let mut lt2_used = false;
    let odd_names = d.chance(10);
    let case_names = !odd_names && d.chance(8);
    for i in 0..nv {
        let next = match cur {
            None => Some(0),
            Some(c) => {
                if c < repr.max() {
                    Some(c + 1)
                } else {
                    None
                }
            }
        };
        let implicit_ok = next.is_some_and(|n| !used.contains(&n));
        let want_explicit = d.chance(40);
        let explicit = if !allow_explicit {
            if !implicit_ok {
                break;
            }
            false
        } else {
            !implicit_ok || want_explicit
        };
        let form = if unit_only {
            Form::Unit
        } else if need_fields_for_generics && i + 1 == nv.max(1) {
            Form::Tuple
        } else {
            [Form::Unit, Form::EmptyTuple, Form::EmptyBrace, Form::Tuple, Form::Struct][d.weighted(&[8, 2, 2, 3, 2])]
        };
        let name = if odd_names && i < ODD_NAMES.len() {
            ODD_NAMES[(i * 3 + 1) % ODD_NAMES.len()].to_string()
        } else if case_names {
            CASE_NAMES[i % CASE_NAMES.len()].to_string()
        } else {
            NAMES[i].to_string()
        };
        // odd names are picked with a stride coprime to the table length: pairwise distinct for i < 8
        let (value, explicit_text) = if explicit {
            let pool: [i128; 30] = [
                0, 1, 2, 5, 7, 8, 16, 24, 32, 64, 100, 127, 128, 200, 254, 255, 256, 1000, 32767, 65535, 1 << 20, -1, -2, -21, -128,
                repr.max(), repr.max() - 1, repr.max() - 4, repr.min(), repr.min() + 2,
            ];
            let mut v = None;
            for _ in 0..10 {
                let c = pool[d.pick(pool.len())];
                if repr.in_range(c) && !used.contains(&c) {
                    v = Some(c);
                    break;
                }
            }
            let v = match v {
                Some(v) => v,
                None => {
                    let mut c = 3;
                    while used.contains(&c) || !repr.in_range(c) {
                        c += 1;
                    }
                    c
                }
            };
            let (text, lp) = render_expr(d, v, repr, &mut consts, &mut spelled);
            since_explicit = lp.map(|l| (l, 0));
            if seen_implicit {
                explicit_after_implicit = true;
            }
            (v, Some(text))
        } else {
            seen_implicit = true;
            (next.unwrap(), None)
        };
        if let Some((_, dist)) = since_explicit.as_mut() {
            if !explicit {
                *dist += 1;
            }
        }
        let fieldless = matches!(form, Form::Unit | Form::EmptyTuple | Form::EmptyBrace);
        let mut defect_value = Some(value);
        if let (false, Some((lp, dist))) = (explicit, &since_explicit) {
            if fieldless {
                let dv = defect_eval(lp, *dist, repr);
                if dv != Some(value) {
                    any_lowprec_visible = true;
                }
                if dv.is_none() {
                    defect_uncompilable = true;
                }
                defect_value = dv;
            }
        }
        let fields = match form {
            Form::Unit => String::new(),
            Form::EmptyTuple => "()".into(),
            Form::EmptyBrace => " {}".into(),
            Form::Tuple => {
                let mut parts: Vec<&str> = vec![];
                if use_lt && need_fields_for_generics {
                    parts.push("&'a u8");
                    if use_lt2 {
                        parts.push("&'b u8");
                        lt2_used = true;
                    }
                }
                if use_ty && need_fields_for_generics {
                    parts.push("T");
                }
                if use_const && d.chance(50) {
                    parts.push("[u8; N]");
                }
                if parts.is_empty() || d.chance(40) {
                    parts.push(["u8", "usize", "i64"][d.pick(3)]);
                }
                need_fields_for_generics = false;
                format!("({})", parts.join(", "))
            }
            Form::Struct => format!(" {{ x: {} }}", ["usize", "u8", "i64"][d.pick(3)]),
        };
        if !fieldless && i > 0 && i + 1 < nv && vars.iter().any(|v: &Var| v.form == Form::Unit) {
            fields_between_units = true;
        }
        used.insert(value);
        cur = Some(value);
        vars.push(Var { name, form, fields, explicit: explicit_text, value, defect_value });
    }
    if need_fields_for_generics {
        // no variant could carry the lifetime / type parameter (e.g. the loop stopped early): const parameter only
        use_lt = false;
        use_ty = false;
        use_const = true;
    }
    let nv = vars.len();
    let all_fieldless = vars.iter().all(|v| matches!(v.form, Form::Unit | Form::EmptyTuple | Form::EmptyBrace));
    let c_like = vars.iter().all(|v| v.form == Form::Unit);
    // rustc only casts field-less enums whose explicit discriminants all sit on unit variants (rust-lang/rust#88621)
    let castable = nv > 0 && all_fieldless && vars.iter().all(|v| v.form == Form::Unit || v.explicit.is_none());

    // repr attribute(s)
    let ty = repr.ty;
    let (repr_attr, repr_label) = if has_int {
        // (text, label, weight)
        let forms: Vec<(String, &str, u32)> = if c_like || nv == 0 {
            // `C` next to an integer hint conflicts on C-like enums (E0566): other hints only via align
            vec![
                (format!("#[repr({ty})]\n"), "repr=int", 6),
                (format!("#[repr(align(8), {ty})]\n"), "repr=align+int", 3),
                (format!("#[repr({ty})]\n#[repr(align(4))]\n"), "repr=int,then align", 3),
                (format!("#[repr({ty}, align(8))]\n"), "repr=int+align", 2),
                (format!("#[repr(align(4))]\n#[repr({ty})]\n"), "repr=align,then int", 2),
            ]
        } else {
            vec![
                (format!("#[repr({ty})]\n"), "repr=int", 6),
                (format!("#[repr(C, {ty})]\n"), "repr=C+int", 3),
                (format!("#[repr({ty}, C)]\n"), "repr=int+C", 3),
                (format!("#[repr(C)]\n#[repr({ty})]\n"), "repr=C,then int", 3),
                (format!("#[repr({ty})]\n#[repr(C)]\n"), "repr=int,then C", 3),
                (format!("#[repr(align(8), {ty})]\n"), "repr=align+int", 3),
                (format!("#[repr({ty})]\n#[repr(align(4))]\n"), "repr=int,then align", 3),
                (format!("#[repr({ty}, align(8))]\n"), "repr=int+align", 2),
                (format!("#[repr(C, align(8), {ty})]\n"), "repr=C+align+int", 2),
                (format!("#[repr(C)]\n#[repr({ty})]\n#[repr(align(4))]\n"), "repr=C,then int,then align", 2),
                (format!("#[repr(align(4))]\n#[repr({ty})]\n"), "repr=align,then int", 1),
            ]
        };
        let w: Vec<u32> = forms.iter().map(|f| f.2).collect();
        let f = forms[d.weighted(&w)].clone();
        (f.0, f.1.to_string())
    } else if nv > 0 && d.chance(25) {
        ("#[repr(C)]\n".to_string(), "repr=C only (isize)".to_string())
    } else if nv > 0 && d.chance(12) {
        ("#[repr(align(8))]\n".to_string(), "repr=align only (isize)".to_string())
    } else {
        (String::new(), "repr=none (isize)".to_string())
    };
    // 0: derive, try_from, repr; 1: derive, repr, try_from; 2: repr *before* the derive attribute
    let attr_order = d.weighted(&[4, 4, 2]);
    // inert attributes on the enum and on variants (doc comments, lint levels, cfg)
    let noisy = d.chance(15);
    let noise: Vec<&str> = (0..nv.max(1)).map(|_| if noisy { ["", "/// doc\n    ", "#[allow(dead_code)] ", "#[cfg(all())] ", "#[doc(hidden)] "][d.weighted(&[4, 2, 2, 1, 1])] } else { "" }).collect();
    let enum_noise = if noisy { ["#[allow(dead_code)]\n", "/// An enum.\n#[non_exhaustive]\n", "#[allow(clippy::all)]\n"][d.pick(3)] } else { "" };

    // generics text
    let mut gdecl: Vec<String> = vec![];
    let mut gargs: Vec<String> = vec![];
    let mut ginst: Vec<String> = vec![];
    let mut where_clause = String::new();
    // the same parameters as an impl header declares them (no defaults)
    let mut gidecl: Vec<String> = vec![];
    if generic {
        if use_lt {
            gdecl.push("'a".into());
            gargs.push("'a".into());
            ginst.push("'static".into());
            if lt2_used {
                gdecl.push("'b: 'a".into());
                gargs.push("'b".into());
                ginst.push("'static".into());
            }
        }
        gidecl = gdecl.clone();
        let const_first = d.chance(40);
        // (declaration, argument, instantiation, default)
        let mut rest: Vec<(String, String, String, &str)> = vec![];
        if use_ty {
            let decl = match d.pick(3) {
                0 => "T".to_string(),
                1 => "T: Copy".to_string(),
                _ => {
                    where_clause = " where T: Copy".into();
                    "T".to_string()
                }
            };
            let decl = match gen_extra {
                3 => {
                    // inline bound and where-clause at once
                    where_clause = " where T: Clone, u8: Copy".into();
                    "T: Copy".to_string()
                }
                4 if use_lt => format!("{}{}'a", decl, if decl.contains(':') { " + " } else { ": " }),
                _ => decl,
            };
            rest.push((decl, "T".into(), "u16".into(), "u16"));
        }
        if use_const {
            rest.push(("const N: usize".into(), "N".into(), "3".into(), "3"));
        }
        if const_first {
            rest.reverse();
        }
        // defaults must be trailing: the last parameter, now and then the one before it as well
        let n_rest = rest.len();
        let defaults_from = if gen_extra == 1 && n_rest > 0 { if n_rest > 1 && d.chance(40) { n_rest - 2 } else { n_rest - 1 } } else { n_rest };
        for (i, (a, b, c, dflt)) in rest.into_iter().enumerate() {
            gidecl.push(a.clone());
            gdecl.push(if i >= defaults_from { format!("{a} = {dflt}") } else { a });
            gargs.push(b);
            ginst.push(c);
        }
    }
    let generic_defaults = gdecl.iter().any(|g| g.contains(" = "));
    let (gd, ga, gi) = if gdecl.is_empty() {
        (String::new(), String::new(), String::new())
    } else {
        (format!("<{}>", gdecl.join(", ")), format!("<{}>", gargs.join(", ")), format!("<{}>", ginst.join(", ")))
    };
    let gid = if gidecl.is_empty() { String::new() } else { format!("<{}>", gidecl.join(", ")) };

    // program text
    let mut body = String::new();
    let head = format!("pub type R = {ty};\n#[allow(dead_code)] pub const fn kid(x: R) -> R {{ x }}\n");
    body.push_str(&head);
    for (n, v) in &consts {
        body.push_str(&format!("pub const {n}: {ty} = {v};\n"));
    }
    let mut enum_text = String::new();
    let derive_attrs = match attr_order {
        0 => format!("#[derive(derive_more::TryFrom)]\n#[try_from(repr)]\n{repr_attr}{enum_noise}"),
        1 => format!("#[derive(derive_more::TryFrom)]\n{repr_attr}{enum_noise}#[try_from(repr)]\n"),
        _ => format!("{enum_noise}{repr_attr}#[derive(derive_more::TryFrom)]\n#[try_from(repr)]\n"),
    };
    enum_text.push_str(&format!("pub enum E{gd}{where_clause} {{\n"));
    for (i, v) in vars.iter().enumerate() {
        let disc = v.explicit.as_ref().map(|e| format!(" = {e}")).unwrap_or_default();
        enum_text.push_str(&format!("    {}{}{}{disc},\n", noise[i], v.name, v.fields));
    }
    enum_text.push_str("}\n");
    // the enum may be produced by a `macro_rules!` whose explicit discriminants arrive as `$d:expr` fragments
    // (None-delimited groups in the derive's input: their grouping is not re-emitted by rustc for proc-macro output)
    let explicit: Vec<String> = vars.iter().filter_map(|v| v.explicit.clone()).collect();
    let via_macro = !explicit.is_empty() && d.chance(15);
    if via_macro {
        let params: Vec<String> = (0..explicit.len()).map(|k| format!("$d{k}:expr")).collect();
        let mut m = format!("macro_rules! __mk {{ ({}) => {{\n{derive_attrs}pub enum E{gd}{where_clause} {{\n", params.join(", "));
        let mut k = 0;
        for (i, v) in vars.iter().enumerate() {
            let disc = if v.explicit.is_some() {
                k += 1;
                format!(" = $d{}", k - 1)
            } else {
                String::new()
            };
            m.push_str(&format!("    {}{}{}{disc},\n", noise[i], v.name, v.fields));
        }
        m.push_str(&format!("}}\n}} }}\n__mk!({});\n", explicit.join(", ")));
        body.push_str(&m);
    } else {
        body.push_str(&derive_attrs);
        body.push_str(&enum_text);
    }
    let control = format!("{head}{}{repr_attr}{enum_text}", consts.iter().map(|(n, v)| format!("pub const {n}: {ty} = {v};\n")).collect::<String>());
    // twin: same discriminant expressions, fields stripped: castable whatever the enum looks like
    let twin_repr = if has_int { format!("#[repr({ty})]\n") } else { String::new() };
    body.push_str(&format!("pub mod twin {{\n    use super::*;\n    {twin_repr}    pub enum T {{\n"));
    for v in &vars {
        let disc = v.explicit.as_ref().map(|e| format!(" = {e}")).unwrap_or_default();
        body.push_str(&format!("        {}{disc},\n", v.name));
    }
    body.push_str("    }\n}\n");
    // variant index
    body.push_str(&format!("impl{gid} E{ga}{where_clause} {{\n    pub fn idx(&self) -> usize {{\n        match *self {{\n"));
    for (i, v) in vars.iter().enumerate() {
        let pat = match v.form {
            Form::Unit => String::new(),
            Form::EmptyTuple => "()".into(),
            Form::EmptyBrace => " {}".into(),
            Form::Tuple => "(..)".into(),
            Form::Struct => " { .. }".into(),
        };
        body.push_str(&format!("            E::{}{pat} => {i},\n", v.name));
    }
    if nv == 0 {
        body.push_str("        }\n    }\n}\n");
    } else {
        body.push_str("        }\n    }\n}\n");
    }
    body.push_str(&format!("pub type EI = E{gi};\n"));
    body.push_str("pub fn run(o: &mut Out) {\n");
    // (discriminant by cast of the twin, variant index, field-less, generator's value, value under the recorded precedence defect)
    body.push_str(&format!("    let table: [(i128, usize, bool, i128, i128); {nv}] = [\n"));
    for (i, v) in vars.iter().enumerate() {
        let fl = matches!(v.form, Form::Unit | Form::EmptyTuple | Form::EmptyBrace);
        body.push_str(&format!(
            "        (twin::T::{} as R as i128, {i}, {fl}, {}i128, {}i128),\n",
            v.name,
            wrap_u128(v.value),
            wrap_u128(v.defect_value.unwrap_or(v.value))
        ));
    }
    body.push_str("    ];\n");
    body.push_str("    for t in table.iter() { if t.0 != t.3 { o.fail(\"HARNESS self-check: the generator's discriminant (Reference rule) == the cast\", &t.3.to_string(), &t.0.to_string()); } }\n");
    if castable {
        // the enum itself is castable
        for v in &vars {
            let ctor = match v.form {
                Form::EmptyTuple => "()",
                Form::EmptyBrace => " {}",
                _ => "",
            };
            body.push_str(&format!(
                "    o.eq(\"cast of E::{n} == cast of its twin\", &(twin::T::{n} as R).to_string(), &(EI::{n}{ctor} as R).to_string());\n",
                n = v.name
            ));
        }
    }
    let tag_read = if castable {
        "Some(v as R)"
    } else if has_int {
        // primitive representation: the tag is the first field (RFC 2195)
        "Some(unsafe { *(&v as *const EI as *const R) })"
    } else {
        "None::<R>"
    };
    body.push_str(&format!(
        r#"    let mut tried = 0u64; let mut oks = 0u64; let mut mism = 0u64; let mut mism_model = 0u64; let mut first = String::new();
    let mut probe = |n: R| {{
        tried += 1;
        let exp = table.iter().find(|t| t.0 == n as i128).filter(|t| t.2).map(|t| t.1);
        let pred = table.iter().filter(|t| t.2).find(|t| t.4 == n as i128).map(|t| t.1);
        let (got, tag): (Result<usize, R>, Option<R>) = match <EI as TryFrom<R>>::try_from(n) {{
            Ok(v) => {{ let i = v.idx(); (Ok(i), {tag_read}) }}
            Err(e) => (Err(e.input), None),
        }};
        if got.is_ok() {{ oks += 1; }}
        let good = match (&got, exp) {{ (Ok(i), Some(k)) => *i == k && tag.map_or(true, |t| t == n), (Err(x), None) => *x == n, _ => false }};
        if !good {{
            mism += 1;
            if first.is_empty() {{ first = format!("try_from({{n}}) = {{}} but the cast says {{}}", match &got {{ Ok(i) => format!("Ok(variant #{{i}}, tag {{tag:?}})"), Err(x) => format!("Err(input: {{x}})") }}, match exp {{ Some(k) => format!("Ok(variant #{{k}})"), None => format!("Err(input: {{n}})") }}); }}
        }}
        let good_model = match (&got, pred) {{ (Ok(i), Some(k)) => *i == k, (Err(x), None) => *x == n, _ => false }};
        if !good_model {{ mism_model += 1; }}
    }};
"#
    ));
    let exhaustive = repr.bits <= 16;
    if exhaustive {
        body.push_str("    for n in R::MIN..=R::MAX { probe(n); }\n");
    } else {
        let seed = 1 + d.pick(60000) as u64;
        body.push_str(&format!(
            r#"    for t in table.iter() {{ let dv = t.0 as R; probe(dv); probe(dv.wrapping_add(1)); probe(dv.wrapping_sub(1)); probe(t.4 as R); }}
    for n in [0 as R, 1 as R, R::MIN, R::MAX, R::MIN.wrapping_add(1), R::MAX.wrapping_sub(1), (R::MAX / 2) as R] {{ probe(n); }}
    let mut s: u64 = {seed};
    for j in 0..6000u32 {{
        s = s.wrapping_mul(6364136223846793005).wrapping_add(1442695040888963407);
        let x = (s >> 11) as u128 | ((s as u128) << 64);
        let n = if j % 3 == 0 && !table.is_empty() {{ (table[(s >> 40) as usize % table.len()].0 as R).wrapping_add(((s >> 20) % 129) as R).wrapping_sub(64 as R) }} else if j % 3 == 1 {{ x as R }} else {{ ((x as R) >> ((s >> 58) as u32 % (R::BITS - 1))) as R }};
        probe(n);
    }}
"#
        ));
    }
    body.push_str(
        r#"    o.put("tried", &tried.to_string());
    o.put("ok_results", &oks.to_string());
    if mism == 0 {
        o.check("try_from is the exact inverse of the cast on every tried value", true);
    } else {
        o.fail("try_from is the exact inverse of the cast on every tried value", &format!("agreement on all {tried} values"), &format!("{mism} mismatches; first: {first}; precedence-defect-model explains every result: {}", mism_model == 0));
    }
}
"#,
    );

    labels.push(format!("repr={}", if has_int { ty } else { "(none)" }));
    labels.push(repr_label);
    if via_macro {
        labels.push("discriminants_through_macro_fragments".into());
    }
    if spelled {
        labels.push("literal_spelling_or_expression_form".into());
    }
    if generic_defaults {
        labels.push("generic_param_defaults".into());
    }
    if generic && lt2_used {
        labels.push("generic_second_lifetime".into());
    }
    if generic && use_ty && matches!(gen_extra, 3 | 4) {
        labels.push("generic_bound_and_where_or_outlives".into());
    }
    if attr_order == 2 {
        labels.push("repr_before_derive".into());
    }
    if noisy {
        labels.push("inert_attributes_on_enum_and_variants".into());
    }
    if nv > 8 {
        labels.push("more_than_8_variants".into());
    }
    labels.push(if exhaustive { "domain=every value (8/16 bit)".into() } else { "domain=discriminants+-1, extremes, seeded sample".into() });
    labels.push(if generic { "generic".into() } else { "non_generic".into() });
    if generic {
        if use_lt {
            labels.push("generic_lifetime".into());
        }
        if use_ty {
            labels.push("generic_type".into());
        }
        if use_const {
            labels.push("generic_const".into());
        }
    }
    if vars.iter().any(|v| v.explicit.is_some()) {
        labels.push("explicit_discriminant".into());
    }
    if vars.iter().any(|v| v.value < 0) {
        labels.push("negative_discriminant".into());
    }
    if vars.iter().any(|v| v.explicit.as_ref().is_some_and(|e| e.contains("MAX") || e.contains("MIN"))) {
        labels.push("extreme_discriminant".into());
    }
    if vars.iter().any(|v| v.explicit.as_ref().is_some_and(|e| e.chars().any(|c| "+-*<>|^&".contains(c)) && !e.starts_with('-') || e.contains(" as "))) {
        labels.push("constant_expression".into());
    }
    if !consts.is_empty() {
        labels.push("named_constant_in_expression".into());
    }
    if explicit_after_implicit {
        labels.push("explicit_after_implicit_run".into());
    }
    if fields_between_units {
        labels.push("fields_between_unit_variants".into());
    }
    if vars.iter().any(|v| matches!(v.form, Form::Tuple | Form::Struct)) {
        labels.push("variant_with_fields".into());
    }
    if castable {
        labels.push("castable_enum".into());
    } else if has_int && nv > 0 {
        labels.push("tag_read_through_pointer".into());
    }
    if vars.iter().any(|v| matches!(v.form, Form::EmptyTuple | Form::EmptyBrace)) {
        labels.push("empty_tuple_or_brace_variant".into());
    }
    if any_lowprec_visible {
        labels.push("implicit_after_low_precedence_expression".into());
    }
    if case_names && nv >= 2 {
        labels.push("variant_names_differing_only_in_case".into());
    }
    if odd_names {
        labels.push("odd_variant_names".into());
    }
    if nv == 0 {
        labels.push("zero_variants".into());
    }
    labels.push(format!("variants={}", nv.min(8)));

    let mut c = GenCase::new(body);
    c.control = Some(control);
    c.labels = labels;
    c.nontrivial = explicit_after_implicit || fields_between_units;
    c.meta = json!({
        "generic": generic,
        "lowprec_visible": any_lowprec_visible,
        "lowprec_uncompilable": defect_uncompilable,
        "repr": ty,
    });
    c
}

fn allow_explicit_only_const(use_lt: bool, use_ty: bool) -> bool {
    !use_lt && !use_ty
}

/// `i128` image of a value (identity; kept as a hook for the `u128` range note in `Repr::max`)
fn wrap_u128(v: i128) -> i128 {
    v
}

fn fixed() -> Vec<GenCase> {
    // the documentation's example and the repository's test patterns, rebuilt through the same oracle text is not
    // needed: they are ordinary points of the generated domain.  One regression: the minimal forms of the two
    // recorded defects, so that a repair is noticed (they then simply pass).
    vec![]
}

fn classify(c: &GenCase, r: &CaseResult, f: &Finding) -> Option<String> {
    if !r.compiled {
        if r.errors.is_empty() {
            return None;
        }
        // generic parameters are put on the repr type: `impl<..> TryFrom<u8<..>> for E`
        if c.meta["generic"].as_bool() == Some(true) {
            let on_prim = |d: &super::proggen::Diag| {
                (d.code.as_deref() == Some("E0109") && (d.message.contains("not allowed on builtin type") || d.message.contains("arguments are not allowed")))
                    || (d.code.as_deref() == Some("E0107") && d.message.contains("missing generics for enum"))
                    || (d.code.as_deref() == Some("E0726") && d.message.contains("implicit elided lifetime"))
                    || (matches!(d.code.as_deref(), Some("E0277") | Some("E0599")) && d.message.contains("TryFrom"))
            };
            if r.errors.iter().any(|d| d.code.as_deref() == Some("E0109")) && r.errors.iter().all(on_prim) {
                return Some(SIG_GENERIC.into());
            }
            return None;
        }
        // `<explicit expr> + <offset>` without parentheses does not even const-evaluate
        if c.meta["lowprec_uncompilable"].as_bool() == Some(true)
            && r.errors.iter().all(|d| d.rendered.contains("overflow") && (d.code.as_deref() == Some("E0080") || d.message.contains("overflow")))
        {
            return Some(SIG_PREC.into());
        }
        return None;
    }
    if c.meta["lowprec_visible"].as_bool() == Some(true)
        && f.summary.contains("try_from is the exact inverse of the cast")
        && f.observed.ends_with("precedence-defect-model explains every result: true")
    {
        return Some(SIG_PREC.into());
    }
    None
}

pub fn prop() -> DiceProp {
    DiceProp {
        crate_name: "gen_c12",
        prelude: String::new(),
        crate_attrs: String::new(),
        nightly: false,
        check_only: false,
        ndice: 200,
        quick: (4000, 1),
        thorough: (6000, 5),
        build,
        fixed,
        classify,
        rule: "enums with 0..8 variants over discriminant patterns (implicit runs, explicit decimal/hex/negative/extreme constants, constant expressions with <<, >>, |, ^, &, +, -, *, !, casts (incl. from char / bool), parentheses, blocks, const-fn calls, named constants, suffixed / underscored / binary / octal / byte literals), unit / empty-tuple / empty-brace variants and variants with fields interleaved, repr in {none, C only, align only => isize; u8..i128, usize, isize alone or with C / align hints in one to three attributes (int before or after the other hints), before or after #[try_from(repr)] or before the derive attribute}, inert attributes on enum and variants, up to 12 variants, optional lifetime/type/const parameters (defaults, a second bounded lifetime, inline bound plus where-clause, `T: 'a`); oracle: discriminant map by the Reference rule computed by the generator and cross-checked with `Variant as repr` casts of a field-stripped twin (and of the enum itself when field-less); try_from(n) over every value of 8/16-bit reprs, over discriminants +-1, extremes, 0 and 6000 seeded values otherwise: Ok(v) iff n is the discriminant of field-less v (and v's tag == n), else Err with input == n; non-trivial = an explicit discriminant after an implicit run or a variant with fields between unit variants; distinct by program text".into(),
        assumptions: vec![
            "u128 discriminants are generated within 0..=i128::MAX (the model computes in i128); u128 inputs are sampled over the full width".into(),
            "the tag of an enum with fields is read through a pointer only under a primitive representation (RFC 2195 layout); without one only the Ok/Err verdict and the variant are checked".into(),
            "explicit discriminants are only generated where rustc allows them (primitive repr or unit-only enum); C + integer hints only on enums that are not C-like (E0566)".into(),
        ],
        floors: vec![
            ("non_generic".into(), 0.75),
            ("generic".into(), 0.08),
            ("domain=every value (8/16 bit)".into(), 0.4),
            ("explicit_after_implicit_run".into(), 0.2),
            ("fields_between_unit_variants".into(), 0.1),
            ("negative_discriminant".into(), 0.08),
            ("extreme_discriminant".into(), 0.03),
            ("constant_expression".into(), 0.2),
            ("empty_tuple_or_brace_variant".into(), 0.15),
            ("repr=none (isize)".into(), 0.04),
            ("repr=C+int".into(), 0.02),
            ("repr=align+int".into(), 0.03),
            ("repr=int+align".into(), 0.03),
            ("literal_spelling_or_expression_form".into(), 0.1),
            ("generic_param_defaults".into(), 0.01),
            ("repr_before_derive".into(), 0.1),
            ("inert_attributes_on_enum_and_variants".into(), 0.05),
        ],
        shards: 0,
    }
}

pub fn run(ctx: &super::core::Ctx) -> super::core::Report {
    let mut rep = super::progprop::run(&prop(), ctx);
    rep.evidence.exhaustive = Some(false);
    rep.evidence.explanation = "per generated enum with an 8- or 16-bit repr every value of the repr type is tried (label `domain=every value (8/16 bit)`); the space of enums and the inputs of wider reprs are sampled".into();
    rep
}

pub fn replay(ctx: &super::core::Ctx, case: &serde_json::Value) -> super::core::Report {
    super::progprop::replay(&prop(), ctx, case)
}

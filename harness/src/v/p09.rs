//! C09 — `Error::source` returns exactly the field the documented rules select.
//!
//! Three parts, merged into one report:
//!  * a **stable** generated-program shard (no field is a backtrace): structs and enums whose
//!    variants are random field layouts (0..3 named/positional fields x attribute x name x type),
//!    generic and concrete; the oracle inside the program compares the data pointer of the
//!    `&dyn Error` returned by `source()` with the address of every field (for `Box<dyn Error ..>`:
//!    of the boxed value) and reports *which* field came back; the expectation is computed by an
//!    independent three-valued model of `impl/doc/error.md` + the property statement;
//!  * a **nightly** shard (`#![feature(error_generic_member_access)]`) for layouts where a field
//!    is the backtrace by name, type or attribute (the derive then emits `provide()`), which is
//!    where the two-field-tuple inference lives;
//!  * an in-process **sweep** (engine E1) over *every* layout of the attribute/name/type-class
//!    space: ambiguous selections (two `#[error(source)]`) must be rejected by the derive with a
//!    diagnostic, everything else must expand without error or panic.  The sweep only decides the
//!    derive-level accept/reject clause; which field is returned is always decided by running
//!    compiled code.
use super::core::*;
use super::dm;
use super::proggen::CaseResult;
use super::progprop::*;
use serde_json::{json, Value};

pub const SIG_SHIFT: &str = "c09-ignore-shifts-index";
pub const SIG_PANIC: &str = "c09-ignore-tuple-backtrace-panic";

// ------------------------------------------------------------------------------------------------
// layouts and the reference model

#[derive(Clone, Copy, Debug, PartialEq, Eq)]
pub enum At {
    None,
    Source,
    NotSource,
    Backtrace,
    NotBacktrace,
    Ignore,
    BtSource,
    /// `source, backtrace` (the documented pair in the other order)
    SourceBt,
    /// `source, not(backtrace)`
    SourceNotBt,
    /// `not(source), backtrace`
    NotSourceBt,
    /// `not(source), not(backtrace)`
    NotSourceNotBt,
    /// `not(source, backtrace)`
    NotBoth,
}

/// the single-parameter attributes and the documented `backtrace, source`
pub const BASE_ATTRS: [At; 7] = [At::None, At::Source, At::NotSource, At::Backtrace, At::NotBacktrace, At::Ignore, At::BtSource];
pub const ALL_ATTRS: [At; 12] = [
    At::None,
    At::Source,
    At::NotSource,
    At::Backtrace,
    At::NotBacktrace,
    At::Ignore,
    At::BtSource,
    At::SourceBt,
    At::SourceNotBt,
    At::NotSourceBt,
    At::NotSourceNotBt,
    At::NotBoth,
];

impl At {
    pub fn text(self) -> Option<&'static str> {
        match self {
            At::None => None,
            At::Source => Some("source"),
            At::NotSource => Some("not(source)"),
            At::Backtrace => Some("backtrace"),
            At::NotBacktrace => Some("not(backtrace)"),
            At::Ignore => Some("ignore"),
            At::BtSource => Some("backtrace, source"),
            At::SourceBt => Some("source, backtrace"),
            At::SourceNotBt => Some("source, not(backtrace)"),
            At::NotSourceBt => Some("not(source), backtrace"),
            At::NotSourceNotBt => Some("not(source), not(backtrace)"),
            At::NotBoth => Some("not(source, backtrace)"),
        }
    }
    /// what the attribute says about `source`: `Some(true)` marked, `Some(false)` negated, `None` silent
    pub fn src(self) -> Option<bool> {
        match self {
            At::Source | At::BtSource | At::SourceBt | At::SourceNotBt => Some(true),
            At::NotSource | At::NotSourceBt | At::NotSourceNotBt | At::NotBoth => Some(false),
            At::None | At::Backtrace | At::NotBacktrace | At::Ignore => None,
        }
    }
    /// what the attribute says about `backtrace`
    pub fn bt(self) -> Option<bool> {
        match self {
            At::Backtrace | At::BtSource | At::SourceBt | At::NotSourceBt => Some(true),
            At::NotBacktrace | At::SourceNotBt | At::NotSourceNotBt | At::NotBoth => Some(false),
            At::None | At::Source | At::NotSource | At::Ignore => None,
        }
    }
    /// more than one parameter in the attribute's list
    pub fn is_combo(self) -> bool {
        matches!(self, At::BtSource | At::SourceBt | At::SourceNotBt | At::NotSourceBt | At::NotSourceNotBt | At::NotBoth)
    }
    /// disqualified as source: `not(source)` in any spelling, or `ignore`
    fn no_src(self) -> bool {
        self.src() == Some(false) || self == At::Ignore
    }
    fn label(self) -> &'static str {
        match self {
            At::None => "none",
            At::Source => "source",
            At::NotSource => "not_source",
            At::Backtrace => "backtrace",
            At::NotBacktrace => "not_backtrace",
            At::Ignore => "ignore",
            At::BtSource => "backtrace_source",
            At::SourceBt => "source_backtrace",
            At::SourceNotBt => "source_not_backtrace",
            At::NotSourceBt => "not_source_backtrace",
            At::NotSourceNotBt => "not_source_not_backtrace",
            At::NotBoth => "not_both_one_list",
        }
    }
}

/// What the derive can see of a field type: an error type, a type whose last path segment is
/// `Backtrace`, anything else.
#[derive(Clone, Copy, Debug, PartialEq, Eq)]
pub enum Cls {
    Err,
    Bt,
    Plain,
    /// a type that merely *contains* or *resembles* `Backtrace` (`Option<Backtrace>`, `Box<Backtrace>`,
    /// `MyBacktrace`): not "called `Backtrace`", so neither a backtrace nor (not being an error) a source
    NearBt,
}

#[derive(Clone, Debug)]
pub struct Fl {
    /// field name; empty for positional fields
    pub name: String,
    pub attr: At,
    pub cls: Cls,
}

#[derive(Clone, Debug)]
pub struct Layout {
    pub named: bool,
    pub fields: Vec<Fl>,
    /// `#[error(ignore)]` on the variant / struct itself
    pub ignored: bool,
}

#[derive(Clone, Copy, Debug, PartialEq, Eq)]
pub enum Sel {
    Field(usize),
    NoSource,
    /// the documentation and the statement do not pin the answer down: counted, not checked
    Unspecified,
    /// two explicit `source` attributes: must be a compile error
    Ambiguous,
}

pub struct Model {
    pub source: Sel,
    pub backtrace: Option<usize>,
    pub bt_ambiguous: bool,
}

/// The documented rules (error.md "When and how does it derive source()/provide()", "Ignoring fields"
/// and the property statement).  Independent of `impl/src/error.rs`: positions are positions among
/// *all* declared fields; `ignore` disqualifies a field as source and as backtrace and changes
/// nothing else.
pub fn model(l: &Layout) -> Model {
    let f = &l.fields;
    let n = f.len();
    let explicit_src: Vec<usize> = (0..n).filter(|&i| f[i].attr.src() == Some(true)).collect();
    let explicit_bt: Vec<usize> = (0..n).filter(|&i| f[i].attr.bt() == Some(true)).collect();
    let inferred_bt: Vec<usize> = (0..n)
        .filter(|&i| f[i].attr.bt().is_none() && f[i].attr != At::Ignore)
        .filter(|&i| if l.named { f[i].name == "backtrace" } else { f[i].cls == Cls::Bt })
        .collect();
    let (mut backtrace, bt_ambiguous) = match explicit_bt.len() {
        0 => match inferred_bt.len() {
            0 => (None, false),
            1 => (Some(inferred_bt[0]), false),
            _ => (None, true),
        },
        1 => (Some(explicit_bt[0]), false),
        _ => (None, true),
    };
    let source = if explicit_src.len() >= 2 {
        Sel::Ambiguous
    } else if l.ignored {
        Sel::NoSource
    } else if explicit_src.len() == 1 {
        Sel::Field(explicit_src[0])
    } else if l.named {
        match f.iter().position(|x| x.name == "source") {
            None => Sel::NoSource,
            Some(c) => {
                if f[c].attr.no_src() {
                    Sel::NoSource
                } else {
                    Sel::Field(c)
                }
            }
        }
    } else {
        match n {
            0 => Sel::NoSource,
            1 => {
                let x = &f[0];
                if x.attr.no_src() {
                    Sel::NoSource
                } else {
                    match x.attr.bt() {
                        // the sole field is explicitly the backtrace: "backtrace taken from the source" is only
                        // documented for a field that is the source by another rule
                        Some(true) => {
                            if x.cls == Cls::Bt {
                                Sel::NoSource
                            } else {
                                Sel::Unspecified
                            }
                        }
                        Some(false) => {
                            if x.cls == Cls::Bt {
                                Sel::Unspecified
                            } else {
                                Sel::Field(0)
                            }
                        }
                        None => {
                            if x.cls == Cls::Bt {
                                Sel::NoSource
                            } else {
                                Sel::Field(0)
                            }
                        }
                    }
                }
            }
            2 => {
                if f.iter().any(|x| x.cls == Cls::Bt && x.attr == At::Ignore) {
                    // `ignore` on the backtrace of a two-field tuple: "ignored for detecting the backtrace"
                    // (then nothing is inferred) vs "ignore never changes which remaining field is returned"
                    Sel::Unspecified
                } else {
                    match backtrace {
                        Some(b) => {
                            let o = 1 - b;
                            if f[o].attr.no_src() {
                                Sel::NoSource
                            } else {
                                Sel::Field(o)
                            }
                        }
                        None => Sel::NoSource,
                    }
                }
            }
            _ => Sel::NoSource,
        }
    };
    if l.ignored {
        backtrace = None;
    }
    Model { source, backtrace, bt_ambiguous }
}

/// Number of fields any reading (documentation or implementation) could take for a backtrace.
fn bt_candidates(l: &Layout) -> usize {
    l.fields
        .iter()
        .filter(|x| {
            x.attr.bt() == Some(true) || (x.attr.bt().is_none() && x.attr != At::Ignore && (x.name == "backtrace" || x.cls == Cls::Bt))
        })
        .count()
}

/// Is the layout inside the input domain of the compiled shards: well-typed under the documented
/// selection, no backtrace ambiguity, and (stable shard) nothing that makes the derive emit `provide()`.
fn valid(l: &Layout, m: &Model, allow_bt: bool) -> bool {
    if m.bt_ambiguous || m.source == Sel::Ambiguous {
        return false;
    }
    let cands = bt_candidates(l);
    if cands > 1 {
        return false;
    }
    if !allow_bt && cands > 0 {
        return false;
    }
    if cands == 1 && m.backtrace.is_none() && !l.ignored {
        // e.g. a named field `x: Backtrace`: the implementation infers it as the backtrace, the documentation does not
        // say so. Which field `source()` returns is decided by rule 1/3 all the same, so the layout is generated where
        // a `provide()` may be emitted (nightly shard) and only its source is judged.
        if !(allow_bt && bt_by_type_only(l)) {
            return false;
        }
    }
    // a near-miss type is neither an error nor a `Backtrace`: it must not be what a rule takes for the backtrace
    if l.fields.iter().any(|x| x.cls == Cls::NearBt && (x.name == "backtrace" || x.attr.bt() == Some(true))) {
        return false;
    }
    match m.source {
        Sel::Field(i) => {
            if l.fields[i].cls != Cls::Err {
                return false;
            }
        }
        Sel::Unspecified => {
            // only the form both readings of which type-check: (error, #[error(ignore)] Backtrace)
            if l.named || l.fields.len() != 2 {
                return false;
            }
            if l.fields.iter().any(|x| matches!(x.cls, Cls::Plain | Cls::NearBt) || x.attr.bt() == Some(true)) {
                return false;
            }
            if l.fields.iter().filter(|x| x.cls == Cls::Bt).count() != 1 {
                return false;
            }
        }
        _ => {}
    }
    if let Some(b) = m.backtrace {
        if m.source != Sel::Field(b) && l.fields[b].cls != Cls::Bt {
            return false;
        }
    }
    true
}

/// A named layout whose only backtrace candidate is a field *typed* `Backtrace` under another name and without a
/// backtrace attribute.
fn bt_by_type_only(l: &Layout) -> bool {
    l.named
        && !l.ignored
        && bt_candidates(l) == 1
        && model(l).backtrace.is_none()
        && l.fields.iter().any(|x| x.cls == Cls::Bt && x.name != "backtrace" && x.attr.bt().is_none() && x.attr != At::Ignore)
}

/// Does the derive (have to) emit `provide()` for the layout?
fn emits_provide(l: &Layout) -> bool {
    !l.ignored && (model(l).backtrace.is_some() || bt_by_type_only(l))
}

/// The recorded defect (selected index is a position among *enabled* fields but is used as a position
/// among *all* fields): position the defect makes an enum variant bind / a bound refer to.
fn shifted(l: &Layout, i: usize) -> usize {
    l.fields[..i].iter().filter(|x| x.attr != At::Ignore).count()
}

/// Layouts on which the same defect makes `infer_source_field` index out of bounds.
fn predicts_panic(l: &Layout) -> bool {
    if l.named || l.ignored || l.fields.len() != 2 {
        return false;
    }
    let f = &l.fields;
    if f.iter().any(|x| x.attr.src() == Some(true)) {
        return false;
    }
    let ign: Vec<usize> = (0..2).filter(|&i| f[i].attr == At::Ignore).collect();
    if ign.len() != 1 {
        return false;
    }
    let o = &f[1 - ign[0]];
    o.attr.bt() == Some(true) || (o.cls == Cls::Bt && o.attr.bt() != Some(false))
}

// ------------------------------------------------------------------------------------------------
// generation

const OTHER: [&str; 3] = ["a", "b", "c"];

fn draw_layout_raw(d: &mut Dice, allow_bt: bool) -> Layout {
    let named = d.chance(50);
    let n = d.weighted(&[1, 4, 6, 5]);
    let mut fields = vec![];
    let mut have_source = false;
    let mut have_bt_name = false;
    for i in 0..n {
        let name = if named {
            if !have_source && d.chance(38) {
                have_source = true;
                "source".to_string()
            } else if !have_bt_name && d.chance(if allow_bt { 25 } else { 4 }) {
                have_bt_name = true;
                "backtrace".to_string()
            } else {
                OTHER[i].to_string()
            }
        } else {
            String::new()
        };
        let b2 = if allow_bt { 2 } else { 0 };
        let b1 = if allow_bt { 1 } else { 0 };
        let attr = [
            At::None,
            At::Ignore,
            At::Source,
            At::NotSource,
            At::NotBacktrace,
            At::Backtrace,
            At::BtSource,
            At::SourceNotBt,
            At::NotSourceNotBt,
            At::NotBoth,
            At::SourceBt,
            At::NotSourceBt,
        ][d.weighted(&[28, 16, 12, 8, 4, 4 * b2, 4 * b1, 3, 2, 2, 3 * b1, 3 * b1])];
        let cls = [Cls::Err, Cls::Plain, Cls::Bt, Cls::NearBt][d.weighted(&[14, 6, if allow_bt { 6 } else { 2 }, if allow_bt { 1 } else { 2 }])];
        fields.push(Fl { name, attr, cls });
    }
    let ignored = d.chance(7);
    Layout { named, fields, ignored }
}

/// Makes the drawn layout well-typed where that is possible without touching names and attributes.
fn repair(l: &mut Layout) {
    for _ in 0..4 {
        let m = model(l);
        let mut changed = false;
        if let Sel::Field(i) = m.source {
            if l.fields[i].cls != Cls::Err {
                l.fields[i].cls = Cls::Err;
                changed = true;
            }
        }
        if !changed {
            if let Some(b) = m.backtrace {
                if m.source != Sel::Field(b) && l.fields[b].cls != Cls::Bt {
                    l.fields[b].cls = Cls::Bt;
                    changed = true;
                }
            }
        }
        if !changed {
            break;
        }
    }
}

/// Draws a layout of the positive domain. `want_bt`: the layout must have a backtrace (nightly shard).
fn draw_layout(d: &mut Dice, allow_bt: bool, want_bt: bool, is_enum: bool, excluded: &mut u64) -> Layout {
    for _ in 0..12 {
        let mut l = if d.chance(13) {
            steer_ignore_before(d, allow_bt)
        } else if d.chance(3) {
            steer_near_miss(d)
        } else {
            draw_layout_raw(d, allow_bt)
        };
        // struct-level `ignore` is only grounded in the repository's tests for structs without field attributes
        if !is_enum && l.ignored && !l.fields.is_empty() && d.chance(60) {
            for f in l.fields.iter_mut() {
                f.attr = At::None;
            }
        }
        if !is_enum && l.ignored && (l.fields.is_empty() || l.fields.iter().any(|f| f.attr != At::None)) {
            l.ignored = false;
        }
        repair(&mut l);
        let m = model(&l);
        if valid(&l, &m, allow_bt) && (!want_bt || emits_provide(&l)) {
            return l;
        }
        *excluded += 1;
    }
    if want_bt {
        Layout {
            named: false,
            fields: vec![Fl { name: String::new(), attr: At::None, cls: Cls::Err }, Fl { name: String::new(), attr: At::None, cls: Cls::Bt }],
            ignored: false,
        }
    } else {
        Layout { named: false, fields: vec![Fl { name: String::new(), attr: At::None, cls: Cls::Err }], ignored: false }
    }
}

/// Steered layouts: an ignored field declared before the field the rules select (the class the
/// property's `why_tests_cant` names).
fn steer_ignore_before(d: &mut Dice, allow_bt: bool) -> Layout {
    let named = d.chance(50);
    let n = d.range(2, 3);
    let sel = d.range(1, n - 1);
    let explicit = !named || d.chance(50);
    let mut fields = vec![];
    let mut have_bt = false;
    for i in 0..n {
        let name = if !named {
            String::new()
        } else if i == sel && !explicit {
            "source".to_string()
        } else {
            OTHER[i].to_string()
        };
        let (attr, cls) = if i == sel {
            (if explicit { At::Source } else { [At::None, At::NotBacktrace][d.weighted(&[5, 1])] }, Cls::Err)
        } else if i < sel && (i == 0 || d.chance(50)) {
            (At::Ignore, [Cls::Err, Cls::Plain][d.weighted(&[6, 1])])
        } else if allow_bt && !have_bt && d.chance(40) {
            have_bt = true;
            (if d.chance(30) { At::Backtrace } else { At::None }, Cls::Bt)
        } else {
            ([At::None, At::Ignore, At::NotSource, At::NotBacktrace][d.weighted(&[4, 2, 2, 1])], [Cls::Err, Cls::Plain][d.weighted(&[3, 2])])
        };
        let name = if cls == Cls::Bt && named { "backtrace".to_string() } else { name };
        fields.push(Fl { name, attr, cls });
    }
    Layout { named, fields, ignored: false }
}

/// Steered layouts: a two-field tuple of an error and a near-miss type (`Option<Backtrace>` ..): nothing is called
/// `Backtrace`, so no backtrace and hence no source is inferred.
fn steer_near_miss(d: &mut Dice) -> Layout {
    let e = Fl { name: String::new(), attr: [At::None, At::NotBacktrace][d.weighted(&[5, 1])], cls: Cls::Err };
    let nb = Fl { name: String::new(), attr: [At::None, At::NotSource, At::NotBacktrace][d.weighted(&[5, 1, 1])], cls: Cls::NearBt };
    let fields = if d.chance(50) { vec![nb, e] } else { vec![e, nb] };
    Layout { named: false, fields, ignored: false }
}

#[derive(Clone, Debug)]
struct FieldTy {
    decl: String,
    val: String,
    /// the error is the boxed value, not the field itself
    boxed_dyn: bool,
    /// a reference to the error: the error is the value referred to
    by_ref: bool,
    /// generic parameters (and requirements on them) the declared type mentions
    gu: GenUse,
}

impl FieldTy {
    fn new(decl: impl Into<String>, val: impl Into<String>) -> FieldTy {
        FieldTy { decl: decl.into(), val: val.into(), boxed_dyn: false, by_ref: false, gu: GenUse::default() }
    }
    fn with(mut self, f: impl FnOnce(&mut GenUse)) -> FieldTy {
        f(&mut self.gu);
        self
    }
}

#[derive(Clone, Copy, Default, Debug)]
struct GenUse {
    e: bool,
    p: bool,
    n: bool,
    a: bool,
    /// `E` is used through its associated type: the declaration needs `E: Tr`
    e_tr: bool,
    /// `E` is used behind `&'static`: the declaration needs `E: 'static`
    e_static: bool,
}

impl GenUse {
    fn or(&mut self, o: GenUse) {
        self.e |= o.e;
        self.p |= o.p;
        self.n |= o.n;
        self.a |= o.a;
        self.e_tr |= o.e_tr;
        self.e_static |= o.e_static;
    }
}

const BOX_DYN: [&str; 5] = [
    "Box<dyn StdError + Send + Sync>",
    "Box<dyn StdError + Send + 'static>",
    "Box<dyn StdError>",
    "Box<dyn StdError + Send + Sync + std::panic::UnwindSafe>",
    "Box<dyn StdError + 'static>",
];

fn field_ty(d: &mut Dice, l: &Layout, m: &Model, vi: usize, j: usize, generic: bool) -> FieldTy {
    let x = &l.fields[j];
    let k = 1 + 4 * vi + j;
    let v = 100 + 10 * vi + j;
    let selected = m.source == Sel::Field(j);
    // `provide()` (emitted when the layout has a backtrace) forwards to the source through `Error::provide`,
    // which a `Box<dyn Error>` does not offer: boxed trait objects only where no backtrace exists
    let no_provide = m.backtrace.is_none() && bt_candidates(l) == 0;
    match x.cls {
        Cls::Err => {
            let g6 = if generic { 6 } else { 0 };
            let w = if selected {
                [6, if no_provide { 3 } else { 0 }, 1, g6, 0, g6]
            } else {
                [6, if no_provide { 1 } else { 0 }, 0, 0, if generic { 2 } else { 0 }, 0]
            };
            match d.weighted(&w) {
                0 => FieldTy::new(format!("Er<{k}>"), format!("Er({v})")),
                1 => {
                    let t = BOX_DYN[d.weighted(&[3, 3, 3, 2, 2])];
                    let mut f = FieldTy::new(t, format!("Box::new(Er::<{}>({v}))", 60 + k));
                    f.boxed_dyn = true;
                    f
                }
                2 => FieldTy::new(format!("Box<Er<{k}>>"), format!("Box::new(Er({v}))")),
                3 => FieldTy::new("E", format!("Er({v})")).with(|g| g.e = true),
                4 => FieldTy::new("Er<N>", format!("Er({v})")).with(|g| g.n = true),
                // the selected source *contains* the type parameter: the `Error` bound has to be put on the right type
                _ => match d.pick(7) {
                    5 => FieldTy::new("Wrap2<E, u8>", format!("Wrap2(Er({v}), 7u8)")).with(|g| g.e = true),
                    6 => FieldTy::new("Wrap2<u8, E>", format!("Wrap2(7u8, Er({v}))")).with(|g| g.e = true),
                    0 => FieldTy::new("Box<E>", format!("Box::new(Er({v}))")).with(|g| g.e = true),
                    1 => FieldTy::new("Wrap<E>", format!("Wrap(Er({v}), {v})")).with(|g| g.e = true),
                    2 => FieldTy::new("E::Err", format!("Er({v})")).with(|g| {
                        g.e = true;
                        g.e_tr = true
                    }),
                    3 => FieldTy::new("<E as Tr>::Err", format!("Er({v})")).with(|g| {
                        g.e = true;
                        g.e_tr = true
                    }),
                    _ => {
                        let mut f = FieldTy::new("&'static E", format!("&Er({v})")).with(|g| {
                            g.e = true;
                            g.e_static = true
                        });
                        f.by_ref = true;
                        f
                    }
                },
            }
        }
        Cls::Bt => FieldTy::new(if d.chance(30) { "std::backtrace::Backtrace" } else { "Backtrace" }, "Backtrace::disabled()"),
        Cls::NearBt => match d.pick(4) {
            0 => FieldTy::new("Option<Backtrace>", "Some(Backtrace::disabled())"),
            1 => FieldTy::new("Box<Backtrace>", "Box::new(Backtrace::disabled())"),
            2 => FieldTy::new("MyBacktrace", format!("MyBacktrace({v})")),
            _ => FieldTy::new("Option<std::backtrace::Backtrace>", "None"),
        },
        Cls::Plain => match d.weighted(&[4, 2, 1, if generic { 4 } else { 0 }, if generic { 1 } else { 0 }]) {
            0 => FieldTy::new("u64", format!("{v}u64")),
            1 => FieldTy::new("NotErr", format!("NotErr({v})")),
            2 => FieldTy::new("String", format!("String::from(\"s{v}\")")),
            3 => FieldTy::new("P", format!("NotErr({v})")).with(|g| g.p = true),
            _ => FieldTy::new("&'a u64", "&77u64").with(|g| g.a = true),
        },
    }
}

#[derive(Clone)]
struct Variant {
    name: String,
    layout: Layout,
    tys: Vec<FieldTy>,
    /// brace / paren / bare form of a field-less variant or struct
    unit_form: usize,
}

fn render_fields(v: &Variant, with_attrs: bool) -> String {
    let l = &v.layout;
    if l.fields.is_empty() {
        return ["", " {}", "()"][v.unit_form].to_string();
    }
    let parts: Vec<String> = l
        .fields
        .iter()
        .zip(&v.tys)
        .map(|(f, t)| {
            let a = match (with_attrs, f.attr.text()) {
                (true, Some(a)) => format!("#[error({a})] "),
                _ => String::new(),
            };
            if l.named {
                format!("{a}{}: {}", f.name, t.decl)
            } else {
                format!("{a}{}", t.decl)
            }
        })
        .collect();
    if l.named {
        format!(" {{ {} }}", parts.join(", "))
    } else {
        format!("({})", parts.join(", "))
    }
}

fn render_ctor(v: &Variant) -> String {
    let l = &v.layout;
    if l.fields.is_empty() {
        return ["", " {}", "()"][v.unit_form].to_string();
    }
    if l.named {
        format!(" {{ {} }}", l.fields.iter().zip(&v.tys).map(|(f, t)| format!("{}: {}", f.name, t.val)).collect::<Vec<_>>().join(", "))
    } else {
        format!("({})", v.tys.iter().map(|t| t.val.clone()).collect::<Vec<_>>().join(", "))
    }
}

fn render_pat(v: &Variant) -> String {
    let l = &v.layout;
    if l.fields.is_empty() {
        return ["", " {}", "()"][v.unit_form].to_string();
    }
    if l.named {
        format!(" {{ {} }}", l.fields.iter().enumerate().map(|(j, f)| format!("{}: f{j}", f.name)).collect::<Vec<_>>().join(", "))
    } else {
        format!("({})", (0..l.fields.len()).map(|j| format!("f{j}")).collect::<Vec<_>>().join(", "))
    }
}

fn sel_text(s: Sel) -> String {
    match s {
        Sel::Field(i) => format!("Some(field {i})"),
        Sel::NoSource => "None".into(),
        Sel::Unspecified => "<unspecified>".into(),
        Sel::Ambiguous => "<compile error>".into(),
    }
}

struct TypeDef {
    /// type name (`Z`, `Z0` for the metamorphic twin)
    name: String,
    is_enum: bool,
    struct_ignored: bool,
    variants: Vec<Variant>,
}

/// (declaration generics, impl/type arguments, instantiation arguments, where-clause of the declaration)
type Gens = (String, String, String, String);

/// `style`: 0 = requirements as inline bounds, no extras; 1 = inline plus an extra inline bound (`E: Send`, `P: Clone`);
/// 2 = everything in a where-clause; 3 = required bounds inline, the extras in a where-clause
fn generics_text(gu: GenUse, order: usize, style: usize) -> Gens {
    let mut decl = vec![];
    let mut args = vec![];
    let mut inst = vec![];
    let mut wh: Vec<String> = vec![];
    if gu.a {
        decl.push("'a".to_string());
        args.push("'a".to_string());
        inst.push("'static".to_string());
    }
    let mut rest: Vec<(String, &str, &str)> = vec![];
    let mut param = |name: &str, required: Vec<&str>, extra: &str, wh: &mut Vec<String>| -> String {
        let mut inline: Vec<&str> = vec![];
        let mut clause: Vec<&str> = vec![];
        match style {
            0 => inline.extend(required),
            1 => {
                inline.extend(required);
                inline.push(extra);
            }
            2 => {
                clause.extend(required);
                clause.push(extra);
            }
            _ => {
                inline.extend(required);
                clause.push(extra);
            }
        }
        if !clause.is_empty() {
            wh.push(format!("{name}: {}", clause.join(" + ")));
        }
        if inline.is_empty() {
            name.to_string()
        } else {
            format!("{name}: {}", inline.join(" + "))
        }
    };
    if gu.e {
        let mut req = vec![];
        if gu.e_tr {
            req.push("Tr");
        }
        if gu.e_static {
            req.push("'static");
        }
        rest.push((param("E", req, "Send", &mut wh), "E", "Er<40>"));
    }
    if gu.p {
        rest.push((param("P", vec![], "Clone", &mut wh), "P", "NotErr"));
    }
    if gu.n {
        rest.push(("const N: usize".to_string(), "N", "41"));
    }
    // deterministic rotation / reversal of the declaration order (consts before types is legal)
    if !rest.is_empty() {
        let k = order % rest.len();
        rest.rotate_left(k);
        if (order / 3) % 2 == 1 {
            rest.reverse();
        }
    }
    for (dcl, a, i) in rest {
        decl.push(dcl);
        args.push(a.to_string());
        inst.push(i.to_string());
    }
    if decl.is_empty() {
        (String::new(), String::new(), String::new(), String::new())
    } else {
        let wh = if wh.is_empty() { String::new() } else { format!(" where {}", wh.join(", ")) };
        (format!("<{}>", decl.join(", ")), format!("<{}>", args.join(", ")), format!("<{}>", inst.join(", ")), wh)
    }
}

fn render_type(t: &TypeDef, gens: &Gens, with_derive: bool) -> String {
    let (gd, ga, _, wh) = gens;
    let mut s = String::new();
    if with_derive {
        s.push_str("#[derive(Debug, derive_more::Error)]\n");
    } else {
        s.push_str("#[derive(Debug)]\n");
    }
    let name = &t.name;
    if t.is_enum {
        s.push_str(&format!("pub enum {name}{gd}{wh} {{\n"));
        for v in &t.variants {
            if with_derive && v.layout.ignored {
                s.push_str("    #[error(ignore)]\n");
            }
            s.push_str(&format!("    {}{},\n", v.name, render_fields(v, with_derive)));
        }
        s.push_str("}\n");
    } else {
        let v = &t.variants[0];
        if with_derive && t.struct_ignored {
            s.push_str("#[error(ignore)]\n");
        }
        let body = render_fields(v, with_derive);
        if v.layout.named && !v.layout.fields.is_empty() || body == " {}" {
            s.push_str(&format!("pub struct {name}{gd}{wh}{body}\n"));
        } else {
            s.push_str(&format!("pub struct {name}{gd}{body}{wh};\n"));
        }
    }
    s.push_str(&format!(
        "impl{gd} std::fmt::Display for {name}{ga}{wh} {{ fn fmt(&self, f: &mut std::fmt::Formatter<'_>) -> std::fmt::Result {{ f.write_str(\"{name}\") }} }}\n"
    ));
    s
}

/// Block computing `w_<tag>`: which field `source()` returned for the value of variant `v`.
fn render_probe(t: &TypeDef, v: &Variant, inst: &str, tag: &str) -> String {
    let name = &t.name;
    let path = if t.is_enum { format!("{name}::{}", v.name) } else { name.clone() };
    let addrs: Vec<String> = v
        .tys
        .iter()
        .enumerate()
        .map(|(j, ty)| {
            if ty.boxed_dyn {
                format!("(\"field {j}\", ad(&**f{j})), (\"the Box of field {j} instead of the error it holds\", ad(f{j}))")
            } else if ty.by_ref {
                // a reference to an error: the error is the value referred to (the reference itself is accepted too)
                format!("(\"field {j}\", ad(*f{j})), (\"field {j}\", ad(f{j}))")
            } else if ty.decl.starts_with("Box<") {
                format!("(\"field {j}\", ad(f{j})), (\"the value inside the Box of field {j}\", ad(&**f{j}))")
            } else {
                format!("(\"field {j}\", ad(f{j}))")
            }
        })
        .collect();
    format!(
        "    let w_{tag} = {{\n        let v: {name}{inst} = {path}{ctor};\n        let got = dp(StdError::source(&v));\n        match &v {{\n            {path}{pat} => which(got, &[{addrs}]),\n            #[allow(unreachable_patterns)]\n            _ => String::from(\"<wrong variant>\"),\n        }}\n    }};\n",
        ctor = render_ctor(v),
        pat = render_pat(v),
        addrs = addrs.join(", "),
    )
}

pub const PRELUDE: &str = r#"
pub use std::error::Error as StdError;
pub use std::backtrace::Backtrace;
/// distinct, non-zero-sized error types
pub struct Er<const K: usize>(pub u64);
impl<const K: usize> std::fmt::Debug for Er<K> { fn fmt(&self, f: &mut std::fmt::Formatter<'_>) -> std::fmt::Result { write!(f, "Er<{}>({})", K, self.0) } }
impl<const K: usize> std::fmt::Display for Er<K> { fn fmt(&self, f: &mut std::fmt::Formatter<'_>) -> std::fmt::Result { write!(f, "Er<{}>({})", K, self.0) } }
impl<const K: usize> StdError for Er<K> {}
/// implements Debug only: instantiates parameters that must not receive an `Error` bound
#[derive(Debug, Clone)]
pub struct NotErr(pub u64);
/// an error type generic over another one (non-zero-sized; the inner value is not at a distinguished place)
#[derive(Debug)]
pub struct Wrap<T>(pub T, pub u64);
impl<T> std::fmt::Display for Wrap<T> { fn fmt(&self, f: &mut std::fmt::Formatter<'_>) -> std::fmt::Result { write!(f, "Wrap({})", self.1) } }
impl<T: std::fmt::Debug> StdError for Wrap<T> {}
/// two type arguments, only one of them the parameter
#[derive(Debug)]
pub struct Wrap2<T, U>(pub T, pub U);
impl<T, U> std::fmt::Display for Wrap2<T, U> { fn fmt(&self, f: &mut std::fmt::Formatter<'_>) -> std::fmt::Result { write!(f, "Wrap2") } }
impl<T: std::fmt::Debug, U: std::fmt::Debug> StdError for Wrap2<T, U> {}
/// a trait whose associated type is the error
pub trait Tr { type Err: std::fmt::Debug; }
impl<const K: usize> Tr for Er<K> { type Err = Er<K>; }
/// resembles, but is not called, `Backtrace`
#[derive(Debug)]
pub struct MyBacktrace(pub u64);
pub fn dp(e: Option<&(dyn StdError + 'static)>) -> Option<usize> { e.map(|r| r as *const dyn StdError as *const () as usize) }
pub fn ad<T: ?Sized>(r: &T) -> usize { r as *const T as *const () as usize }
pub fn which(got: Option<usize>, addrs: &[(&str, usize)]) -> String {
    match got {
        None => "None".to_string(),
        Some(p) => match addrs.iter().find(|(_, a)| *a == p) {
            Some((tag, _)) => format!("Some({tag})"),
            None => "Some(<an address that is no field of the value>)".to_string(),
        },
    }
}
"#;

fn layout_labels(l: &Layout, m: &Model, is_enum: bool, labels: &mut Vec<String>) {
    let mut push = |s: String| {
        if !labels.contains(&s) {
            labels.push(s)
        }
    };
    push(format!("fields={}", l.fields.len()));
    push(if l.named { "named".into() } else { "tuple".into() });
    for f in &l.fields {
        push(format!("attr={}", f.attr.label()));
        if f.name == "source" {
            push("name=source".into());
        }
        if f.name == "backtrace" {
            push("name=backtrace".into());
        }
        if f.cls == Cls::Bt {
            push("type=Backtrace".into());
        }
        if f.cls == Cls::NearBt {
            push("type=near_miss_Backtrace".into());
        }
        if f.attr.is_combo() {
            push("attr_combo".into());
            if f.attr != At::BtSource {
                push("attr_combo_new".into());
            }
        }
    }
    if bt_by_type_only(l) {
        push("named_backtrace_by_type_only".into());
    }
    if !l.named && l.fields.len() == 2 && m.backtrace.is_none() && l.fields.iter().any(|x| x.cls == Cls::NearBt) && l.fields.iter().any(|x| x.cls == Cls::Err && !x.attr.no_src() && x.attr.src().is_none()) {
        // (error, Option<Backtrace>): loosening the "called `Backtrace`" test would infer a source here
        push("two_tuple_near_miss_no_inference".into());
    }
    if l.ignored {
        push(if is_enum { "variant_ignored".into() } else { "struct_ignored".into() });
    }
    match m.source {
        Sel::Field(i) => {
            push("expect=some".into());
            let f = &l.fields[i];
            if f.attr.src() == Some(true) {
                push("selected_by=attribute".into());
                if l.fields.iter().any(|x| x.name == "source" && x.attr.src() != Some(true)) {
                    push("explicit_overrides_name".into());
                }
            } else if l.named {
                push("selected_by=name".into());
            } else if l.fields.len() == 1 {
                push("selected_by=sole_tuple_field".into());
            } else {
                push("selected_by=two_tuple_other_is_backtrace".into());
            }
            if l.fields[..i].iter().any(|x| x.attr == At::Ignore) {
                push("ignored_before_selected".into());
                if is_enum {
                    push("enum_ignored_before_selected".into());
                }
            }
            if l.fields.iter().enumerate().any(|(j, x)| j != i && x.attr == At::Ignore) {
                push("ignore_on_other_field".into());
            }
            if m.backtrace == Some(i) {
                push("backtrace_from_source".into());
            }
        }
        Sel::NoSource => {
            push("expect=none".into());
            if l.fields.iter().any(|x| x.name == "source" && x.attr.no_src())
                || (!l.named && l.fields.len() == 1 && l.fields[0].attr.no_src())
                || (!l.named && l.fields.len() == 2 && m.backtrace.is_some())
            {
                push("candidate_disqualified".into());
            }
        }
        Sel::Unspecified => push("expect=unspecified".into()),
        Sel::Ambiguous => push("expect=compile_error".into()),
    }
    if m.backtrace.is_some() {
        push("has_backtrace".into());
    }
    if emits_provide(l) {
        push("provide_emitted".into());
    }
}

fn build_with(d: &mut Dice, nightly: bool) -> GenCase {
    let allow_bt = nightly;
    let mut excluded = 0u64;
    let is_enum = d.chance(55);
    let negative = d.chance(6);
    let generic = d.chance(35);
    let nv = if is_enum { d.range(1, 3) } else { 1 };
    let mut gu = GenUse::default();
    let mut variants = vec![];
    let vnames = ["V0", "V1", "V2"];
    let bt_slot = if nightly { d.pick(nv) } else { usize::MAX };
    for vi in 0..nv {
        let layout = draw_layout(d, allow_bt, vi == bt_slot, is_enum, &mut excluded);
        let m = model(&layout);
        let tys: Vec<FieldTy> = (0..layout.fields.len()).map(|j| field_ty(d, &layout, &m, vi, j, generic)).collect();
        for t in &tys {
            gu.or(t.gu);
        }
        variants.push(Variant { name: vnames[vi].to_string(), layout, tys, unit_form: d.pick(3) });
    }
    let order = d.pick(6);
    let gstyle = d.weighted(&[5, 2, 2, 2]);
    let gens = generics_text(gu, order, gstyle);
    let mut labels: Vec<String> = vec![if is_enum { "kind=enum".into() } else { "kind=struct".into() }];
    if nightly {
        labels.push("nightly_shard".into());
    }
    if !gens.0.is_empty() {
        labels.push("generic".into());
        if gu.e {
            labels.push("generic_source_type".into());
        }
        if gu.p {
            labels.push("generic_non_source_param".into());
        }
        if gu.n {
            labels.push("const_generic".into());
        }
        if gu.a {
            labels.push("lifetime_generic".into());
        }
        if variants.iter().any(|v| v.tys.iter().any(|t| matches!(t.decl.as_str(), "Box<E>" | "Wrap<E>" | "Wrap2<E, u8>" | "Wrap2<u8, E>" | "E::Err" | "<E as Tr>::Err" | "&'static E"))) {
            labels.push("generic_source_type_composite".into());
        }
        for v in &variants {
            for t in &v.tys {
                match t.decl.as_str() {
                    "&'static E" => labels.push("generic_source_behind_reference".into()),
                    "E::Err" | "<E as Tr>::Err" => labels.push("generic_source_assoc_type".into()),
                    "Box<E>" | "Wrap<E>" | "Wrap2<E, u8>" | "Wrap2<u8, E>" => labels.push("generic_source_in_path_args".into()),
                    _ => {}
                }
            }
        }
        if !gens.3.is_empty() {
            labels.push("generic_where_clause".into());
        }
        if gens.0.contains("E: ") || gens.0.contains("P: ") {
            labels.push("generic_inline_bound".into());
        }
    }
    if variants.iter().any(|v| v.tys.iter().any(|t| t.boxed_dyn)) {
        labels.push("boxed_dyn_error".into());
        if variants.iter().any(|v| v.tys.iter().any(|t| t.boxed_dyn && (t.decl.contains("UnwindSafe") || t.decl == "Box<dyn StdError + 'static>"))) {
            labels.push("boxed_dyn_unwindsafe_or_static".into());
        }
    }

    if negative {
        // ambiguous selection: a second explicit `source` in one variant/struct: must be a compile error
        let vi = d.pick(nv);
        let v = &mut variants[vi];
        v.layout.ignored = false;
        while v.layout.fields.len() < 2 {
            let j = v.layout.fields.len();
            let name = if v.layout.named { OTHER[j].to_string() } else { String::new() };
            v.layout.fields.push(Fl { name, attr: At::None, cls: Cls::Err });
            v.tys.push(FieldTy::new(format!("Er<{}>", 20 + j), ""));
        }
        let n = v.layout.fields.len();
        let a = d.pick(n);
        let mut b = d.pick(n - 1);
        if b >= a {
            b += 1;
        }
        for j in [a, b] {
            v.layout.fields[j].attr = At::Source;
            v.layout.fields[j].cls = Cls::Err;
            if v.tys[j].decl.contains("Backtrace") || ["u64", "NotErr", "String", "P", "&'a u64"].contains(&v.tys[j].decl.as_str()) {
                v.tys[j] = FieldTy::new(format!("Er<{}>", 30 + j), "");
            }
        }
        // other explicit sources stay: still ambiguous; a stray backtrace attribute on a non-backtrace type would be
        // rejected by rustc for another reason: neutralise
        for (j, f) in v.layout.fields.iter_mut().enumerate() {
            if j != a && j != b && f.attr.bt() == Some(true) {
                f.attr = At::None;
            }
        }
        // the ambiguous variant alone (the in-process confirmation must not trip over another variant)
        let iso = TypeDef { name: "Z".into(), is_enum, struct_ignored: false, variants: vec![variants[vi].clone()] };
        let t = TypeDef { name: "Z".into(), is_enum, struct_ignored: false, variants };
        // generics may have lost their only use: recompute from the declared field types
        let mut gu2 = GenUse::default();
        for v in &t.variants {
            for ty in &v.tys {
                gu2.or(ty.gu);
            }
        }
        let gens = generics_text(gu2, order, gstyle);
        let body = render_type(&t, &gens, true);
        let item = render_item_only(&iso, &Gens::default());
        let mut c = GenCase::new(body);
        c.expect_compile = false;
        c.runnable = false;
        labels.push("negative_two_explicit_sources".into());
        labels.push("expect=compile_error".into());
        c.labels = labels;
        c.nontrivial = true;
        c.meta = json!({"nightly": nightly, "negative": true, "item": item, "excluded_draws": excluded});
        return c;
    }

    let struct_ignored = !is_enum && variants[0].layout.ignored;
    let t = TypeDef { name: "Z".into(), is_enum, struct_ignored, variants };

    // metamorphic twin: the same type with one `ignore` removed from a field that is neither the candidate nor
    // the backtrace: the answer must not change
    let mut twin: Option<(TypeDef, usize, usize)> = None;
    {
        let mut cands = vec![];
        for (vi, v) in t.variants.iter().enumerate() {
            if v.layout.ignored {
                continue;
            }
            for (j, f) in v.layout.fields.iter().enumerate() {
                if f.attr != At::Ignore {
                    continue;
                }
                let mut l2 = v.layout.clone();
                l2.fields[j].attr = At::None;
                let m2 = model(&l2);
                if !valid(&l2, &m2, allow_bt) || m2.source == Sel::Field(j) || m2.backtrace == Some(j) || m2.source == Sel::Unspecified {
                    continue;
                }
                if model(&v.layout).source == Sel::Unspecified {
                    continue;
                }
                // the field types were chosen for the layout as drawn (boxed trait objects only without `provide()`)
                if emits_provide(&l2) != emits_provide(&v.layout) || bt_candidates(&l2) != bt_candidates(&v.layout) {
                    continue;
                }
                cands.push((vi, j));
            }
        }
        if !cands.is_empty() && d.chance(70) {
            let (vi, j) = cands[d.pick(cands.len())];
            let mut vs = vec![];
            for (k, v) in t.variants.iter().enumerate() {
                let mut l = v.layout.clone();
                if k == vi {
                    l.fields[j].attr = At::None;
                }
                vs.push(Variant { name: v.name.clone(), layout: l, tys: v.tys.clone(), unit_form: v.unit_form });
            }
            twin = Some((TypeDef { name: "Z0".into(), is_enum, struct_ignored, variants: vs }, vi, j));
        }
    }

    let mut body = render_type(&t, &gens, true);
    let mut control = render_type(&t, &gens, false);
    if let Some((t0, _, _)) = &twin {
        body.push_str(&render_type(t0, &gens, true));
        control.push_str(&render_type(t0, &gens, false));
    }
    body.push_str("pub fn run(o: &mut Out) {\n");
    let mut meta_layouts = vec![];
    let mut nontrivial = false;
    let mut shift_compile = false;
    let mut shift_backtrace = false;
    let mut panic_any = false;
    let mut add_layout = |t: &TypeDef, v: &Variant, tag: &str, body: &mut String, labels: &mut Vec<String>, count_labels: bool| {
        let m = model(&v.layout);
        if count_labels {
            layout_labels(&v.layout, &m, t.is_enum, labels);
        }
        body.push_str(&render_probe(t, v, &gens.2, tag));
        let what = format!("source() of {}{}", t.name, if t.is_enum { format!("::{}", v.name) } else { String::new() });
        let expected = sel_text(m.source);
        if m.source == Sel::Unspecified {
            body.push_str(&format!("    o.put({what:?}, &w_{tag});\n"));
        } else {
            body.push_str(&format!("    o.eq({what:?}, {expected:?}, &w_{tag});\n"));
        }
        let mut pred = expected.clone();
        if let Sel::Field(i) = m.source {
            let p = shifted(&v.layout, i);
            if p != i {
                let tsel = &v.tys[i].decl;
                let tp = &v.tys[p].decl;
                let tp_generic = tp == "P" || tp == "E";
                if t.is_enum {
                    pred = format!("Some(field {p})");
                    if v.layout.fields[p].cls != Cls::Err {
                        shift_compile = true;
                    }
                } else if tsel == "E" || tp_generic {
                    shift_compile = true;
                }
                let _ = tsel;
            }
        }
        if predicts_panic(&v.layout) {
            panic_any = true;
        }
        if let (true, Some(b)) = (t.is_enum, m.backtrace) {
            // same defect, backtrace index: the variant pattern binds field `shifted(b)` as the backtrace
            let p = shifted(&v.layout, b);
            if p != b && m.source != Sel::Field(b) && v.layout.fields[p].cls != Cls::Bt {
                shift_backtrace = true;
            }
        }
        if v.layout.fields.len() >= 2 && v.layout.fields.iter().any(|f| f.attr != At::None) {
            nontrivial = true;
        }
        meta_layouts.push(json!({"what": what, "expected": expected, "defect_predicts": pred, "tag": tag}));
    };
    for (vi, v) in t.variants.iter().enumerate() {
        add_layout(&t, v, &format!("z{vi}"), &mut body, &mut labels, true);
    }
    if let Some((t0, tvi, _)) = &twin {
        labels.push("metamorphic_ignore_pair".into());
        for (vi, v) in t0.variants.iter().enumerate() {
            if vi == *tvi {
                add_layout(t0, v, &format!("t{vi}"), &mut body, &mut labels, false);
                let what = format!("ignore-invariance of {}", if is_enum { format!("Z::{}", v.name) } else { "Z".to_string() });
                body.push_str(&format!("    o.eq({what:?}, &w_t{vi}, &w_z{vi});\n"));
            }
        }
    }
    body.push_str("}\n");
    let mut c = GenCase::new(body);
    c.control = Some(control);
    c.labels = labels;
    c.nontrivial = nontrivial;
    c.meta = json!({
        "nightly": nightly,
        "layouts": meta_layouts,
        "shift_compile": shift_compile,
        "shift_backtrace": shift_backtrace,
        "panic": panic_any,
        "excluded_draws": excluded,
    });
    c
}

/// The bare item (attributes kept, std derive dropped) for the in-process confirmation of negative cases.
fn render_item_only(t: &TypeDef, gens: &Gens) -> String {
    let full = render_type(t, gens, true);
    let item: Vec<&str> = full.lines().filter(|l| !l.starts_with("#[derive(") && !l.starts_with("impl")).collect();
    item.join("\n")
}

fn build_stable(d: &mut Dice) -> GenCase {
    build_with(d, false)
}
fn build_nightly(d: &mut Dice) -> GenCase {
    build_with(d, true)
}

// ------------------------------------------------------------------------------------------------
// fixed cases: the layouts named in the documentation, the statement and DESIGN.md

fn fixed_case(body_items: &str, checks: &[(&str, &str, &str, &str)], labels: &[&str], nightly: bool, shift_compile: bool, panic: bool) -> GenCase {
    // checks: (what, constructor expr, pattern => address list expr, expected)
    let mut body = String::from(body_items);
    body.push_str("pub fn run(o: &mut Out) {\n");
    let mut metas = vec![];
    for (k, (what, ctor, arm, expected)) in checks.iter().enumerate() {
        body.push_str(&format!(
            "    let w{k} = {{ let v = {ctor}; let got = dp(StdError::source(&v)); match &v {{ {arm}, #[allow(unreachable_patterns)] _ => String::from(\"<wrong variant>\") }} }};\n    o.eq({what:?}, {expected:?}, &w{k});\n"
        ));
        metas.push(json!({"what": what, "expected": expected, "defect_predicts": expected, "tag": format!("w{k}")}));
    }
    body.push_str("}\n");
    let mut c = GenCase::new(body);
    c.labels = labels.iter().map(|s| s.to_string()).collect();
    c.labels.push("fixed_case".into());
    c.meta = json!({"nightly": nightly, "layouts": metas, "shift_compile": shift_compile, "panic": panic});
    c
}

const DISP: &str = "impl std::fmt::Display for Z { fn fmt(&self, f: &mut std::fmt::Formatter<'_>) -> std::fmt::Result { f.write_str(\"Z\") } }\n";

fn fixed_stable() -> Vec<GenCase> {
    let mut v = vec![];
    // error.md examples
    v.push(fixed_case(
        &format!("#[derive(Debug, derive_more::Error)]\npub struct Z {{ source: Er<1> }}\n{DISP}"),
        &[("source() of Z", "Z { source: Er(1) }", "Z { source: f0 } => which(got, &[(\"field 0\", ad(f0))])", "Some(field 0)")],
        &["doc_example"],
        false,
        false,
        false,
    ));
    v.push(fixed_case(
        &format!("#[derive(Debug, derive_more::Error)]\npub struct Z(#[error(not(source))] u64);\n{DISP}"),
        &[("source() of Z", "Z(1)", "Z(f0) => which(got, &[(\"field 0\", ad(f0))])", "None")],
        &["doc_example"],
        false,
        false,
        false,
    ));
    // DESIGN.md section 6 #8 (the statement's why_tests_cant example), in the form where the wrong field is an error too
    let mut c = fixed_case(
        &format!("#[derive(Debug, derive_more::Error)]\npub enum Z {{ V {{ #[error(ignore)] a: Er<1>, source: Er<2> }} }}\n{DISP}"),
        &[("source() of Z::V", "Z::V { a: Er(1), source: Er(2) }", "Z::V { a: f0, source: f1 } => which(got, &[(\"field 0\", ad(f0)), (\"field 1\", ad(f1))])", "Some(field 1)")],
        &["enum_ignored_before_selected", "ignored_before_selected"],
        false,
        false,
        false,
    );
    c.meta["layouts"][0]["defect_predicts"] = json!("Some(field 0)");
    v.push(c);
    v
}

fn fixed_nightly() -> Vec<GenCase> {
    let mut v = vec![];
    v.push(fixed_case(
        &format!("#[derive(Debug, derive_more::Error)]\npub struct Z(Er<1>, Backtrace);\n{DISP}"),
        &[("source() of Z", "Z(Er(1), Backtrace::disabled())", "Z(f0, f1) => which(got, &[(\"field 0\", ad(f0)), (\"field 1\", ad(f1))])", "Some(field 0)")],
        &["two_tuple"],
        true,
        false,
        false,
    ));
    // DESIGN.md section 6 #9
    v.push(fixed_case(
        &format!("#[derive(Debug, derive_more::Error)]\npub struct Z(#[error(ignore)] u64, Backtrace);\n{DISP}"),
        &[("source() of Z", "Z(1, Backtrace::disabled())", "Z(f0, f1) => which(got, &[(\"field 0\", ad(f0)), (\"field 1\", ad(f1))])", "None")],
        &["two_tuple", "candidate_disqualified"],
        true,
        false,
        true,
    ));
    v
}

// ------------------------------------------------------------------------------------------------
// defect models

fn classify(c: &GenCase, r: &CaseResult, f: &Finding) -> Option<String> {
    if !c.expect_compile {
        return None;
    }
    if !r.compiled {
        if r.errors.is_empty() {
            return None;
        }
        // "something is not an Error": the direct consequence of binding / bounding the wrong field, and the
        // follow-up of an impl that was not generated
        let not_error = |d: &super::proggen::Diag| {
            matches!(d.code.as_deref(), Some("E0599") | Some("E0277")) && (d.message.contains("as_dyn_error") || d.message.contains("Error"))
        };
        let is_panic = |d: &super::proggen::Diag| d.message.contains("proc-macro derive panicked") && d.rendered.contains("index out of bounds");
        if c.meta["panic"].as_bool() == Some(true) && r.errors.iter().any(is_panic) && r.errors.iter().all(|d| is_panic(d) || not_error(d)) {
            return Some(SIG_PANIC.into());
        }
        // the wrong field bound as the backtrace: `provide_ref::<Backtrace>(&<not a Backtrace>)`
        let bt_mismatch = |d: &super::proggen::Diag| {
            c.meta["shift_backtrace"].as_bool() == Some(true) && d.code.as_deref() == Some("E0308") && d.rendered.contains("Backtrace")
        };
        if (c.meta["shift_compile"].as_bool() == Some(true) || c.meta["shift_backtrace"].as_bool() == Some(true))
            && r.errors.iter().all(|d| (c.meta["shift_compile"].as_bool() == Some(true) && not_error(d)) || bt_mismatch(d))
        {
            return Some(SIG_SHIFT.into());
        }
        return None;
    }
    let what = f.summary.strip_prefix("run-time oracle failed: ")?;
    let layouts = c.meta["layouts"].as_array()?;
    let find = |w: &str| layouts.iter().find(|l| l["what"].as_str() == Some(w));
    if let Some(rest) = what.strip_prefix("ignore-invariance of ") {
        // expected = what the twin returned, observed = what the type with the extra `ignore` returned
        let z = find(&format!("source() of {rest}"))?;
        let z0 = find(&format!("source() of {}", rest.replacen('Z', "Z0", 1)))?;
        let pz = z["defect_predicts"].as_str()?;
        let pz0 = z0["defect_predicts"].as_str()?;
        if f.observed == pz && f.expected == pz0 && (pz != z["expected"].as_str()? || pz0 != z0["expected"].as_str()?) {
            return Some(SIG_SHIFT.into());
        }
        return None;
    }
    let l = find(what)?;
    let pred = l["defect_predicts"].as_str()?;
    let exp = l["expected"].as_str()?;
    if pred != exp && f.observed == pred && f.expected == exp {
        return Some(SIG_SHIFT.into());
    }
    None
}

// ------------------------------------------------------------------------------------------------
// properties

const RULE: &str = "structs and enums (1..3 variants) whose variants/bodies are field layouts: 0..3 named or positional fields x attribute in {none, source, not(source), backtrace, not(backtrace), ignore, (backtrace, source), (source, backtrace), (source, not(backtrace)), (not(source), backtrace), (not(source), not(backtrace)), not(source, backtrace)} x name in {source, backtrace, other} x type in {distinct error types Er<K>, Box<dyn Error (+Send(+Sync(+UnwindSafe)) | +'static)>, Box<Er<K>>, type parameter E and types containing it (Box<E>, Wrap<E>, Wrap2<E, u8>, Wrap2<u8, E>, E::Err, <E as Tr>::Err, &'static E), const-generic Er<N>, Backtrace, near-miss types that are not called Backtrace (Option<Backtrace>, Box<Backtrace>, MyBacktrace), non-error types incl. a type parameter instantiated with a non-Error type}, variant-/struct-level ignore, generic (type, const, lifetime parameters in varying order, with inline bounds and/or a where-clause) and concrete; named layouts with a Backtrace-typed field under another name (nightly shard, source judged only); oracle: three-valued model (Some(i)/None/unspecified) of impl/doc/error.md and the statement vs. the data pointer of source()'s &dyn Error compared with the address of every field (boxed dyn: the boxed value); metamorphic twin without one non-candidate `ignore`; negative cases with two explicit sources must not compile; non-trivial = a layout with >= 2 fields and >= 1 attribute; distinct by program text";

fn assumptions() -> Vec<String> {
    vec![
        "distinct non-zero-sized fields of one value have distinct addresses; a boxed value's address differs from every field address".into(),
        "layouts the documentation leaves open (ignore on the backtrace of a two-field tuple) are compiled and counted (expect=unspecified) but their answer is not checked; a sole tuple field that is explicitly marked backtrace or a not(backtrace) Backtrace is not generated".into(),
        "at most one field per layout can be taken for a backtrace (no backtrace ambiguity), and a field that is the backtrace is typed Backtrace unless it is also the source".into(),
    ]
}

pub fn prop() -> DiceProp {
    DiceProp {
        crate_name: "gen_c09",
        prelude: PRELUDE.to_string(),
        crate_attrs: String::new(),
        nightly: false,
        check_only: false,
        ndice: 200,
        quick: (3000, 1),
        thorough: (5000, 4),
        build: build_stable,
        fixed: fixed_stable,
        classify,
        rule: RULE.into(),
        assumptions: assumptions(),
        floors: vec![
            ("kind=enum".into(), 0.3),
            ("enum_ignored_before_selected".into(), 0.03),
            ("ignored_before_selected".into(), 0.06),
            ("ignore_on_other_field".into(), 0.1),
            ("selected_by=attribute".into(), 0.1),
            ("selected_by=name".into(), 0.08),
            ("selected_by=sole_tuple_field".into(), 0.02),
            ("candidate_disqualified".into(), 0.04),
            ("explicit_overrides_name".into(), 0.005),
            ("variant_ignored".into(), 0.02),
            ("generic_source_type".into(), 0.05),
            ("generic_source_type_composite".into(), 0.03),
            ("generic_source_behind_reference".into(), 0.005),
            ("generic_where_clause".into(), 0.02),
            ("attr_combo_new".into(), 0.08),
            ("type=near_miss_Backtrace".into(), 0.04),
            ("two_tuple_near_miss_no_inference".into(), 0.01),
            ("boxed_dyn_unwindsafe_or_static".into(), 0.02),
            ("boxed_dyn_error".into(), 0.05),
            ("metamorphic_ignore_pair".into(), 0.08),
            ("negative_two_explicit_sources".into(), 0.03),
            ("expect=none".into(), 0.2),
        ],
        shards: 0,
    }
}

pub fn prop_nightly() -> DiceProp {
    DiceProp {
        crate_name: "gen_c09n",
        prelude: PRELUDE.to_string(),
        crate_attrs: "#![feature(error_generic_member_access)]".into(),
        nightly: true,
        check_only: false,
        ndice: 200,
        quick: (1200, 1),
        thorough: (2500, 4),
        build: build_nightly,
        fixed: fixed_nightly,
        classify,
        rule: RULE.into(),
        assumptions: assumptions(),
        floors: vec![
            ("has_backtrace".into(), 0.8),
            ("provide_emitted".into(), 0.9),
            ("named_backtrace_by_type_only".into(), 0.03),
            ("attr_combo_new".into(), 0.1),
            ("selected_by=two_tuple_other_is_backtrace".into(), 0.04),
            ("backtrace_from_source".into(), 0.03),
            ("enum_ignored_before_selected".into(), 0.03),
            ("candidate_disqualified".into(), 0.04),
            ("type=Backtrace".into(), 0.5),
            ("name=backtrace".into(), 0.15),
            ("attr=backtrace".into(), 0.1),
        ],
        shards: 0,
    }
}

fn merge(into: &mut Report, from: Report) {
    into.evidence.merge(from.evidence);
    into.violations.extend(from.violations);
    into.infra_errors.extend(from.infra_errors);
}

// ------------------------------------------------------------------------------------------------
// in-process sweep (E1): derive-level accept / reject over the complete layout space

fn sweep_item(l: &Layout, as_enum: bool) -> String {
    let parts: Vec<String> = l
        .fields
        .iter()
        .enumerate()
        .map(|(j, f)| {
            let a = f.attr.text().map(|a| format!("#[error({a})] ")).unwrap_or_default();
            let ty = match f.cls {
                Cls::Bt => "Backtrace".to_string(),
                _ => format!("Er<{}>", j + 1),
            };
            if l.named {
                format!("{a}{}: {ty}", f.name)
            } else {
                format!("{a}{ty}")
            }
        })
        .collect();
    let body = if l.named { format!("{{ {} }}", parts.join(", ")) } else { format!("({})", parts.join(", ")) };
    let ig = if l.ignored { "#[error(ignore)] " } else { "" };
    if as_enum {
        format!("enum Z {{ U, {ig}V{body} }}")
    } else if l.named {
        format!("{ig}struct Z {body}")
    } else {
        format!("{ig}struct Z{body};")
    }
}

/// Judges one in-process expansion against the model; `None` = fine.
fn sweep_judge(l: &Layout, src: &str) -> Option<Violation> {
    let m = model(l);
    if (m.bt_ambiguous || bt_candidates(l) > 1) && m.source != Sel::Ambiguous {
        return None; // two backtrace candidates (by the documentation or by the type-based inference): not the subject of this property
    }
    let derive = dm::Derive::by_name("Error")?;
    let out = match dm::expand_src(derive, src) {
        Ok(o) => o,
        Err(e) => {
            return Some(Violation { sig: None, summary: format!("sweep item does not parse: {e}"), case: json!({"inproc_item": src}), expected: "parses".into(), observed: e });
        }
    };
    let mk = |sig: Option<&str>, summary: String, expected: &str, observed: String| {
        Some(Violation { sig: sig.map(|s| s.to_string()), summary, case: json!({"inproc_item": src}), expected: expected.into(), observed })
    };
    match (&out, m.source == Sel::Ambiguous && !l.ignored) {
        (dm::Outcome::Err(_), true) => None,
        (dm::Outcome::Ok(_), true) => mk(None, format!("two explicit `source` attributes are accepted by the derive: {src}"), "a diagnostic", "expansion succeeded".into()),
        (dm::Outcome::Ok(_), false) => None,
        (dm::Outcome::Err(e), false) => {
            if m.source == Sel::Ambiguous {
                None // ignored variant/struct with two explicit sources: either verdict is defensible
            } else {
                mk(None, format!("the derive rejects a layout the documentation supports: {src}"), "expansion succeeds", e.clone())
            }
        }
        (dm::Outcome::Panic(p), _) => {
            let known = predicts_panic(l) && p.msg.contains("index out of bounds") && p.file.ends_with("error.rs");
            mk(
                if known { Some(SIG_PANIC) } else { None },
                format!("the derive panics ({}) on: {src}", p.msg),
                if m.source == Sel::Ambiguous { "a diagnostic" } else { "expansion succeeds" },
                format!("panic at {}:{}: {}", p.file, p.line, p.msg),
            )
        }
    }
}

fn sweep(rep: &mut Report) {
    let mut total = 0u64;
    let mut ambiguous = 0u64;
    let mut skipped_bt = 0u64;
    let mut seen_sigs = std::collections::HashSet::new();
    // every attribute (incl. the multi-parameter lists) for up to two fields, the single-parameter ones and the
    // documented `backtrace, source` for three
    let per_field_all: Vec<(At, Cls)> = ALL_ATTRS.iter().flat_map(|a| [Cls::Err, Cls::Bt].into_iter().map(move |c| (*a, c))).collect();
    let per_field_base: Vec<(At, Cls)> = BASE_ATTRS.iter().flat_map(|a| [Cls::Err, Cls::Bt].into_iter().map(move |c| (*a, c))).collect();
    let name_opts = ["source", "backtrace", ""];
    for named in [false, true] {
        for n in 0..=3usize {
            // name sequences
            let mut name_seqs: Vec<Vec<String>> = vec![vec![]];
            for i in 0..n {
                let mut next = vec![];
                for s in &name_seqs {
                    if named {
                        for o in name_opts {
                            if !o.is_empty() && s.iter().any(|x| x == o) {
                                continue;
                            }
                            let mut t = s.clone();
                            t.push(if o.is_empty() { OTHER[i].to_string() } else { o.to_string() });
                            next.push(t);
                        }
                    } else {
                        let mut t = s.clone();
                        t.push(String::new());
                        next.push(t);
                    }
                }
                name_seqs = next;
            }
            let per_field = if n <= 2 { &per_field_all } else { &per_field_base };
            let combos = per_field.len().pow(n as u32);
            for names in &name_seqs {
                for code in 0..combos {
                    let mut c = code;
                    let mut fields = vec![];
                    for name in names.iter() {
                        let (a, cls) = per_field[c % per_field.len()];
                        c /= per_field.len();
                        fields.push(Fl { name: name.clone(), attr: a, cls });
                    }
                    for ignored in [false, true] {
                        if ignored && code % 7 != 0 {
                            continue; // container-level ignore: a systematic 1/7 sample is plenty
                        }
                        let l = Layout { named, fields: fields.clone(), ignored };
                        let m = model(&l);
                        for as_enum in [false, true] {
                            if ignored && !as_enum && fields.iter().any(|f| f.attr != At::None) {
                                continue; // struct-level ignore combined with field attributes: undocumented
                            }
                            total += 1;
                            if m.source == Sel::Ambiguous {
                                ambiguous += 1;
                            } else if m.bt_ambiguous || bt_candidates(&l) > 1 {
                                skipped_bt += 1;
                            }
                            let src = sweep_item(&l, as_enum);
                            if let Some(v) = sweep_judge(&l, &src) {
                                // one report per distinct (signature, summary class)
                                let key = format!("{:?}|{}", v.sig, v.summary.split(':').next().unwrap_or(""));
                                if seen_sigs.insert(key) {
                                    rep.violations.push(v);
                                } else {
                                    rep.evidence.add("inproc_sweep_further_failures", 1);
                                }
                            }
                        }
                    }
                }
            }
        }
    }
    rep.evidence.eval(total);
    rep.evidence.label_n("inproc_sweep_layouts", total);
    rep.evidence.label_n("inproc_sweep_ambiguous_must_reject", ambiguous);
    rep.evidence.label_n("inproc_sweep_backtrace_ambiguous_not_judged", skipped_bt);
    rep.evidence.set(
        "inproc_sweep",
        json!({"layouts": total, "exhaustive": true, "space": "named/positional x 0..3 fields x 12 attributes (for three fields: the 7 single-parameter ones and `backtrace, source`) x {error type, Backtrace type} x names {source, backtrace, other} x struct/enum variant (+ a 1/7 sample with container-level ignore)", "decides": "derive-level accept/reject only (two explicit sources => diagnostic; everything else expands without error or panic)"}),
    );
}

/// Negative cases of the compiled shards are additionally confirmed in-process: the rejection must come from the
/// derive (a diagnostic), not from an accident of the generated program.
fn confirm_negatives_inproc(p: &DiceProp, ctx: &Ctx, rep: &mut Report) {
    use proptest::strategy::ValueTree;
    let strat = ProgProp::strategy(p, ctx);
    let (n, _) = ProgProp::budget(p, ctx.tier);
    let mut runner = ctx.runner(0);
    let derive = match dm::Derive::by_name("Error") {
        Some(d) => d,
        None => return,
    };
    let mut confirmed = 0u64;
    for t in draw(&mut runner, &strat, n) {
        let c = t.current();
        rep.evidence.add("excluded_by_construction", c.meta["excluded_draws"].as_u64().unwrap_or(0));
        if c.expect_compile {
            continue;
        }
        let Some(item) = c.meta["item"].as_str() else { continue };
        match dm::expand_src(derive, item) {
            Ok(dm::Outcome::Err(_)) => confirmed += 1,
            Ok(o) => rep.violations.push(Violation {
                sig: None,
                summary: format!("two explicit `source` attributes are not rejected by the derive itself ({})", o.kind()),
                case: json!({"inproc_item": item}),
                expected: "a diagnostic from the derive".into(),
                observed: o.kind().into(),
            }),
            Err(e) => rep.infra_errors.push(format!("negative item does not parse: {e}: {item}")),
        }
    }
    rep.evidence.add("negatives_confirmed_inproc", confirmed);
}

pub fn run(ctx: &Ctx) -> Report {
    let ps = prop();
    let mut rep = super::progprop::run(&ps, ctx);
    confirm_negatives_inproc(&ps, ctx, &mut rep);
    let nightly_ok = std::process::Command::new("rustc").arg("+nightly").arg("--version").output().map(|o| o.status.success()).unwrap_or(false);
    if nightly_ok {
        let pn = prop_nightly();
        let r2 = super::progprop::run(&pn, ctx);
        merge(&mut rep, r2);
        confirm_negatives_inproc(&pn, ctx, &mut rep);
    } else {
        rep.infra_errors.push("nightly toolchain not available: the backtrace shard of C09 cannot run".into());
    }
    sweep(&mut rep);
    rep.evidence.explanation = "exhaustive only for the in-process derive-level accept/reject sweep (see inproc_sweep); which field source() returns is explored by seeded generation".into();
    rep
}

pub fn replay(ctx: &Ctx, case: &Value) -> Report {
    if let Some(src) = case["inproc_item"].as_str() {
        let mut rep = Report::new(RULE);
        rep.evidence.eval(1);
        // rebuild the layout from the item text is not needed: judge by re-expanding and re-deriving the verdict
        match syn::parse_str::<syn::DeriveInput>(src) {
            Ok(_) => {
                if let Some(l) = layout_of_item(src) {
                    if let Some(v) = sweep_judge(&l, src) {
                        rep.violations.push(v);
                    }
                } else {
                    rep.infra_errors.push("cannot recover the layout of the replayed item".into());
                }
            }
            Err(e) => rep.infra_errors.push(format!("replay item does not parse: {e}")),
        }
        return rep;
    }
    let nightly = case["meta"]["nightly"].as_bool().unwrap_or(false);
    if nightly {
        super::progprop::replay(&prop_nightly(), ctx, case)
    } else {
        super::progprop::replay(&prop(), ctx, case)
    }
}

/// Recovers the layout (names, attributes, type classes) of the single struct / the variant `V` of an item text.
fn layout_of_item(src: &str) -> Option<Layout> {
    let di: syn::DeriveInput = syn::parse_str(src).ok()?;
    let has_ignore = |attrs: &[syn::Attribute]| attrs.iter().any(|a| a.path().is_ident("error") && quote::ToTokens::to_token_stream(a).to_string().replace(' ', "").contains("(ignore)"));
    let (fields, ignored) = match &di.data {
        syn::Data::Struct(s) => (s.fields.clone(), has_ignore(&di.attrs)),
        syn::Data::Enum(e) => {
            // the variant with the most fields / attributes is the subject
            let nsrc = |v: &syn::Variant| v.fields.iter().filter(|f| f.attrs.iter().any(|a| quote::ToTokens::to_token_stream(a).to_string().contains("source") && !quote::ToTokens::to_token_stream(a).to_string().contains("not"))).count();
            let v = e.variants.iter().max_by_key(|v| nsrc(v).min(2) * 1000 + v.fields.len() * 10 + v.attrs.len())?;
            (v.fields.clone(), has_ignore(&v.attrs))
        }
        _ => return None,
    };
    let named = matches!(fields, syn::Fields::Named(_));
    let mut out = vec![];
    for f in fields.iter() {
        let mut attr = At::None;
        for a in &f.attrs {
            if a.path().is_ident("error") {
                let t = quote::ToTokens::to_token_stream(&a.meta).to_string().replace(' ', "");
                attr = match t.as_str() {
                    "error(source)" => At::Source,
                    "error(not(source))" => At::NotSource,
                    "error(backtrace)" => At::Backtrace,
                    "error(not(backtrace))" => At::NotBacktrace,
                    "error(ignore)" => At::Ignore,
                    "error(backtrace,source)" => At::BtSource,
                    "error(source,backtrace)" => At::SourceBt,
                    "error(source,not(backtrace))" => At::SourceNotBt,
                    "error(not(source),backtrace)" => At::NotSourceBt,
                    "error(not(source),not(backtrace))" => At::NotSourceNotBt,
                    "error(not(source,backtrace))" => At::NotBoth,
                    _ => return None,
                };
            }
        }
        let ty = quote::ToTokens::to_token_stream(&f.ty).to_string();
        let cls = if ty.trim_end().ends_with("Backtrace") { Cls::Bt } else { Cls::Err };
        out.push(Fl { name: f.ident.as_ref().map(|i| i.to_string()).unwrap_or_default(), attr, cls });
    }
    Some(Layout { named, fields: out, ignored })
}

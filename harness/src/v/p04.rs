//! C04 — inferred formatting bounds on generics are sufficient and not excessive.
//!
//! Generated generic structs/enums deriving a fmt trait; every type parameter has a *plan*: formatted under
//! one trait X (through fields whose types mention it, referenced in the documented ways), unformatted
//! (unreferenced / skipped / behind a default shared literal), or used only inside a user expression for which
//! the case supplies `bound(..)`. Oracle inside the program: (sufficiency) the item compiles with no other user
//! bound; (non-excess) the impl exists when unformatted parameters are `NoFmt` and formatted ones implement
//! exactly their trait (`OnlyX`); (bound(..) kept) the impl does *not* exist when the user-bounded parameter does
//! not implement the user's trait. Existence is probed with the autoref-free inherent-const trick at run time.
use super::core::*;
use super::p02::FMT_TRAITS;
use super::proggen::CaseResult;
use super::progprop::*;
use serde_json::json;

pub const PRELUDE: &str = r#"
pub mod c04 {
    use core::fmt;
    /// implements no formatting trait
    pub struct NoFmt(pub u8);
    pub trait Show { fn show(&self) -> String; }
    /// implements `Show` and no formatting trait
    pub struct OnlyShow(pub u8);
    impl Show for OnlyShow { fn show(&self) -> String { "shown".to_string() } }
    macro_rules! only { ($($n:ident $tr:ident),*) => { $(
        pub struct $n(pub u8);
        impl fmt::$tr for $n { fn fmt(&self, f: &mut fmt::Formatter<'_>) -> fmt::Result { f.write_str(stringify!($n)) } }
    )* } }
    only!(OnlyDisplay Display, OnlyDebug Debug, OnlyBinary Binary, OnlyOctal Octal, OnlyLowerHex LowerHex, OnlyUpperHex UpperHex,
          OnlyLowerExp LowerExp, OnlyUpperExp UpperExp, OnlyPointer Pointer);
    /// wrapper implementing each formatting trait iff its parameter does
    pub struct W<T>(pub T);
    macro_rules! wrap { ($($tr:ident),*) => { $(
        impl<T: fmt::$tr> fmt::$tr for W<T> { fn fmt(&self, f: &mut fmt::Formatter<'_>) -> fmt::Result { fmt::$tr::fmt(&self.0, f) } }
    )* } }
    wrap!(Display, Debug, Binary, Octal, LowerHex, UpperHex, LowerExp, UpperExp, Pointer);
    pub trait Assoc { type Out; }
    impl<T> Assoc for W<T> { type Out = T; }
    /// projection whose *self type is concrete* and whose parameter only occurs in the trait's arguments
    pub trait AssocArg<T> { type Out; }
    impl<T> AssocArg<T> for u8 { type Out = W<T>; }
}
pub use c04::*;
/// `impls!(Type: Trait)` — does `Type` implement `Trait`? (stable; inherent associated const shadows the trait's)
macro_rules! impls {
    ($t:ty : $($tr:tt)+) => {{
        struct P<T: ?Sized>(core::marker::PhantomData<T>);
        trait F { const I: bool = false; }
        impl<T: ?Sized> F for P<T> {}
        #[allow(dead_code)] impl<T: ?Sized + $($tr)+> P<T> { const I: bool = true; }
        <P<$t>>::I
    }};
}
"#;

#[derive(Clone, Debug, PartialEq)]
enum Plan {
    /// formatted under the trait with this type string ("" Display, "?" Debug, "x" ...)
    Fmt(&'static str),
    Unfmt,
    /// used only through `.show()` in an argument expression; the case adds `bound(P: Show)`
    UserBound,
}

fn trait_of(ty: &str) -> &'static str {
    super::lit::trait_of_ty(ty).unwrap()
}

fn only_of(ty: &str) -> String {
    format!("Only{}", trait_of(ty))
}

/// field type forms mentioning parameter `p` that implement trait `ty` whenever `p` does
fn forms_for(ty: &str, p: &str, d: &mut Dice, lt: &mut bool) -> String {
    let mut forms: Vec<String> = vec![
        p.to_string(),
        format!("W<{p}>"),
        format!("W<W<{p}>>"),
        format!("<W<{p}> as Assoc>::Out"),
        format!("<u8 as AssocArg<{p}>>::Out"),
        format!("W<<u8 as AssocArg<{p}>>::Out>"),
    ];
    if ty.is_empty() || ty == "?" {
        // std implements only Display/Debug/Pointer for Box<T>
        forms.push(format!("Box<{p}>"));
    }
    if ty == "?" {
        forms.extend([format!("Vec<{p}>"), format!("Option<{p}>"), format!("[{p}; 2]"), format!("({p}, u8)"), format!("Box<[{p}]>")]);
    }
    // `&'a P` is kept rare: together with another formatted `P` field under the same trait it runs into the recorded
    // finding c04-ref-field-bound-shadows-blanket-impl and the whole case then fails to compile
    if d.chance(6) {
        *lt = true;
        format!("&'a {p}")
    } else {
        forms[d.pick(forms.len())].clone()
    }
}

struct Container {
    /// attribute lines for the struct/variant
    attrs: Vec<String>,
    /// (field attrs, name or None, type)
    fields: Vec<(Vec<String>, Option<String>, String)>,
    named: bool,
}

const FNAMES: [&str; 5] = ["a", "b", "c", "r#type", "x"];

/// Builds one struct-like container over the given parameter plans. `force_all_used`: every parameter must occur in a field.
fn gen_container(d: &mut Dice, attr: &str, derived_ty: &'static str, plans: &mut Vec<(String, Plan)>, lt: &mut bool, labels: &mut Vec<String>, allow_no_attr_single: bool) -> Container {
    let is_debug = attr == "debug";
    let named = d.chance(50);
    let mut c = Container { attrs: vec![], fields: vec![], named };
    let fname = |i: usize, named: bool| -> (Option<String>, String) {
        if named {
            (Some(FNAMES[i % 5].to_string()), FNAMES[i % 5].trim_start_matches("r#").to_string())
        } else {
            (None, format!("_{i}"))
        }
    };
    // Display-like without any literal: exactly one field, formatted under the derived trait
    if !is_debug && allow_no_attr_single && plans.len() == 1 && d.chance(35) {
        let (pn, plan) = &mut plans[0];
        if *plan == Plan::Unfmt || matches!(plan, Plan::Fmt(t) if *t == derived_ty) {
            *plan = Plan::Fmt(derived_ty);
            let t = forms_for(derived_ty, pn, d, lt);
            c.fields.push((vec![], fname(0, named).0, t));
            labels.push("implicit_single_field".into());
            return c;
        }
    }
    // fields: every parameter of this container gets at least one field
    let mut pieces: Vec<String> = vec![];
    let mut args: Vec<String> = vec![];
    let mut extra_bounds: Vec<String> = vec![];
    let n_extra = d.range(0, 2);
    let mut order: Vec<usize> = (0..plans.len()).collect();
    for _ in 0..n_extra {
        order.push(d.pick(plans.len()));
    }
    let mut lit_needed = !is_debug;
    for (i, pi) in order.iter().enumerate() {
        let (pn, plan) = plans[*pi].clone();
        let (decl_name, ref_name) = fname(i, named);
        let raw_name = decl_name.clone().unwrap_or(ref_name.clone());
        match plan {
            Plan::Fmt(ty) => {
                let t = forms_for(ty, &pn, d, lt);
                let mut fattrs = vec![];
                if is_debug && ty == "?" && !lit_needed_for_debug(&c) && d.chance(60) {
                    // plain derived Debug of the field
                } else if is_debug && named && d.chance(30) {
                    // formatted only through the attribute of a *non-generic* neighbour field (debug.md: a field format may
                    // use any field); the generic field itself is skipped
                    c.fields.push((vec!["#[debug(skip)]".to_string()], decl_name, t));
                    c.fields.push((vec![format!("#[debug(\"{{:{ty}}}\", {raw_name})]")], Some(format!("n{i}")), "u8".to_string()));
                    labels.push("field_format_on_non_generic_neighbour".into());
                    continue;
                } else if is_debug && d.chance(50) {
                    // field-level format
                    fattrs.push(format!("#[debug(\"{{:{ty}}}\", {raw_name})]"));
                    labels.push("field_level_format".into());
                    c.fields.push((fattrs, decl_name, t));
                    continue;
                } else {
                    lit_needed = true;
                }
                if lit_needed || !is_debug {
                    // reference it from the container literal in one of the documented ways
                    let spec = if ty.is_empty() { String::new() } else { format!(":{ty}") };
                    match d.pick(4) {
                        0 => pieces.push(format!("{{{ref_name}{spec}}}")),
                        1 => {
                            // bare identifier argument, implicit position
                            pieces.push(format!("{{{}{spec}}}", args.iter().filter(|a: &&String| !a.contains(" = ")).count()));
                            args.push(raw_name.clone());
                        }
                        2 => {
                            let al = format!("al{i}");
                            pieces.push(format!("{{{al}{spec}}}"));
                            args.push(format!("{al} = {raw_name}"));
                            labels.push("alias_to_field".into());
                        }
                        _ => {
                            // twice, and with flags
                            pieces.push(format!("{{{ref_name}{spec}}}"));
                            let fl = if ty.is_empty() { ":>4".to_string() } else { format!(":>4{ty}") };
                            pieces.push(format!("{{{ref_name}{fl}}}"));
                        }
                    }
                }
                c.fields.push((fattrs, decl_name, t));
            }
            Plan::Unfmt => {
                let t = [pn.clone(), format!("Vec<{pn}>"), format!("core::marker::PhantomData<{pn}>"), format!("fn({pn}) -> u8"), format!("Option<Box<{pn}>>")][d.pick(5)].clone();
                let mut fattrs = vec![];
                if is_debug {
                    if !lit_needed && d.chance(70) {
                        fattrs.push(["#[debug(skip)]", "#[debug(ignore)]"][d.pick(2)].to_string());
                        labels.push("skipped_field".into());
                    } else if !lit_needed {
                        fattrs.push("#[debug(\"opaque\")]".to_string());
                        labels.push("field_literal_without_reference".into());
                    }
                    // with a container literal: simply unreferenced
                } else {
                    labels.push("unreferenced_field".into());
                }
                c.fields.push((fattrs, decl_name, t));
            }
            Plan::UserBound => {
                lit_needed = true;
                if named && d.chance(40) {
                    // a named argument shadowing the field of the same name: the placeholder formats the expression
                    pieces.push(format!("{{{ref_name}}}"));
                    args.push(format!("{raw_name} = {raw_name}.show()"));
                    labels.push("alias_shadows_field_with_expression".into());
                } else {
                    pieces.push(format!("{{{}}}", args.iter().filter(|a: &&String| !a.contains(" = ")).count()));
                    args.push(format!("{raw_name}.show()"));
                }
                extra_bounds.push(format!("{pn}: Show"));
                labels.push("expression_argument_with_user_bound".into());
                c.fields.push((vec![], decl_name, pn.clone()));
            }
        }
    }
    if is_debug && lit_needed {
        // a Debug container literal replaces the whole output: fields with their own attribute would conflict
        for f in c.fields.iter_mut() {
            f.0.clear();
        }
    }
    if lit_needed {
        if pieces.is_empty() {
            pieces.push("plain".into());
        }
        // named arguments after positional ones
        let (named_args, pos_args): (Vec<String>, Vec<String>) = args.into_iter().partition(|a| a.contains(" = "));
        let mut all = pos_args;
        all.extend(named_args);
        let lit = pieces.join(" ");
        let a = if all.is_empty() { String::new() } else { format!(", {}", all.join(", ")) };
        c.attrs.push(format!("#[{attr}(\"{lit}\"{a})]"));
    }
    for b in extra_bounds {
        let kw = ["bound", "bounds"][d.pick(2)];
        c.attrs.push(format!("#[{attr}({kw}({b}))]"));
    }
    c
}

fn lit_needed_for_debug(_c: &Container) -> bool {
    false
}

fn render_fields(c: &Container, pubs: bool) -> String {
    let p = if pubs { "pub " } else { "" };
    let parts: Vec<String> = c
        .fields
        .iter()
        .map(|(a, n, t)| {
            let attrs = a.iter().map(|x| format!("{x} ")).collect::<String>();
            match n {
                Some(n) => format!("{attrs}{p}{n}: {t}"),
                None => format!("{attrs}{p}{t}"),
            }
        })
        .collect();
    if c.named {
        format!(" {{ {} }}", parts.join(", "))
    } else {
        format!("({})", parts.join(", "))
    }
}

fn build(d: &mut Dice) -> GenCase {
    let (tr, attr, derived_ty) = FMT_TRAITS[[0usize, 0, 1, 1, 1, 2, 3, 4, 5, 6, 7][d.pick(11)]];
    let is_debug = attr == "debug";
    let mut labels = vec![format!("trait={tr}")];
    let np = d.range(1, 3);
    let mut plans: Vec<(String, Plan)> = vec![];
    let tys: &[&'static str] = if is_debug { &["?", "?", "", "x", "b", "e"] } else { &["", "?", "x", "X", "o", "b", "e", "E"] };
    for i in 0..np {
        let plan = match d.weighted(&[5, 3, 2]) {
            0 => Plan::Fmt(if d.chance(40) { derived_ty } else { tys[d.pick(tys.len())] }),
            1 => Plan::Unfmt,
            _ => Plan::UserBound,
        };
        plans.push((format!("P{i}"), plan));
    }
    let mut lt = false;
    let is_enum = d.chance(40);
    let mut item = String::new();
    let name;
    if !is_enum {
        name = "S";
        let c = gen_container(d, attr, derived_ty, &mut plans, &mut lt, &mut labels, true);
        let semi = if c.named { "" } else { ";" };
        item.push_str(&c.attrs.join("\n"));
        item.push_str(&format!("\npub struct S<{{GENS}}>{}{semi}", render_fields(&c, true)));
        labels.push("kind=struct".into());
    } else {
        name = "E";
        labels.push("kind=enum".into());
        // shared enum-level literal (Display-like only): none / default (no field refs) / wrapping `_variant`
        let shared = if is_debug { 0 } else { d.weighted(&[5, 3, 3]) };
        // a default shared literal may itself format the first field of the variants it applies to
        let shared_ref_ty: Option<&'static str> = if shared == 1 && d.chance(60) { Some(tys[d.pick(tys.len())]) } else { None };
        let nv = d.range(1, 3);
        // split the parameters over the variants (each variant gets >= 1 when possible); all must be used somewhere
        let mut variants = vec![];
        let mut enum_attrs: Vec<String> = vec![];
        for vi in 0..nv {
            let mut idx: Vec<usize> = (0..plans.len()).filter(|p| p % nv == vi || d.chance(25)).collect();
            if idx.is_empty() {
                idx.push(d.pick(plans.len()));
            }
            let mut sub: Vec<(String, Plan)> = idx.iter().map(|i| plans[*i].clone()).collect();
            let covered_by_default = shared == 1 && d.chance(50);
            if covered_by_default {
                // the variant has no attribute of its own: the default shared literal (which references no field) is
                // its whole output, so none of its fields is formatted
                let named = d.chance(50);
                let mut c = Container { attrs: vec![], fields: vec![], named };
                let mut fmt_here: Vec<usize> = vec![];
                if let Some(rty) = shared_ref_ty {
                    // positional variants: `{_0:ty}` of the shared literal formats field 0
                    c.named = false;
                    let k0 = sub.iter().position(|(_, pl)| *pl == Plan::Unfmt || *pl == Plan::Fmt(rty));
                    match k0 {
                        Some(k0) => {
                            let pn = sub[k0].0.clone();
                            let t = forms_for(rty, &pn, d, &mut lt);
                            c.fields.push((vec![], None, t));
                            plans[idx[k0]].1 = Plan::Fmt(rty);
                            fmt_here.push(idx[k0]);
                        }
                        None => c.fields.push((vec![], None, format!("Only{}", trait_of(rty)))),
                    }
                    labels.push("default_shared_literal_formats_a_field".into());
                }
                for (k, (pn, _)) in sub.iter().enumerate() {
                    let nm = if c.named { Some(FNAMES[k % 5].to_string()) } else { None };
                    c.fields.push((vec![], nm, format!("core::marker::PhantomData<{pn}>")));
                }
                // these parameters stay as planned only if something else formats them; record that this use is unformatted
                labels.push("variant_covered_by_default_shared_literal".into());
                variants.push((vi, c, idx.clone(), true, fmt_here));
                continue;
            }
            let c = gen_container(d, attr, derived_ty, &mut sub, &mut lt, &mut labels, shared != 1);
            for (k, i) in idx.iter().enumerate() {
                plans[*i].1 = sub[k].1.clone();
            }
            let all = idx.clone();
            variants.push((vi, c, idx, false, all));
        }
        // a parameter only used in default-covered variants is unformatted whatever its plan said
        for (pi, p) in plans.iter_mut().enumerate() {
            let used_fmt = variants.iter().any(|(_, _, _, _, fmt_idx)| fmt_idx.contains(&pi));
            let used_any = variants.iter().any(|(_, _, idx, _, _)| idx.contains(&pi));
            if !used_fmt {
                p.1 = Plan::Unfmt;
            }
            if !used_any {
                // unused parameter: attach it to the first variant as an unformatted phantom field handled below
                p.1 = Plan::Unfmt;
            }
        }
        let unused: Vec<String> = plans
            .iter()
            .enumerate()
            .filter(|(pi, _)| !variants.iter().any(|(_, _, idx, _, _)| idx.contains(pi)))
            .map(|(_, p)| p.0.clone())
            .collect();
        match shared {
            1 => {
                match shared_ref_ty {
                    Some(rty) => {
                        let spec = if rty.is_empty() { String::new() } else { format!(":{rty}") };
                        enum_attrs.push(format!("#[{attr}(\"shared {{_0{spec}}}\")]"));
                    }
                    None => enum_attrs.push(format!("#[{attr}(\"shared default\")]")),
                }
                labels.push("shared=default".into());
            }
            2 => {
                let spec = "";
                enum_attrs.push(format!("#[{attr}(\"<{{_variant{spec}}}>\")]"));
                labels.push("shared=wrapping".into());
            }
            _ => {}
        }
        // user bounds declared on variants move to the enum level half of the time (documented placement)
        let mut vtexts = vec![];
        for (vi, c, _, _, _) in &variants {
            let mut attrs = c.attrs.clone();
            // the docs show `bound(..)` on the item ("in the struct/enum definition"): for enums it goes on the enum;
            // the Display-like derives also take it on a variant (their attribute grammar is the same for struct and variant)
            let has_bound = attrs.iter().any(|a| a.contains("(bound(") || a.contains("(bounds("));
            if is_debug || d.chance(60) {
                let (b, rest): (Vec<String>, Vec<String>) = attrs.into_iter().partition(|a| a.contains("(bound(") || a.contains("(bounds("));
                attrs = rest;
                if !b.is_empty() {
                    labels.push("enum_level_bound".into());
                }
                enum_attrs.extend(b);
            } else if has_bound {
                labels.push("variant_level_bound".into());
            }
            let fields = if c.fields.is_empty() { String::new() } else { render_fields(c, false) };
            vtexts.push(format!("    {} V{vi}{fields}", attrs.join(" ")));
        }
        if !unused.is_empty() {
            let ph: Vec<String> = unused.iter().map(|p| format!("core::marker::PhantomData<{p}>")).collect();
            let at = if is_debug { String::new() } else { format!("#[{attr}(\"phantom\")] ") };
            vtexts.push(format!("    {at}Ph({})", ph.join(", ")));
        }
        item.push_str(&enum_attrs.join("\n"));
        item.push_str(&format!("\npub enum E<{{GENS}}> {{\n{}\n}}", vtexts.join(",\n")));
    }
    // generics declaration
    let mut gens: Vec<String> = vec![];
    if lt {
        gens.push("'a".into());
    }
    for (pn, _) in &plans {
        gens.push(pn.clone());
    }
    let item = item.replace("{GENS}", &gens.join(", "));
    // instantiations
    let inst = |f: &dyn Fn(&Plan) -> String| -> String {
        let mut v: Vec<String> = vec![];
        if lt {
            v.push("'static".into());
        }
        for (_, p) in &plans {
            v.push(f(p));
        }
        format!("{name}<{}>", v.join(", "))
    };
    let good = inst(&|p| match p {
        Plan::Fmt(t) => only_of(t),
        Plan::Unfmt => "NoFmt".into(),
        Plan::UserBound => "OnlyShow".into(),
    });
    let trait_path = format!("core::fmt::{tr}");
    let mut checks = format!(
        "    o.check(\"impl exists with unformatted parameters = NoFmt and formatted ones implementing only their trait: {good}: {tr}\", impls!({good}: {trait_path}));\n"
    );
    // each formatted parameter is really needed: replacing it by NoFmt must remove the impl (sanity of the model; only when the
    // field form cannot be formatted otherwise)
    for (i, (_, p)) in plans.iter().enumerate() {
        if let Plan::UserBound = p {
            let bad = inst(&|_| String::new()).replace(&format!("{name}<"), "");
            let _ = bad;
            let mut v: Vec<String> = vec![];
            if lt {
                v.push("'static".into());
            }
            for (j, (_, q)) in plans.iter().enumerate() {
                v.push(if j == i {
                    // satisfies no user trait
                    "NoFmt".to_string()
                } else {
                    match q {
                        Plan::Fmt(t) => only_of(t),
                        Plan::Unfmt => "NoFmt".into(),
                        Plan::UserBound => "OnlyShow".into(),
                    }
                });
            }
            let t = format!("{name}<{}>", v.join(", "));
            checks.push_str(&format!(
                "    o.check(\"user bound(..) is part of the impl's bounds: {t} must not implement {tr}\", !impls!({t}: {trait_path}));\n"
            ));
        }
    }
    let body = format!("#[derive(derive_more::{tr})]\n{item}\npub fn run(o: &mut Out) {{\n{checks}}}", item = item.trim_start_matches('\n'));
    let n_unfmt = plans.iter().filter(|p| p.1 == Plan::Unfmt).count();
    let n_fmt = plans.iter().filter(|p| matches!(p.1, Plan::Fmt(_))).count();
    if n_unfmt > 0 {
        labels.push("has_unformatted_param".into());
    }
    if plans.iter().any(|p| p.1 == Plan::UserBound) {
        labels.push("has_user_bound".into());
    }
    if lt {
        labels.push("has_lifetime".into());
    }
    let composite = body.contains("W<") || body.contains("Vec<") || body.contains("Box<") || body.contains("Option<") || body.contains("&'a") || body.contains("; 2]");
    if composite {
        labels.push("param_in_composite_type".into());
    }
    let mut c = GenCase::new(body);
    c.nontrivial = (n_unfmt > 0 && n_fmt > 0) || composite || labels.iter().any(|l| l.starts_with("shared="));
    c.labels = labels;
    c.meta = json!({"plans": plans.iter().map(|p| format!("{}={:?}", p.0, p.1)).collect::<Vec<_>>()});
    c
}

fn classify(c: &GenCase, r: &CaseResult, f: &Finding) -> Option<String> {
    let _ = f;
    if !r.compiled && c.body.contains("&'a P") && r.errors.iter().all(|e| e.message.contains("lifetime may not live long enough")) {
        // defect model: a field of type `&'a P` is bounded as `&'a P: Trait`; that where-clause shadows std's blanket
        // `impl<T: Trait> Trait for &T`, so formatting any *other* `&P` (the binding of a `P` field) under the same trait
        // is forced to the lifetime 'a
        return Some("c04-ref-field-bound-shadows-blanket-impl".into());
    }
    None
}

pub fn prop() -> DiceProp {
    DiceProp {
        crate_name: "gen_c04",
        prelude: PRELUDE.to_string(),
        crate_attrs: String::new(),
        nightly: false,
        check_only: false,
        ndice: 200,
        quick: (8000, 1),
        thorough: (5000, 8),
        build,
        fixed: no_fixed,
        classify,
        rule: "generic structs and enums (1..3 type parameters, optional lifetime) deriving Display-like traits or Debug; each parameter is planned as formatted under one trait (through field types P, W<P>, Box<P>, &'a P, <W<P> as Assoc>::Out, and for Debug Vec/Option/array/tuple/boxed slice), unformatted (unreferenced, skipped, PhantomData, fn pointer, behind a default shared enum literal) or used only in an argument expression with a user `bound(..)`/`bounds(..)` (struct, variant or enum level); references by name, by bare-identifier argument, by alias, repeated and with flags; implicit single-field delegation; field-level debug formats; shared enum literals (default and `_variant`-wrapping). Oracle: the item compiles without further bounds, the impl exists for NoFmt/Only<Trait>/OnlyShow instantiations, and does not exist when a user-bounded parameter lacks the user's trait. Non-trivial = at least one formatted and one unformatted parameter, or a parameter nested in a composite type, or a shared enum literal; distinct by program text".into(),
        assumptions: vec!["trait-implementation probe via inherent-const-vs-blanket-trait resolution (stable Rust)".into()],
        floors: vec![
            ("has_unformatted_param".into(), 0.2),
            ("has_user_bound".into(), 0.1),
            ("param_in_composite_type".into(), 0.3),
            ("kind=enum".into(), 0.2),
            ("shared=default".into(), 0.03),
            ("shared=wrapping".into(), 0.03),
            ("alias_to_field".into(), 0.05),
        ],
        shards: 0,
    }
}

pub fn run(ctx: &Ctx) -> Report {
    super::progprop::run(&prop(), ctx)
}

pub fn replay(ctx: &Ctx, case: &serde_json::Value) -> Report {
    super::progprop::replay(&prop(), ctx, case)
}

//! C04 — inferred formatting bounds on generics are sufficient and not excessive.
//!
//! Generated generic structs/enums deriving a fmt trait; every type parameter has a *plan*: formatted under
//! one trait X or under two traits X and Y (through fields whose types mention it, referenced in the documented ways),
//! formatted through a field type that implements the trait whatever the parameter is (`*const P`, `fn(P) -> u8`),
//! formatted through its projection `P::Out` (the item declares `P: Assoc`), unformatted (unreferenced / skipped /
//! behind a default shared literal), or used only inside a user expression for which the case supplies `bound(..)`.
//! Oracle inside the program: (sufficiency) the item compiles with no other user bound; (non-excess) the impl exists
//! when unformatted parameters are `NoFmt` and formatted ones implement exactly their trait(s) (`OnlyX`, `OnlyXY`);
//! (needed) the impl does *not* exist when a formatted parameter implements none / only one of its traits;
//! (bound(..) kept) the impl does *not* exist when the user-bounded parameter does not implement the user's trait.
//! Existence is probed with the autoref-free inherent-const trick at run time.
use super::core::*;
use super::p02::FMT_TRAITS;
use super::proggen::CaseResult;
use super::progprop::*;
use serde_json::json;

pub const PRELUDE: &str = r#"
pub mod c04 {
    use core::fmt;
    /// implements no formatting trait
    pub struct NoFmt(pub u8);
    pub trait Show { fn show(&self) -> String; }
    /// implements `Show` and no formatting trait
    pub struct OnlyShow(pub u8);
    impl Show for OnlyShow { fn show(&self) -> String { "shown".to_string() } }
    macro_rules! only { ($($n:ident $tr:ident),*) => { $(
        pub struct $n(pub u8);
        impl fmt::$tr for $n { fn fmt(&self, f: &mut fmt::Formatter<'_>) -> fmt::Result { f.write_str(stringify!($n)) } }
    )* } }
    only!(OnlyDisplay Display, OnlyDebug Debug, OnlyBinary Binary, OnlyOctal Octal, OnlyLowerHex LowerHex, OnlyUpperHex UpperHex,
          OnlyLowerExp LowerExp, OnlyUpperExp UpperExp, OnlyPointer Pointer);
    /// implement exactly two formatting traits
    macro_rules! two { ($($n:ident $a:ident $b:ident),*) => { $(
        pub struct $n(pub u8);
        impl fmt::$a for $n { fn fmt(&self, f: &mut fmt::Formatter<'_>) -> fmt::Result { f.write_str(stringify!($n)) } }
        impl fmt::$b for $n { fn fmt(&self, f: &mut fmt::Formatter<'_>) -> fmt::Result { f.write_str(stringify!($n)) } }
    )* } }
    two!(OnlyDisplayLowerHex Display LowerHex, OnlyDisplayDebug Display Debug, OnlyDebugLowerHex Debug LowerHex,
         OnlyBinaryLowerExp Binary LowerExp, OnlyOctalUpperHex Octal UpperHex, OnlyDisplayPointer Display Pointer,
         OnlyDebugBinary Debug Binary);
    /// wrapper implementing each formatting trait iff its parameter does
    pub struct W<T>(pub T);
    macro_rules! wrap { ($($tr:ident),*) => { $(
        impl<T: fmt::$tr> fmt::$tr for W<T> { fn fmt(&self, f: &mut fmt::Formatter<'_>) -> fmt::Result { fmt::$tr::fmt(&self.0, f) } }
    )* } }
    wrap!(Display, Debug, Binary, Octal, LowerHex, UpperHex, LowerExp, UpperExp, Pointer);
    pub trait Assoc { type Out; }
    impl<T> Assoc for W<T> { type Out = T; }
    /// projection whose *self type is concrete* and whose parameter only occurs in the trait's arguments
    pub trait AssocArg<T> { type Out; }
    impl<T> AssocArg<T> for u8 { type Out = W<T>; }
    /// trait objects mentioning the parameter in the trait's arguments / in an associated-type binding; the object
    /// types implement Display/Debug iff the parameter does
    pub trait DynTr<T> { fn get(&self) -> &T; }
    impl<'a, T: fmt::Display> fmt::Display for dyn DynTr<T> + 'a { fn fmt(&self, f: &mut fmt::Formatter<'_>) -> fmt::Result { fmt::Display::fmt(self.get(), f) } }
    impl<'a, T: fmt::Debug> fmt::Debug for dyn DynTr<T> + 'a { fn fmt(&self, f: &mut fmt::Formatter<'_>) -> fmt::Result { fmt::Debug::fmt(self.get(), f) } }
    impl<'a, T: fmt::Display> fmt::Display for dyn DynTr<T> + Send + 'a { fn fmt(&self, f: &mut fmt::Formatter<'_>) -> fmt::Result { fmt::Display::fmt(self.get(), f) } }
    impl<'a, T: fmt::Debug> fmt::Debug for dyn DynTr<T> + Send + 'a { fn fmt(&self, f: &mut fmt::Formatter<'_>) -> fmt::Result { fmt::Debug::fmt(self.get(), f) } }
    pub trait DynAssoc { type Item; fn get(&self) -> &Self::Item; }
    impl<'a, T: fmt::Debug> fmt::Debug for dyn DynAssoc<Item = T> + 'a { fn fmt(&self, f: &mut fmt::Formatter<'_>) -> fmt::Result { fmt::Debug::fmt(self.get(), f) } }
}
pub use c04::*;
/// `impls!(Type: Trait)` — does `Type` implement `Trait`? (stable; inherent associated const shadows the trait's)
macro_rules! impls {
    ($t:ty : $($tr:tt)+) => {{
        struct P<T: ?Sized>(core::marker::PhantomData<T>);
        trait F { const I: bool = false; }
        impl<T: ?Sized> F for P<T> {}
        #[allow(dead_code)] impl<T: ?Sized + $($tr)+> P<T> { const I: bool = true; }
        <P<$t>>::I
    }};
}
"#;

#[derive(Clone, Debug, PartialEq)]
enum Plan {
    /// formatted under the trait with this type string ("" Display, "?" Debug, "x" ...)
    Fmt(&'static str),
    /// formatted under two different traits
    Fmt2(&'static str, &'static str),
    /// formatted under a trait its field type implements whatever the parameter is (`*const P`, `fn(P) -> u8`): the
    /// inferred bound holds for every instantiation
    FmtFree(&'static str),
    /// the item declares `P: Assoc`; the formatted field is the projection `P::Out`
    FmtAssoc(&'static str),
    Unfmt,
    /// used only through `.show()` in an argument expression; the case adds `bound(P: Show)`
    UserBound,
}

impl Plan {
    /// type strings under which fields of this parameter are formatted
    fn tys(&self) -> Vec<&'static str> {
        match self {
            Plan::Fmt(t) | Plan::FmtFree(t) | Plan::FmtAssoc(t) => vec![*t],
            Plan::Fmt2(a, b) => vec![*a, *b],
            Plan::Unfmt | Plan::UserBound => vec![],
        }
    }
    /// minimal instantiation: implements exactly what the plan needs
    fn good(&self) -> String {
        match self {
            Plan::Fmt(t) => only_of(t),
            Plan::Fmt2(a, b) => format!("Only{}{}", trait_of(a), trait_of(b)),
            Plan::FmtFree(_) | Plan::Unfmt => "NoFmt".into(),
            Plan::FmtAssoc(t) => format!("W<{}>", only_of(t)),
            Plan::UserBound => "OnlyShow".into(),
        }
    }
    /// instantiations lacking (one of) the needed trait(s): the impl must not exist for them
    fn bad(&self) -> Vec<String> {
        match self {
            Plan::Fmt(_) => vec!["NoFmt".into()],
            Plan::Fmt2(a, b) => vec![only_of(a), only_of(b)],
            Plan::FmtAssoc(_) => vec!["W<NoFmt>".into()],
            Plan::UserBound => vec!["NoFmt".into()],
            Plan::FmtFree(_) | Plan::Unfmt => vec![],
        }
    }
}

const PAIRS: [(&str, &str); 7] = [("", "x"), ("", "?"), ("?", "x"), ("b", "e"), ("o", "X"), ("", "p"), ("?", "b")];

fn trait_of(ty: &str) -> &'static str {
    super::lit::trait_of_ty(ty).unwrap()
}

fn only_of(ty: &str) -> String {
    format!("Only{}", trait_of(ty))
}

/// side conditions collected while types are chosen
#[derive(Default)]
struct Cx {
    lt: bool,
}

/// field type forms mentioning parameter `p` that implement every trait of `tys` whenever `p` does (and only then)
fn forms_for(tys: &[&'static str], p: &str, d: &mut Dice, cx: &mut Cx) -> String {
    let mut forms: Vec<String> = vec![
        p.to_string(),
        format!("W<{p}>"),
        format!("W<W<{p}>>"),
        format!("<W<{p}> as Assoc>::Out"),
        format!("<u8 as AssocArg<{p}>>::Out"),
        format!("W<<u8 as AssocArg<{p}>>::Out>"),
        // a parenthesised type
        format!("({p})"),
    ];
    if tys.iter().all(|t| t.is_empty() || *t == "?") {
        // std implements only Display/Debug/Pointer for Box<T>
        forms.push(format!("Box<{p}>"));
        // a trait object with the parameter among the trait's generic arguments
        forms.push(format!("Box<dyn DynTr<{p}>>"));
        // ... next to a bound that does not mention it (every bound of the trait object has to be looked at)
        forms.push(format!("Box<dyn DynTr<{p}> + Send>"));
        forms.push(format!("Box<dyn Send + DynTr<{p}>>"));
    }
    if tys == ["?"] {
        forms.extend([
            format!("Vec<{p}>"),
            format!("Option<{p}>"),
            format!("[{p}; 2]"),
            format!("({p}, u8)"),
            format!("Box<[{p}]>"),
            // ... and in an associated-type binding
            format!("Box<dyn DynAssoc<Item = {p}>>"),
        ]);
    }
    // `&'a P` is kept rare: together with another formatted `P` field under the same trait it runs into the recorded
    // finding c04-ref-field-bound-shadows-blanket-impl and the whole case then fails to compile
    // (never under Pointer: `&T: Pointer` holds for every `T`)
    if !tys.contains(&"p") && d.chance(4) {
        cx.lt = true;
        format!("&'a {p}")
    } else {
        forms[d.pick(forms.len())].clone()
    }
}

/// field type for a plan
fn type_for(plan: &Plan, p: &str, d: &mut Dice, cx: &mut Cx) -> String {
    match plan {
        Plan::Fmt(t) => forms_for(&[*t], p, d, cx),
        Plan::Fmt2(a, b) => forms_for(&[*a, *b], p, d, cx),
        Plan::FmtFree(_) => [format!("*const {p}"), format!("*mut {p}"), format!("fn({p}) -> u8"), format!("fn() -> {p}")][d.pick(4)].clone(),
        Plan::FmtAssoc(t) => {
            let mut forms = vec![format!("{p}::Out"), format!("<{p} as Assoc>::Out"), format!("W<{p}::Out>")];
            if *t == "?" {
                forms.push(format!("Vec<{p}::Out>"));
            }
            forms[d.pick(forms.len())].clone()
        }
        Plan::Unfmt | Plan::UserBound => unreachable!(),
    }
}

struct Container {
    /// attribute lines for the struct/variant
    attrs: Vec<String>,
    /// (field attrs, name or None, type)
    fields: Vec<(Vec<String>, Option<String>, String)>,
    named: bool,
}

const FNAMES: [&str; 5] = ["a", "b", "c", "r#type", "x"];

/// Builds one struct-like container over the given parameter plans: every parameter gets at least one field.
#[allow(clippy::too_many_arguments)]
fn gen_container(
    d: &mut Dice,
    attr: &str,
    derived_ty: &'static str,
    plans: &mut Vec<(String, Plan)>,
    cx: &mut Cx,
    labels: &mut Vec<String>,
    allow_no_attr_single: bool,
    force_named: Option<bool>,
) -> Container {
    let is_debug = attr == "debug";
    let named = force_named.unwrap_or_else(|| d.chance(50));
    let mut c = Container { attrs: vec![], fields: vec![], named };
    let fname = |i: usize, named: bool| -> (Option<String>, String) {
        if named {
            (Some(FNAMES[i % 5].to_string()), FNAMES[i % 5].trim_start_matches("r#").to_string())
        } else {
            (None, format!("_{i}"))
        }
    };
    // Display-like without any literal: exactly one field, formatted under the derived trait
    if !is_debug && allow_no_attr_single && plans.len() == 1 && d.chance(35) {
        let (pn, plan) = &mut plans[0];
        if *plan == Plan::Unfmt || matches!(plan, Plan::Fmt(t) if *t == derived_ty) {
            *plan = Plan::Fmt(derived_ty);
            let t = forms_for(&[derived_ty], pn, d, cx);
            c.fields.push((vec![], fname(0, named).0, t));
            labels.push("implicit_single_field".into());
            return c;
        }
    }
    let mut pieces: Vec<String> = vec![];
    let mut args: Vec<String> = vec![];
    let mut extra_bounds: Vec<String> = vec![];
    // Debug fields formatted without a container literal (plain Debug, field-level format, a neighbour's format):
    // (reference name, type string). If the container ends up with a literal, the literal has to format them.
    let mut deferred: Vec<(String, &'static str)> = vec![];
    let n_extra = d.range(0, 2);
    let mut order: Vec<usize> = (0..plans.len()).collect();
    for _ in 0..n_extra {
        order.push(d.pick(plans.len()));
    }
    let mut lit_needed = !is_debug;
    let spec_of = |ty: &str| if ty.is_empty() { String::new() } else { format!(":{ty}") };
    for (i, pi) in order.iter().enumerate() {
        let (pn, plan) = plans[*pi].clone();
        let (decl_name, ref_name) = fname(i, named);
        let raw_name = decl_name.clone().unwrap_or(ref_name.clone());
        match plan {
            Plan::Fmt(_) | Plan::Fmt2(..) | Plan::FmtFree(_) | Plan::FmtAssoc(_) => {
                let tys = plan.tys();
                let t = type_for(&plan, &pn, d, cx);
                match &plan {
                    Plan::Fmt2(..) => labels.push("two_traits_one_parameter".into()),
                    Plan::FmtFree(_) => labels.push("formatted_type_needs_nothing_of_parameter".into()),
                    Plan::FmtAssoc(_) => labels.push("projection_of_parameter".into()),
                    _ => {}
                }
                if t.contains("dyn ") {
                    labels.push("trait_object_field".into());
                }
                if t.starts_with('(') && !t.contains(',') {
                    labels.push("parenthesised_type".into());
                }
                let mut in_literal = !is_debug;
                if is_debug {
                    let plain_ok = tys == ["?"];
                    if plain_ok && d.chance(60) {
                        // plain derived Debug of the field
                        deferred.push((ref_name.clone(), "?"));
                        c.fields.push((vec![], decl_name, t));
                        continue;
                    } else if named && tys.len() == 1 && d.chance(30) {
                        // formatted only through the attribute of a *non-generic* neighbour field (debug.md: a field format may
                        // use any field); the generic field itself is skipped
                        let ty = tys[0];
                        c.fields.push((vec!["#[debug(skip)]".to_string()], decl_name, t));
                        c.fields.push((vec![format!("#[debug(\"{{:{ty}}}\", {raw_name})]")], Some(format!("n{i}")), "u8".to_string()));
                        labels.push("field_format_on_non_generic_neighbour".into());
                        deferred.push((ref_name.clone(), ty));
                        continue;
                    } else if d.chance(50) {
                        // field-level format: the field as a bare argument, or named inside the literal (the docs' form)
                        let fa = if d.chance(50) {
                            let ph: Vec<String> = tys.iter().map(|ty| format!("{{0{}}}", spec_of(ty))).collect();
                            format!("#[debug(\"{}\", {raw_name})]", ph.join(" "))
                        } else {
                            labels.push("field_level_format_names_field".into());
                            let ph: Vec<String> = tys.iter().map(|ty| format!("{{{ref_name}{}}}", spec_of(ty))).collect();
                            format!("#[debug(\"{}\")]", ph.join(" "))
                        };
                        labels.push("field_level_format".into());
                        for ty in &tys {
                            deferred.push((ref_name.clone(), ty));
                        }
                        c.fields.push((vec![fa], decl_name, t));
                        continue;
                    } else {
                        lit_needed = true;
                        in_literal = true;
                    }
                }
                if in_literal {
                    // reference it from the container literal in one of the documented ways, once per trait
                    for ty in &tys {
                        let spec = spec_of(ty);
                        match d.pick(4) {
                            0 => pieces.push(format!("{{{ref_name}{spec}}}")),
                            1 => {
                                // bare identifier argument, by index
                                pieces.push(format!("{{{}{spec}}}", args.iter().filter(|a: &&String| !a.contains(" = ")).count()));
                                args.push(raw_name.clone());
                            }
                            2 => {
                                let al = format!("al{i}{}", trait_of(ty).to_lowercase());
                                pieces.push(format!("{{{al}{spec}}}"));
                                args.push(format!("{al} = {raw_name}"));
                                labels.push("alias_to_field".into());
                            }
                            _ => {
                                // twice, and with flags
                                pieces.push(format!("{{{ref_name}{spec}}}"));
                                let fl = if ty.is_empty() { ":>4".to_string() } else { format!(":>4{ty}") };
                                pieces.push(format!("{{{ref_name}{fl}}}"));
                            }
                        }
                    }
                }
                c.fields.push((vec![], decl_name, t));
            }
            Plan::Unfmt => {
                let t = [pn.clone(), format!("Vec<{pn}>"), format!("core::marker::PhantomData<{pn}>"), format!("fn({pn}) -> u8"), format!("Option<Box<{pn}>>")][d.pick(5)].clone();
                let mut fattrs = vec![];
                if is_debug {
                    if d.chance(70) {
                        fattrs.push(["#[debug(skip)]", "#[debug(ignore)]"][d.pick(2)].to_string());
                        labels.push("skipped_field".into());
                    } else {
                        fattrs.push("#[debug(\"opaque\")]".to_string());
                        labels.push("field_literal_without_reference".into());
                    }
                    // (with a container literal these attributes are dropped below: the field is simply unreferenced)
                } else {
                    labels.push("unreferenced_field".into());
                }
                c.fields.push((fattrs, decl_name, t));
            }
            Plan::UserBound => {
                lit_needed = true;
                if named && d.chance(40) {
                    // a named argument shadowing the field of the same name: the placeholder formats the expression
                    pieces.push(format!("{{{ref_name}}}"));
                    args.push(format!("{raw_name} = {raw_name}.show()"));
                    labels.push("alias_shadows_field_with_expression".into());
                } else {
                    pieces.push(format!("{{{}}}", args.iter().filter(|a: &&String| !a.contains(" = ")).count()));
                    args.push(format!("{raw_name}.show()"));
                }
                extra_bounds.push(format!("{pn}: Show"));
                labels.push("expression_argument_with_user_bound".into());
                c.fields.push((vec![], decl_name, pn.clone()));
            }
        }
    }
    if is_debug && lit_needed {
        // a Debug container literal replaces the whole output: fields with their own attribute would conflict, and
        // whatever was to be formatted field by field has to be formatted by the literal
        for f in c.fields.iter_mut() {
            f.0.clear();
        }
        for (rn, ty) in &deferred {
            pieces.push(format!("{{{rn}{}}}", spec_of(ty)));
        }
        if !deferred.is_empty() {
            labels.push("debug_literal_takes_over_field_formats".into());
        }
    }
    if lit_needed {
        if pieces.is_empty() {
            pieces.push("plain".into());
        }
        // named arguments after positional ones
        let (named_args, pos_args): (Vec<String>, Vec<String>) = args.into_iter().partition(|a| a.contains(" = "));
        let mut all = pos_args;
        all.extend(named_args);
        let lit = pieces.join(" ");
        let a = if all.is_empty() { String::new() } else { format!(", {}", all.join(", ")) };
        c.attrs.push(format!("#[{attr}(\"{lit}\"{a})]"));
    }
    // user bounds: one attribute per predicate, or one attribute listing several predicates (the docs' own form:
    // `bound(T: MyTrait, U: Trait1 + Trait2)`), optionally with harmless extra predicates and a trailing comma
    if !extra_bounds.is_empty() {
        let kw = ["bound", "bounds"][d.pick(2)];
        if d.chance(50) {
            let mut preds: Vec<String> = extra_bounds.clone();
            match d.pick(4) {
                0 => {}
                1 => preds = preds.into_iter().map(|p| format!("{p} + Sized")).collect(),
                2 => preds.push("u8: Copy".to_string()),
                _ => preds.insert(0, format!("for<'z> &'z {}: Sized", plans[0].0)),
            }
            let tc = if d.chance(30) { "," } else { "" };
            if preds.len() > 1 {
                labels.push("bound_attribute_lists_several_predicates".into());
            }
            if preds.iter().any(|p| p.contains(" + ")) {
                labels.push("bound_predicate_with_several_traits".into());
            }
            c.attrs.push(format!("#[{attr}({kw}({}{tc}))]", preds.join(", ")));
        } else {
            for b in extra_bounds {
                let kw = ["bound", "bounds"][d.pick(2)];
                c.attrs.push(format!("#[{attr}({kw}({b}))]"));
            }
        }
    }
    c
}

fn render_fields(c: &Container, pubs: bool) -> String {
    let p = if pubs { "pub " } else { "" };
    let parts: Vec<String> = c
        .fields
        .iter()
        .map(|(a, n, t)| {
            let attrs = a.iter().map(|x| format!("{x} ")).collect::<String>();
            match n {
                Some(n) => format!("{attrs}{p}{n}: {t}"),
                None => format!("{attrs}{p}{t}"),
            }
        })
        .collect();
    if c.named {
        format!(" {{ {} }}", parts.join(", "))
    } else {
        format!("({})", parts.join(", "))
    }
}

fn is_bound_attr(a: &str) -> bool {
    a.contains("(bound(") || a.contains("(bounds(")
}

fn build(d: &mut Dice) -> GenCase {
    let (tr, attr, derived_ty) = FMT_TRAITS[[0usize, 0, 1, 1, 1, 2, 3, 4, 5, 6, 7, 8][d.pick(12)]];
    let is_debug = attr == "debug";
    let mut labels = vec![format!("trait={tr}")];
    let np = d.range(1, 3);
    let mut plans: Vec<(String, Plan)> = vec![];
    let tys: &[&'static str] = if is_debug { &["?", "?", "", "x", "b", "e", "p"] } else { &["", "?", "x", "X", "o", "b", "e", "E", "p"] };
    let pairs: Vec<(&'static str, &'static str)> = PAIRS.iter().copied().filter(|(a, b)| tys.contains(a) && tys.contains(b)).collect();
    for i in 0..np {
        let plan = match d.weighted(&[10, 6, 4, 3, 2, 2]) {
            0 => Plan::Fmt(if d.chance(40) { derived_ty } else { tys[d.pick(tys.len())] }),
            1 => Plan::Unfmt,
            2 => Plan::UserBound,
            3 => {
                let (a, b) = pairs[d.pick(pairs.len())];
                Plan::Fmt2(a, b)
            }
            4 => Plan::FmtAssoc(tys[d.pick(tys.len())]),
            _ => Plan::FmtFree(["?", "p"][d.pick(2)]),
        };
        plans.push((format!("P{i}"), plan));
    }
    let mut cx = Cx::default();
    let is_enum = d.chance(40);
    let mut item = String::new();
    let name;
    if !is_enum {
        name = "S";
        let c = gen_container(d, attr, derived_ty, &mut plans, &mut cx, &mut labels, true, None);
        let semi = if c.named { "" } else { ";" };
        item.push_str(&c.attrs.join("\n"));
        if c.named {
            item.push_str(&format!("\npub struct S<{{GENS}}>{{WHERE}}{}", render_fields(&c, true)));
        } else {
            item.push_str(&format!("\npub struct S<{{GENS}}>{}{{WHERE}}{semi}", render_fields(&c, true)));
        }
        labels.push("kind=struct".into());
    } else {
        name = "E";
        labels.push("kind=enum".into());
        // shared enum-level literal (Display-like only): none / default / wrapping `_variant` / exactly `{_variant}`
        let shared = if is_debug { 0 } else { d.weighted(&[5, 3, 3, 1]) };
        // a default shared literal may itself format a field of the variants it applies to: positional field 0, or a
        // named field `w`
        let shared_ref_ty: Option<&'static str> = if shared == 1 && d.chance(60) { Some(tys[d.pick(tys.len())]) } else { None };
        let shared_ref_named = shared_ref_ty.is_some() && d.chance(40);
        // a wrapping shared literal may format a field as well ("the variant's fields still available by name"): then
        // every variant is struct-like and has a field `w`
        let wrap_ty: Option<&'static str> = if shared == 2 && d.chance(50) { Some(tys[d.pick(tys.len())]) } else { None };
        let mut wrap_param: Option<usize> = None;
        if let Some(wt) = wrap_ty {
            wrap_param = plans.iter().position(|(_, pl)| *pl == Plan::Unfmt || *pl == Plan::Fmt(wt));
            if let Some(k) = wrap_param {
                plans[k].1 = Plan::Fmt(wt);
            }
            labels.push("wrapping_shared_literal_formats_a_field".into());
        }
        let nv = d.range(1, 3);
        // split the parameters over the variants (each variant gets >= 1 when possible); all must be used somewhere
        let mut variants = vec![];
        let mut enum_attrs: Vec<String> = vec![];
        for vi in 0..nv {
            let mut idx: Vec<usize> = (0..plans.len()).filter(|p| p % nv == vi || d.chance(25)).collect();
            if idx.is_empty() {
                idx.push(d.pick(plans.len()));
            }
            let mut sub: Vec<(String, Plan)> = idx.iter().map(|i| plans[*i].clone()).collect();
            let covered_by_default = shared == 1 && d.chance(50);
            if covered_by_default {
                // the variant has no attribute of its own: the default shared literal is its whole output, so none of its
                // fields is formatted, except the one the shared literal names
                let named = d.chance(50);
                let mut c = Container { attrs: vec![], fields: vec![], named };
                let mut fmt_here: Vec<usize> = vec![];
                if let Some(rty) = shared_ref_ty {
                    // `{_0:ty}` / `{w:ty}` of the shared literal formats that field
                    c.named = shared_ref_named;
                    let fld = if shared_ref_named { Some("w".to_string()) } else { None };
                    let k0 = sub.iter().position(|(_, pl)| *pl == Plan::Unfmt || *pl == Plan::Fmt(rty));
                    match k0 {
                        Some(k0) => {
                            let pn = sub[k0].0.clone();
                            let t = forms_for(&[rty], &pn, d, &mut cx);
                            c.fields.push((vec![], fld, t));
                            plans[idx[k0]].1 = Plan::Fmt(rty);
                            fmt_here.push(idx[k0]);
                        }
                        None => c.fields.push((vec![], fld, format!("Only{}", trait_of(rty)))),
                    }
                    labels.push("default_shared_literal_formats_a_field".into());
                    if shared_ref_named {
                        labels.push("default_shared_literal_names_a_named_field".into());
                    }
                }
                for (k, (pn, _)) in sub.iter().enumerate() {
                    let nm = if c.named { Some(FNAMES[k % 5].to_string()) } else { None };
                    c.fields.push((vec![], nm, format!("core::marker::PhantomData<{pn}>")));
                }
                labels.push("variant_covered_by_default_shared_literal".into());
                variants.push((vi, c, idx.clone(), true, fmt_here));
                continue;
            }
            let force_named = if wrap_ty.is_some() { Some(true) } else { None };
            let c = gen_container(d, attr, derived_ty, &mut sub, &mut cx, &mut labels, shared != 1 && wrap_ty.is_none(), force_named);
            for (k, i) in idx.iter().enumerate() {
                plans[*i].1 = sub[k].1.clone();
            }
            let all = idx.clone();
            variants.push((vi, c, idx, false, all));
        }
        // a parameter only used in default-covered variants is unformatted whatever its plan said
        for (pi, p) in plans.iter_mut().enumerate() {
            let used_fmt = variants.iter().any(|(_, _, _, _, fmt_idx)| fmt_idx.contains(&pi)) || wrap_param == Some(pi);
            if !used_fmt {
                p.1 = Plan::Unfmt;
            }
        }
        let unused: Vec<String> = plans
            .iter()
            .enumerate()
            .filter(|(pi, _)| !variants.iter().any(|(_, _, idx, _, _)| idx.contains(pi)))
            .map(|(_, p)| p.0.clone())
            .collect();
        // the field `w` the wrapping literal formats
        let w_field = |d: &mut Dice, cx: &mut Cx| -> String {
            let wt = wrap_ty.unwrap();
            match wrap_param {
                Some(k) => forms_for(&[wt], &plans[k].0, d, cx),
                None => format!("Only{}", trait_of(wt)),
            }
        };
        match shared {
            1 => {
                match shared_ref_ty {
                    Some(rty) => {
                        let spec = if rty.is_empty() { String::new() } else { format!(":{rty}") };
                        let fld = if shared_ref_named { "w" } else { "_0" };
                        // text around the placeholder, or the bare placeholder (a delegation)
                        let (pre, bare) = if d.chance(30) { ("", true) } else { ("shared ", false) };
                        if bare {
                            labels.push("default_shared_literal_is_bare_placeholder".into());
                        }
                        enum_attrs.push(match d.pick(3) {
                            0 => format!("#[{attr}(\"{pre}{{{fld}{spec}}}\")]"),
                            1 => format!("#[{attr}(\"{pre}{{0{spec}}}\", {fld})]"),
                            _ => format!("#[{attr}(\"{pre}{{al{spec}}}\", al = {fld})]"),
                        });
                    }
                    None => enum_attrs.push(format!("#[{attr}(\"shared default\")]")),
                }
                labels.push("shared=default".into());
            }
            2 => {
                match wrap_ty {
                    Some(wt) => {
                        let spec = if wt.is_empty() { String::new() } else { format!(":{wt}") };
                        enum_attrs.push(match d.pick(4) {
                            0 => format!("#[{attr}(\"<{{_variant}}> {{w{spec}}}\")]"),
                            1 => format!("#[{attr}(\"<{{_variant}}> {{0{spec}}}\", w)]"),
                            2 => format!("#[{attr}(\"<{{_variant}}> {{al{spec}}}\", al = w)]"),
                            _ => format!("#[{attr}(\"<{{}}> {{w{spec}}}\", _variant)]"),
                        });
                    }
                    None => enum_attrs.push(format!("#[{attr}(\"<{{_variant}}>\")]")),
                }
                labels.push("shared=wrapping".into());
            }
            3 => {
                // exactly `{_variant}`: every variant prints as it would by itself
                enum_attrs.push(format!("#[{attr}(\"{{_variant}}\")]"));
                labels.push("shared=variant_only".into());
            }
            _ => {}
        }
        // user bounds declared on variants move to the enum level half of the time (documented placement)
        let mut vtexts = vec![];
        for (vi, c, _, _, _) in variants.iter_mut() {
            if wrap_ty.is_some() {
                let t = w_field(d, &mut cx);
                c.fields.push((vec![], Some("w".to_string()), t));
            }
            let mut attrs = c.attrs.clone();
            // the docs show `bound(..)` on the item ("in the struct/enum definition"): for enums it goes on the enum;
            // the Display-like derives also take it on a variant (their attribute grammar is the same for struct and variant)
            let has_bound = attrs.iter().any(|a| is_bound_attr(a));
            if is_debug || d.chance(60) {
                let (b, rest): (Vec<String>, Vec<String>) = attrs.into_iter().partition(|a| is_bound_attr(a));
                attrs = rest;
                if !b.is_empty() {
                    labels.push("enum_level_bound".into());
                }
                enum_attrs.extend(b);
            } else if has_bound {
                labels.push("variant_level_bound".into());
            }
            let fields = if c.fields.is_empty() { String::new() } else { render_fields(c, false) };
            vtexts.push(format!("    {} V{vi}{fields}", attrs.join(" ")));
        }
        if !unused.is_empty() {
            let at = if is_debug { String::new() } else { format!("#[{attr}(\"phantom\")] ") };
            if wrap_ty.is_some() {
                let ph: Vec<String> = unused.iter().enumerate().map(|(k, p)| format!("ph{k}: core::marker::PhantomData<{p}>")).collect();
                let t = w_field(d, &mut cx);
                vtexts.push(format!("    {at}Ph {{ {}, w: {t} }}", ph.join(", ")));
            } else {
                let ph: Vec<String> = unused.iter().map(|p| format!("core::marker::PhantomData<{p}>")).collect();
                vtexts.push(format!("    {at}Ph({})", ph.join(", ")));
            }
        }
        item.push_str(&enum_attrs.join("\n"));
        item.push_str(&format!("\npub enum E<{{GENS}}>{{WHERE}} {{\n{}\n}}", vtexts.join(",\n")));
    }
    let lt = cx.lt;
    // generics declaration: lifetime, type parameters (with the bounds their plan needs and optional harmless ones, an
    // optional default on the last one), an optional unused const parameter; optional where-clause
    let mut where_preds: Vec<String> = vec![];
    let mut decl: Vec<String> = vec![];
    if lt {
        decl.push("'a".into());
    }
    let const_param = d.chance(20);
    let const_default = const_param && d.chance(50);
    let type_default = (!const_param || const_default) && d.chance(15);
    for (i, (pn, plan)) in plans.iter().enumerate() {
        let mut inline: Vec<String> = vec![];
        if let Plan::FmtAssoc(_) = plan {
            if d.chance(50) {
                inline.push("Assoc".into());
            } else {
                where_preds.push(format!("{pn}: Assoc"));
            }
        }
        if d.chance(20) {
            inline.push(["Sized", "'static", "Sized + 'static"][d.pick(3)].to_string());
            labels.push("item_inline_bound".into());
        }
        let mut s = pn.clone();
        if !inline.is_empty() {
            s.push_str(&format!(": {}", inline.join(" + ")));
        }
        if type_default && i + 1 == plans.len() {
            s.push_str(&format!(" = {}", plan.good()));
            labels.push("item_param_default".into());
        }
        decl.push(s);
    }
    if const_param {
        decl.push(format!("const N: usize{}", if const_default { " = 3" } else { "" }));
        labels.push("item_const_param".into());
    }
    if d.chance(25) {
        let pn = &plans[0].0;
        where_preds.push(match d.pick(4) {
            0 => format!("{pn}: Sized"),
            1 => format!("Vec<{pn}>: Sized"),
            2 => format!("for<'z> &'z {pn}: Sized"),
            _ => "u8: Copy".to_string(),
        });
    }
    if !where_preds.is_empty() {
        labels.push("item_where_clause".into());
    }
    let wh = if where_preds.is_empty() { String::new() } else { format!(" where {}", where_preds.join(", ")) };
    let item = item.replace("{GENS}", &decl.join(", ")).replace("{WHERE}", &wh);
    // instantiations
    let inst = |f: &dyn Fn(usize, &Plan) -> String| -> String {
        let mut v: Vec<String> = vec![];
        if lt {
            v.push("'static".into());
        }
        for (i, (_, p)) in plans.iter().enumerate() {
            v.push(f(i, p));
        }
        if const_param {
            v.push("2".into());
        }
        format!("{name}<{}>", v.join(", "))
    };
    let good = inst(&|_, p| p.good());
    let trait_path = format!("core::fmt::{tr}");
    let mut checks = format!(
        "    o.check(\"impl exists with unformatted parameters = NoFmt and formatted ones implementing only their trait(s): {good}: {tr}\", impls!({good}: {trait_path}));\n"
    );
    // each formatted / user-bounded parameter is really needed: an instantiation lacking (one of) its trait(s) must
    // remove the impl
    for (i, (_, p)) in plans.iter().enumerate() {
        for bad in p.bad() {
            let t = inst(&|j, q| if j == i { bad.clone() } else { q.good() });
            let what = if *p == Plan::UserBound { "user bound(..) is part of the impl's bounds" } else { "the bound of a formatted parameter is part of the impl's bounds" };
            checks.push_str(&format!("    o.check(\"{what}: {t} must not implement {tr}\", !impls!({t}: {trait_path}));\n"));
        }
    }
    let body = format!("#[derive(derive_more::{tr})]\n{item}\npub fn run(o: &mut Out) {{\n{checks}}}", item = item.trim_start_matches('\n'));
    let n_unfmt = plans.iter().filter(|p| p.1 == Plan::Unfmt).count();
    let n_fmt = plans.iter().filter(|p| !p.1.tys().is_empty()).count();
    if n_unfmt > 0 {
        labels.push("has_unformatted_param".into());
    }
    if plans.iter().any(|p| p.1 == Plan::UserBound) {
        labels.push("has_user_bound".into());
    }
    if plans.iter().any(|p| p.1.tys().contains(&"p")) || body.contains(":p}") {
        labels.push("pointer_placeholder".into());
    }
    if lt {
        labels.push("has_lifetime".into());
    }
    let composite = body.contains("W<") || body.contains("Vec<") || body.contains("Box<") || body.contains("Option<") || body.contains("&'a") || body.contains("; 2]");
    if composite {
        labels.push("param_in_composite_type".into());
    }
    labels.sort();
    labels.dedup();
    let mut c = GenCase::new(body);
    c.nontrivial = (n_unfmt > 0 && n_fmt > 0) || composite || labels.iter().any(|l| l.starts_with("shared="));
    c.labels = labels;
    c.meta = json!({"plans": plans.iter().map(|p| format!("{}={:?}", p.0, p.1)).collect::<Vec<_>>()});
    c
}

fn classify(c: &GenCase, r: &CaseResult, f: &Finding) -> Option<String> {
    let _ = f;
    if !r.compiled && c.body.contains("&'a P") && r.errors.iter().all(|e| e.message.contains("lifetime may not live long enough")) {
        // defect model: a field of type `&'a P` is bounded as `&'a P: Trait`; that where-clause shadows std's blanket
        // `impl<T: Trait> Trait for &T`, so formatting any *other* `&P` (the binding of a `P` field) under the same trait
        // is forced to the lifetime 'a
        return Some("c04-ref-field-bound-shadows-blanket-impl".into());
    }
    None
}

pub fn prop() -> DiceProp {
    DiceProp {
        crate_name: "gen_c04",
        prelude: PRELUDE.to_string(),
        crate_attrs: String::new(),
        nightly: false,
        check_only: false,
        ndice: 240,
        quick: (8000, 1),
        thorough: (5000, 8),
        build,
        fixed: no_fixed,
        classify,
        rule: "generic structs and enums (1..3 type parameters, optional lifetime, optional inline bounds / where-clause / unused const parameter / defaults) deriving the 8 Display-like traits or Debug; each parameter is planned as formatted under one trait or under two different traits (through field types P, (P), W<P>, Box<P>, Box<dyn DynTr<P>>, Box<dyn DynTr<P> + Send>, &'a P, <W<P> as Assoc>::Out, <u8 as AssocArg<P>>::Out, and for Debug Vec/Option/array/tuple/boxed slice/Box<dyn DynAssoc<Item = P>>), formatted through its projection P::Out (item declares P: Assoc), formatted through a type needing nothing of the parameter (*const P, fn(P) -> u8), unformatted (unreferenced, skipped, PhantomData, fn pointer, behind a default shared enum literal) or used only in an argument expression with a user `bound(..)`/`bounds(..)` (struct, variant or enum level; one predicate per attribute or several in one); references by name, by bare-identifier argument, by alias, repeated and with flags, under every formatting trait incl. Pointer; implicit single-field delegation; field-level debug formats (field as argument or named in the literal); shared enum literals (default, bare default, `_variant`-wrapping, exactly `{_variant}`; default and wrapping ones may format a field by name, by bare argument or by alias). Oracle: the item compiles without further bounds, the impl exists for NoFmt/Only<Trait(s)>/OnlyShow instantiations, does not exist when a formatted parameter lacks (one of) its trait(s), and does not exist when a user-bounded parameter lacks the user's trait. Non-trivial = at least one formatted and one unformatted parameter, or a parameter nested in a composite type, or a shared enum literal; distinct by program text".into(),
        assumptions: vec!["trait-implementation probe via inherent-const-vs-blanket-trait resolution (stable Rust)".into()],
        floors: vec![
            ("has_unformatted_param".into(), 0.2),
            ("has_user_bound".into(), 0.1),
            ("param_in_composite_type".into(), 0.3),
            ("kind=enum".into(), 0.2),
            ("shared=default".into(), 0.03),
            ("shared=wrapping".into(), 0.03),
            ("alias_to_field".into(), 0.05),
            ("two_traits_one_parameter".into(), 0.05),
            ("pointer_placeholder".into(), 0.05),
            ("projection_of_parameter".into(), 0.03),
            ("trait_object_field".into(), 0.01),
            ("wrapping_shared_literal_formats_a_field".into(), 0.01),
            ("bound_attribute_lists_several_predicates".into(), 0.03),
            ("item_where_clause".into(), 0.1),
        ],
        shards: 0,
    }
}

pub fn run(ctx: &Ctx) -> Report {
    super::progprop::run(&prop(), ctx)
}

pub fn replay(ctx: &Ctx, case: &serde_json::Value) -> Report {
    super::progprop::replay(&prop(), ctx, case)
}
